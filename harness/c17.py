"""C17 correspondence: the real `value`/`min_value`/`max_value` properties and the raw value in the
request produced by `set(displayed)` versus the exact binary64 Lean model, on the SAME finite
domain the theorems range over (every scaling combination x every raw value: exhaustive), plus
every table row on boundary / random raw values, plus the accept/refuse clause around the bounds.

Observations (properties.jsonl observe_at): value/min_value/max_value properties; raw value in the
set request produced by set(displayed value).
"""
import asyncio
import random

from common import Result, driver_batch
import paramdev as pd
from paramdev import World

from pyplumio.helpers.parameter import ParameterValues


# ------------------------------------------------------------------ worlds with every row present
SUBDEVICES = 2


async def full_world(product, tables):
    """an EcoMAX of the given product type holding a parameter for EVERY row of every table"""
    w = World()
    await w.uid(product)
    eco = tables["tables"]["ecomaxP" if product == pd.PRODUCT_P else "ecomaxI"]
    mix = tables["tables"]["mixerP" if product == pd.PRODUCT_P else "mixerI"]
    thr = tables["tables"]["thermostat"]
    await w.ecomax_params(pd.ecomax_payload(0, [(0, 0, 255)] * len(eco)))
    # TWO mixers and TWO thermostats: the display <-> raw conversion must not depend on the sub-device a number belongs
    # to (the second thermostat's parameters carry a non-zero slot offset)
    await w.mixer_params(pd.mixer_payload(0, [[(0, 0, 255)] * len(mix)] * SUBDEVICES))
    await w.thermostats_available(SUBDEVICES)
    sizes = [r["size"] for r in thr]
    await w.thermostat_params(pd.thermostat_payload(
        0, len(thr) * SUBDEVICES, (0, 0, 255), [[(0, 0, 256 ** r["size"] - 1) for r in thr]] * SUBDEVICES, sizes))
    bits = [[False] * 48 for _ in range(7)]
    n = len(tables["schedules"])
    await w.schedules(pd.schedules_payload([(i, 0, (0, 0, 255), bits) for i in range(n)]))
    await w.state(0)
    assert not w.errors, w.errors
    return w


def rows_of(product, tables, subdevices=1):
    """[(table name, kind, device label, row)] for one product type; subdevices > 1: the rows of every mixer / thermostat"""
    P = product == pd.PRODUCT_P
    t = tables["tables"]
    out = []
    out += [("ecomaxP" if P else "ecomaxI", "ecomax", "ecomax", r) for r in t["ecomaxP" if P else "ecomaxI"]]
    for k in range(subdevices):
        out += [("mixerP" if P else "mixerI", "mixer", f"mixer{k}", r) for r in t["mixerP" if P else "mixerI"]]
    if P:
        for k in range(subdevices):
            out += [("thermostat", "thermostat", f"thermostat{k}", r) for r in t["thermostat"]]
        out += [("scheduleParams", "schedule", "ecomax", r) for r in t["scheduleParams"]]
        out += [("ecomaxControl", "control", "ecomax", tables["special"]["ecomaxControl"]),
                ("thermostatProfile", "profile", "ecomax", tables["special"]["thermostatProfile"])]
    return out


def request_raw(kind, frames, size):
    """raw value carried by the first frame a set call queued (the set request), or None"""
    if not frames or frames[0][0] == "unencodable":
        return None
    cls, ftype, rcpt, msg = frames[0]
    b = bytes.fromhex(msg) if msg != "-" else b""
    if cls == "SetEcomaxParameterRequest" and len(b) == 2:
        return b[1]
    if cls == "SetMixerParameterRequest" and len(b) == 3:
        return b[2]
    if cls == "SetThermostatParameterRequest" and len(b) == 1 + size:
        return int.from_bytes(b[1:], "little")
    if cls == "EcomaxControlRequest" and len(b) == 1:
        return b[0]
    if cls == "SetScheduleRequest" and len(b) == 4 + 42:
        return ("schedule", b[1], b[2], b[3])
    return ("unparsed", cls, msg)


async def shown(p, raw, hi):
    """the three properties with the raw triple (raw, raw, raw)"""
    p.update(ParameterValues(value=raw, min_value=raw, max_value=raw))
    return p.value, p.min_value, p.max_value


def held_value(raw, disp, n, via_device):
    """the value held before the write-back: different from `raw`; on the Device.set route the raw number that
    the displayed value looks like (20 displayed for raw 40 -> hold raw 20), so that a route comparing the
    requested displayed value with the held raw value must still transmit"""
    if via_device and isinstance(disp, (int, float)) and not isinstance(disp, bool):
        held = int(disp)
        if 0 <= held < n and held != raw:
            return held
    return (raw + 1) % n


async def write_back(w, p, raw, disp, n, kind, size, via_device=None):
    """hold a value different from `raw` with full bounds, then set(displayed); returns the
    raw value of the queued set request and the result"""
    other = held_value(raw, disp, n, via_device is not None)
    p.update(ParameterValues(value=other, min_value=0, max_value=n - 1))
    if via_device is not None:
        dev, name = via_device
        r, frames = await pd.run_set(w, lambda: dev.set(name, disp, retries=1))
    else:
        r, frames = await pd.run_set(w, lambda: p.set(disp, retries=1, timeout=0.01))
    return r, request_raw(kind, frames, size), p.values.value


def sched_expect(row_name, raw, schedules):
    """for schedule parameters the request carries (schedule index, switch, parameter)"""
    return None


async def run_async(ctx, res):
    tier = ctx["tier"]
    rng = random.Random(ctx["seed"] * 104729 + 17)
    tables = pd.load_tables()
    combos = tables["scaling"]["combos"]
    quick = tier == "quick"

    worlds = {pd.PRODUCT_P: await full_world(pd.PRODUCT_P, tables), pd.PRODUCT_I: await full_world(pd.PRODUCT_I, tables)}
    allrows = []
    for product in (pd.PRODUCT_P, pd.PRODUCT_I):
        for tname, kind, label, row in rows_of(product, tables, SUBDEVICES):
            dev = worlds[product].device(label)
            p = dev.data.get(row["name"])
            if p is None:
                res.fail("corr", dict(table=tname, row=row["name"]), "parameter present", "missing",
                         "row of the table did not become a parameter of the device")
                continue
            allrows.append((product, tname, kind, label, row, p))

    # representative row per combination
    def combo_of(kind, row):
        if row["switch"] or kind in ("schedule", "control"):
            return None
        uo = kind in ("ecomax", "mixer", "profile")
        return [uo, row["mult_num"], row["mult_den"], row["offset"] if uo else 0, row["precision"], row["size"]]

    rep = {}
    for item in allrows:
        c = combo_of(item[2], item[4])
        if c is not None:
            rep.setdefault(tuple(c), item)
    for c in combos:
        if tuple(c) not in rep:
            res.fail("corr", dict(combo=c), "a table row with this combination", "none",
                     "translator combination without a row")
    for c in rep:
        if list(c) not in combos:
            res.fail("corr", dict(combo=list(c)), "combination emitted by the translator", "missing",
                     "row combination not among the translator's combinations")

    # ---- 1. every combination x every raw value: float model == CPython, write-back == raw
    jobs = []   # (what, product, tname, kind, label, row, p, raws)
    for c, item in sorted(rep.items()):
        n = 256 ** c[5]
        if n > 256 and ctx.get("max_cases"):
            raws = sorted(set(rng.sample(range(n), 2000)) | {0, 1, 2, n - 1, n - 2, 255, 256, 257, 32767, 32768})
            full = False
        else:
            raws = list(range(n))
            full = True
        jobs.append(("combo", full) + item + (raws,))
    # ---- 2. every row on boundary/random raw values (quick) or all raw values (thorough)
    for item in allrows:
        row = item[4]
        n = 256 ** row["size"]
        if row["switch"]:
            raws = [0, 1]
        elif quick:
            base = {0, 1, 2, 3, 19, 20, 21, 99, 100, 127, 128, 254, 255, n - 1, n - 2}
            raws = sorted(x for x in base | set(rng.sample(range(n), 6)) if 0 <= x < n)
        else:
            raws = list(range(n))
        jobs.append(("row", not quick) + item + (raws,))

    exhaustive_ok = True
    reqs = []
    for what, full, product, tname, kind, label, row, p, raws in jobs:
        cw = pd.conv_words(kind, row)
        for raw in raws:
            reqs.append(f"display {cw} {raw}")
    # one driver request per (conv, raw): display; write-back is asked after we know what python displayed
    answers = driver_batch(reqs)
    ai = 0
    toraw_reqs, toraw_idx = [], []
    records = []
    for what, full, product, tname, kind, label, row, p, raws in jobs:
        w = worlds[product]
        n = 256 ** row["size"]
        cw = pd.conv_words(kind, row)
        dev = w.device(label)
        for k, raw in enumerate(raws):
            model_disp = answers[ai]
            ai += 1
            v, vmin, vmax = await shown(p, raw, n)
            via = (dev, row["name"]) if (k % 37 == 0 or k % 10 == 3) else None
            r, sent, after = await write_back(w, p, raw, v, n, kind, row["size"], via)
            rec = dict(what=what, table=tname, row=row["name"], raw=raw, conv=cw, shown=pd.canon_val(v),
                       shown_min=pd.canon_val(vmin), shown_max=pd.canon_val(vmax), result=list(r), sent=sent, after=after,
                       model_shown=model_disp, kind=kind, via="device.set" if via else "parameter.set", device=label)
            records.append(rec)
            toraw_reqs.append(f"toraw {cw} {pd.enc_val(v)}")
    model_back = driver_batch(toraw_reqs)
    seen_samples = set()
    for rec, mb in zip(records, model_back):
        raw, row = rec["raw"], rec["row"]
        fp = (rec["conv"], rec["table"] if rec["what"] == "row" else "", row if rec["what"] == "row" else "",
              rec["device"] if rec["what"] == "row" else "", raw)
        res.case(fp, nontrivial=True)
        res.count("part:" + rec["what"])
        res.count("conv:" + rec["conv"].split()[0] + ("" if rec["conv"].split()[1] == "1" else "*0.1") +
                  ("+off" if rec["conv"].split()[3] != "0" else ""))
        inp = dict(table=rec["table"], row=row, raw=raw, conv=rec["conv"], via=rec["via"], device=rec["device"])
        # correspondence: displayed forms
        is_switch = rec["conv"].startswith("sw")
        exp_min = "s:off" if is_switch else rec["model_shown"]
        exp_max = "s:on" if is_switch else rec["model_shown"]
        if (rec["shown"], rec["shown_min"], rec["shown_max"]) != (rec["model_shown"], exp_min, exp_max):
            res.fail("corr", inp, dict(value=rec["model_shown"], min_value=exp_min, max_value=exp_max),
                     dict(value=rec["shown"], min_value=rec["shown_min"], max_value=rec["shown_max"]),
                     "displayed value/min/max differ from the binary64 model (display)")
        # correspondence: write-back raw
        if rec["kind"] == "schedule":
            sent_raw = None
            if isinstance(rec["sent"], tuple) and rec["sent"][0] == "schedule":
                sent_raw = rec["sent"][2] if row.endswith("_schedule_switch") else rec["sent"][3]
        else:
            sent_raw = rec["sent"] if isinstance(rec["sent"], int) else None
        exp = f"ok:{sent_raw}" if sent_raw is not None else f"none:{rec['result']}"
        if mb != exp:
            res.fail("corr", inp, mb, dict(sent=rec["sent"], result=rec["result"]),
                     "raw value in the set request differs from the model's toRaw(displayed)")
        # the property itself, on what the implementation did
        if sent_raw != raw or rec["after"] != raw:
            res.fail("spec", inp, dict(request_raw=raw),
                     dict(displayed=rec["shown"], request=rec["sent"], result=rec["result"], value_after=rec["after"]),
                     "set(displayed value) did not transmit the raw value it was displayed for")
        key = rec["conv"]
        if key not in seen_samples and raw not in (0, 1) and len(res.samples) < 8:
            seen_samples.add(key)
            res.sample(dict(row=row, raw=raw, displayed=rec["shown"], request_raw=rec["sent"], via=rec["via"]))

    # ---- 3. accept / refuse around the bounds, through the displayed values
    breqs, brecs = [], []
    for product, tname, kind, label, row, p in allrows:
        if row["switch"]:
            continue
        w = worlds[product]
        n = 256 ** row["size"]
        cw = pd.conv_words(kind, row)
        triples = [(rng.randrange(n), lo, hi) for lo, hi in
                   [sorted((rng.randrange(n), rng.randrange(n))) for _ in range(1 if quick else 6)]]
        triples.append((rng.randrange(n), 1, n - 2))
        for cur, lo, hi in triples:
            for raw in sorted({lo - 1, lo, lo + 1, hi - 1, hi, hi + 1, 0, n - 1}):
                if not 0 <= raw < n or raw == cur:
                    continue
                p.update(ParameterValues(value=raw, min_value=lo, max_value=hi))
                disp, dmin, dmax = p.value, p.min_value, p.max_value
                p.update(ParameterValues(value=cur, min_value=lo, max_value=hi))
                r, frames = await pd.run_set(w, lambda: p.set(disp, retries=1, timeout=0.01))
                sent = request_raw(kind, frames, row["size"])
                if kind == "schedule" and isinstance(sent, tuple):
                    sent = sent[3]
                brecs.append(dict(table=tname, row=row["name"], raw=raw, triple=[cur, lo, hi], conv=cw,
                                  displayed=pd.canon_val(disp), dmin=pd.canon_val(dmin), dmax=pd.canon_val(dmax),
                                  result=list(r), sent=sent, after=p.values.value, device=label))
                breqs.append(f"display {cw} {lo}")
                breqs.append(f"display {cw} {hi}")
                breqs.append(f"c06set {cw} {cur} {lo} {hi} {pd.enc_val(disp)} 1")
    bans = driver_batch(breqs)
    for i, rec in enumerate(brecs):
        mlo, mhi, mset = bans[3 * i], bans[3 * i + 1], bans[3 * i + 2]
        cur, lo, hi = rec["triple"]
        raw = rec["raw"]
        inside = lo <= raw <= hi
        res.case(("bounds", rec["conv"], rec["table"], rec["row"], rec["device"], tuple(rec["triple"]), raw), True)
        res.count("bounds:" + ("inside" if inside else "outside"))
        inp = dict(table=rec["table"], row=rec["row"], triple=rec["triple"], raw=raw, conv=rec["conv"], device=rec["device"])
        if (rec["dmin"], rec["dmax"]) != (mlo, mhi):
            res.fail("spec", inp, dict(min_value=mlo, max_value=mhi), dict(min_value=rec["dmin"], max_value=rec["dmax"]),
                     "displayed minimum/maximum are not the displayed forms of the raw bounds")
        obs = ("transmit:%d" % rec["sent"]) if isinstance(rec["sent"], int) else ("reject" if rec["result"] == ["exc", "ValueError"] else f"other:{rec['result']}")
        model = mset.split()[0]
        if obs != model:
            res.fail("corr", inp, mset, dict(result=rec["result"], sent=rec["sent"]),
                     "accept/refuse decision differs from the model")
        want = f"transmit:{raw}" if inside else "reject"
        if obs != want or rec["after"] != (raw if inside else cur):
            res.fail("spec", inp, want, dict(result=rec["result"], sent=rec["sent"], value_after=rec["after"]),
                     "displayed form of a raw value inside the bounds refused / outside the bounds accepted")
    # ---- 4. re-reports through real frames: the controller reports a row, then reports it AGAIN with the same
    # value and other raw bounds; the displayed bounds must be the displayed forms of the LAST reported raw bounds
    # and the accept/refuse decision must follow them
    from c06 import feed_triple   # (c06 imports this module; import at call time)
    res4 = Result("C17")           # own failure list: must not be crowded out by the 200-failure cap of the other stages
    rreqs, rrecs = [], []
    st = {pd.PRODUCT_P: {}, pd.PRODUCT_I: {}}
    for product, tname, kind, label, row, p0 in allrows:
        if row["switch"] or kind == "control" or label.endswith("1"):     # (reports are fed for sub-device 0)
            continue
        if quick and kind in ("ecomax", "schedule") and rng.random() < 0.6:
            continue
        w = worlds[product]
        n = 256 ** row["size"]
        cw = pd.conv_words(kind, row)
        v = rng.randrange(20, min(n, 250) - 20)
        wide, narrow = (v, v - 10, v + 10), (v, v - 2, v + 2)
        first, second = (wide, narrow) if rng.random() < 0.6 else (narrow, wide)
        await feed_triple(w, tables, tname, kind, row, first, st[product])
        await feed_triple(w, tables, tname, kind, row, second, st[product])
        p = w.device(label).data[row["name"]]
        dmin, dmax = p.min_value, p.max_value
        raw = v + rng.choice([5, -5, 4, -4])     # inside the wide bounds, outside the narrow ones
        p.update(ParameterValues(value=raw, min_value=0, max_value=n - 1))
        disp = p.value
        await feed_triple(w, tables, tname, kind, row, first, st[product])
        await feed_triple(w, tables, tname, kind, row, second, st[product])
        p = w.device(label).data[row["name"]]
        r, frames = await pd.run_set(w, lambda: p.set(disp, retries=1, timeout=0.01))
        sent = request_raw(kind, frames, row["size"])
        if kind == "schedule" and isinstance(sent, tuple):
            sent = sent[3]
        rrecs.append(dict(table=tname, row=row["name"], conv=cw, reports=[list(first), list(second)], raw=raw,
                          dmin=pd.canon_val(dmin), dmax=pd.canon_val(dmax), result=list(r), sent=sent, after=p.values.value))
        rreqs += [f"display {cw} {second[1]}", f"display {cw} {second[2]}"]
    rans = driver_batch(rreqs)
    for i, rec in enumerate(rrecs):
        mlo, mhi = rans[2 * i], rans[2 * i + 1]
        v, lo, hi = rec["reports"][1]
        inside = lo <= rec["raw"] <= hi
        res.case(("rereport", rec["conv"], rec["table"], rec["row"], tuple(map(tuple, rec["reports"])), rec["raw"]), True)
        res.count("rereport:" + ("narrowed" if rec["reports"][1][2] - rec["reports"][1][1] < 10 else "widened"))
        inp = dict(table=rec["table"], row=rec["row"], conv=rec["conv"], reports=rec["reports"], raw=rec["raw"])
        if (rec["dmin"], rec["dmax"]) != (mlo, mhi):
            res4.fail("spec", inp, dict(min_value=mlo, max_value=mhi), dict(min_value=rec["dmin"], max_value=rec["dmax"]),
                     "displayed minimum/maximum are not the displayed forms of the raw bounds the controller last reported")
        obs = ("transmit:%d" % rec["sent"]) if isinstance(rec["sent"], int) else ("reject" if rec["result"] == ["exc", "ValueError"] else f"other:{rec['result']}")
        want = f"transmit:{rec['raw']}" if inside else "reject"
        if obs != want:
            res4.fail("spec", inp, want, dict(result=rec["result"], sent=rec["sent"], value_after=rec["after"]),
                     "after a re-report: displayed form of a raw value inside the last reported bounds refused / outside them accepted")
    # ---- 5. the queued set request is serialised LATER (as the producer does when it finally writes it), after a
    # periodic controller report that still carries the old value has been handled: the request on the wire must
    # carry the raw value of the displayed value that was written, for every parameter class (schedule parameters
    # build their request from OTHER parameters of the device: switch + parameter + bitmap)
    import asyncio
    loop = asyncio.get_running_loop()
    for product, tname, kind, label, row, p0 in allrows:
        if kind == "control" or label.endswith("1"):
            continue
        if quick and ((kind == "ecomax" and rng.random() < 0.8) or (kind == "schedule" and rng.random() < 0.5)):
            continue
        w = worlds[product]
        n = 256 ** row["size"]
        cw = pd.conv_words(kind, row)
        top = 2 if row["switch"] else min(n, 250)
        raw = rng.randrange(top)
        other = (raw + 1 + rng.randrange(top - 1)) % top
        stale = (other, 0, top - 1)
        await feed_triple(w, tables, tname, kind, row, (raw, 0, top - 1), st[product])
        disp = w.device(label).data[row["name"]].value
        await feed_triple(w, tables, tname, kind, row, stale, st[product])
        p = w.device(label).data[row["name"]]
        w.drain()
        task = loop.create_task(p.set(disp, retries=1, timeout=5.0))
        await pd.settle()
        queued = w.drain()                          # frame objects, not yet serialised
        await feed_triple(w, tables, tname, kind, row, stale, st[product])     # the old value once more
        frames = []
        for fr in queued:
            try:
                frames.append(pd.canon_frame(fr))   # serialised now
            except Exception as e:  # noqa: BLE001
                frames.append(("unencodable", type(e).__name__))
        task.cancel()
        await pd.settle()
        w.drain()
        setframes = [f for f in frames if f[0] == "unencodable" or f[0].startswith("Set")]
        sent = request_raw(kind, setframes, row["size"])
        if kind == "schedule" and isinstance(sent, tuple):
            sent = sent[2] if row["name"].endswith("_schedule_switch") else sent[3]
        res.case(("late-serialisation", cw, tname, row["name"], raw, other), True)
        res.count("late-serialisation:" + kind)
        if sent != raw:
            res4.fail("spec", dict(table=tname, row=row["name"], conv=cw, held=list(stale), raw=raw, written=pd.canon_val(disp),
                                   order="set(displayed) ; report of the old value handled ; queued request serialised"),
                      f"transmit:{raw}", dict(sent=sent, frames=[list(f) for f in frames]),
                      "the set request queued by writing back the displayed value does not carry that raw value once a stale report "
                      "was handled before the request is serialised")
    res.failures = res4.failures + res.failures
    for w in worlds.values():
        await w.shutdown()
    full_combos = all(j[1] for j in jobs if j[0] == "combo")
    res.exhaustive = bool(full_combos)
    res.extra["combos"] = combos
    res.extra["rows"] = len(allrows)
    res.extra["combo_domain_complete"] = full_combos
    res.extra["row_domain_complete"] = all(j[1] for j in jobs if j[0] == "row")


def run(ctx):
    res = Result("C17")
    res.rule = ("1. every scaling combination (translator) x EVERY raw value 0..256^size-1 on a real parameter of a row "
                "with that combination (both tiers); 2. every row of every table "
                "x raw values {0,1,2,3,19,20,21,99,100,127,128,254,255,max} + 6 random [thorough: every raw value of every row]; "
                "3. every number row x random (value,min,max) x raw in {min-1,min,min+1,max-1,max,max+1,0,top}. "
                "Each case: value/min_value/max_value properties, then set(displayed) and the raw in the queued request. "
                "distinct = (conversion, table, row, raw[, triple]); all are non-trivial (a real set is performed)")
    pd.run(run_async(ctx, res))
    return res


def replay(ctx):
    f = ctx["replay"].get("failure") or ctx["replay"].get("first_difference")
    res = Result("C17")
    res.rule = "replay of one recorded (table, row, raw[, triple])"
    inp = f["input"]

    async def go_rereport():
        from c06 import feed_triple
        tables = pd.load_tables()
        for product in (pd.PRODUCT_P, pd.PRODUCT_I):
            for tname, kind, label, row in rows_of(product, tables):
                if (tname, row["name"]) != (inp["table"], inp["row"]):
                    continue
                w = await full_world(product, tables)
                st = {}
                first, second = [tuple(x) for x in inp["reports"]]
                await feed_triple(w, tables, tname, kind, row, first, st)
                await feed_triple(w, tables, tname, kind, row, second, st)
                p = w.device(label).data[row["name"]]
                cw = pd.conv_words(kind, row)
                n = 256 ** row["size"]
                dmin, dmax = pd.canon_val(p.min_value), pd.canon_val(p.max_value)
                p.update(ParameterValues(value=inp["raw"], min_value=0, max_value=n - 1))
                disp = p.value
                await feed_triple(w, tables, tname, kind, row, first, st)
                await feed_triple(w, tables, tname, kind, row, second, st)
                p = w.device(label).data[row["name"]]
                r, frames = await pd.run_set(w, lambda: p.set(disp, retries=1, timeout=0.01))
                sent = request_raw(kind, frames, row["size"])
                if kind == "schedule" and isinstance(sent, tuple):
                    sent = sent[3]
                mlo, mhi = driver_batch([f"display {cw} {second[1]}", f"display {cw} {second[2]}"])
                res.case((tname, row["name"], inp["raw"]))
                res.sample(dict(displayed_bounds=[dmin, dmax], model_bounds=[mlo, mhi], result=list(r), sent=sent))
                if (dmin, dmax) != (mlo, mhi):
                    res.fail("spec", inp, [mlo, mhi], [dmin, dmax], "displayed bounds are not those of the last report")
                inside = second[1] <= inp["raw"] <= second[2]
                ok = (sent == inp["raw"]) if inside else (r == ("exc", "ValueError"))
                if not ok:
                    res.fail("spec", inp, "transmit raw" if inside else "reject", dict(result=list(r), sent=sent), "accept/refuse after re-report")
                await w.shutdown()
                return

    if "reports" in inp:
        pd.run(go_rereport())
        return res

    async def go():
        tables = pd.load_tables()
        for product in (pd.PRODUCT_P, pd.PRODUCT_I):
            w = await full_world(product, tables)
            for tname, kind, label, row in rows_of(product, tables, SUBDEVICES):
                if tname == inp["table"] and row["name"] == inp["row"] and label == inp.get("device", label):
                    p = w.device(label).data[row["name"]]
                    n = 256 ** row["size"]
                    raw = inp["raw"]
                    cur, lo, hi = inp.get("triple") or [(raw + 1) % n, 0, n - 1]
                    p.update(ParameterValues(value=raw, min_value=lo, max_value=hi))
                    disp = p.value
                    via = inp.get("via") == "device.set" and not inp.get("triple")
                    if via:
                        cur = held_value(raw, disp, n, True)
                    p.update(ParameterValues(value=cur, min_value=lo, max_value=hi))
                    dev = w.device(label)
                    r, frames = await pd.run_set(w, (lambda: dev.set(row["name"], disp, retries=1)) if via
                                                 else (lambda: p.set(disp, retries=1, timeout=0.01)))
                    sent = request_raw(kind, frames, row["size"])
                    cw = pd.conv_words(kind, row)
                    md, ms = driver_batch([f"display {cw} {raw}", f"c06set {cw} {cur} {lo} {hi} {pd.enc_val(disp)} 1"])
                    res.case((tname, row["name"], raw))
                    res.sample(dict(displayed=pd.canon_val(disp), model_displayed=md, result=list(r), sent=sent, model_set=ms))
                    inside = lo <= raw <= hi
                    ok = (isinstance(sent, int) and sent == raw) if inside else r == ("exc", "ValueError")
                    if kind == "schedule" and isinstance(sent, tuple):
                        ok = (sent[2] if row["name"].endswith("_schedule_switch") else sent[3]) == raw
                    if not ok:
                        res.fail("spec", inp, "transmit raw" if inside else "reject", dict(result=list(r), sent=sent), "C17 replay")
                    if pd.canon_val(disp) != md:
                        res.fail("corr", inp, md, pd.canon_val(disp), "display differs from the model")
            await w.shutdown()

    pd.run(go())
    return res

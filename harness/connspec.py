"""The property statements of C11 and C12 as predicates over what the IMPLEMENTATION did
(written from properties.jsonl, independent of the Lean model)."""

RT, WT, CT, BT = 10000, 10000, 5000, 20000  # the statement's timeouts in ms (checked against tables.json by the harness)


def flat_outs(extras):
    """all outputs of a history in emission order (time-sorted per event already)"""
    out = []
    for i, x in enumerate(extras):
        for o in x["raw"]:
            out.append((i,) + tuple(o))
    return out


def spec_c11(h, segs, extras, states):
    """returns a list of (clause, detail).  A close() in the history (token Z) ends a session: it returns within its own event
    (the C11 generator issues it only where nothing is queued), cancels whatever reconnect was pending and closes the transport
    without any reconnect being due; a later connect() starts the next session on the same connection object."""
    cfg, rc, script, events = h
    fails = []
    outs = flat_outs(extras)
    gated_hist = any(e.split(":")[0] in ("G", "R") for e in events)
    # --- announcements: per device strictly alternating True / False, starting with True ------
    last = {}
    created = {}
    for (i, t, name, *a) in outs:
        if name == "newdev":
            if a[0] in created:
                fails.append(("device map unchanged", f"device {a[0]} created twice (event {i}, t={t})"))
            created[a[0]] = t
        elif name == "ann":
            addr, val = a[0], a[1]
            if val == 0 and a[2] != 0:
                fails.append(("marks itself disconnected before telling the devices",
                              f"device {addr} told connected=False while Protocol.connected was still set (event {i}, t={t})"))
            # (a device whose creation is still inside a slow new-device callback is not in the device map yet, so
            # it legitimately misses the connected=False of a loss in that window: True may repeat in gated histories)
            if last.get(addr, 0) == val and not (gated_hist and val == 1):
                what = "connected=False" if val == 0 else "connected=True"
                fails.append(("every known device told exactly once per loss / re-establishment",
                              f"device {addr} told {what} twice in a row (event {i}, t={t})"))
            last[addr] = val
    # --- transports: each closed at most once, and only the current one; one close per False round --
    closed = []
    opened = []
    tid = -1
    for (i, t, name, *a) in outs:
        if name == "open" and a[0] == 0:
            tid += 1
            opened.append((t, tid))
        elif name == "wclose":
            if a[0] in closed:
                fails.append(("closes the transport exactly once", f"transport {a[0]} closed twice (event {i}, t={t})"))
            if a[0] != tid:
                fails.append(("closes the transport", f"transport {a[0]} closed while {tid} is the current one (event {i})"))
            closed.append(a[0])
            for addr, v in last.items():
                pass
    # every transport but the last one that is still connected must have been closed
    # (checked through the state summaries: open transports <= 1 at every quiescent point)
    for i, st in enumerate(states):
        w = st["w"]
        if "," in w:
            fails.append(("closes the transport", f"two transports open at once after event {i}: {w}"))
    # --- reconnect: exactly one invocation per loss, retries after the back-off, until success ----
    allowed = None  # set of times at which the next open call must happen; None = no call expected
    user_connect_at = set()
    for i, e in enumerate(events[:len(extras)]):
        if e.split("~")[0] == "C":
            user_connect_at.add(i)
    t_end = int(states[-1]["t"]) if states else 0
    zset = {i for i, e in enumerate(events[:len(extras)]) if e.split("~")[0] == "Z" and states[i]["z"] == "d"}
    seen_z = set()
    for (i, t, name, *a) in outs:
        for z in sorted(zset - seen_z):
            if z <= i:
                seen_z.add(z)
                allowed = None  # close() cancels the reconnect routine
        if i in zset and name == "wclose":
            pass  # the transport closed by close(): no reconnect is due
        elif name == "wclose":
            if rc:
                allowed = {t, t + WT}
        elif name == "open":
            if i in user_connect_at and allowed is None:
                pass  # the user's connect()
            elif allowed is None:
                fails.append(("invokes the reconnect routine exactly once for that loss",
                              f"unexpected _open_connection call at t={t} (event {i})"))
            elif t not in allowed:
                fails.append(("a failing attempt is retried after the back-off interval",
                              f"_open_connection called at t={t}, expected at {sorted(allowed)} (event {i})"))
            if a[0] == 0:
                allowed = None
            elif a[0] == 1:
                allowed = {t + BT} if rc else None
            else:
                allowed = {t + CT + BT} if rc else None
        elif name == "cfail":
            allowed = None
    if zset and max(zset) not in seen_z:
        allowed = None
    if allowed is not None and max(allowed) < t_end:
        fails.append(("retried until one succeeds", f"no _open_connection call at {sorted(allowed)} (history ends at {t_end})"))
    # --- a failed attempt leaves the connection in the state it was in before it: the pending await chain of the retry task in
    #     the back-off after attempt k+1 is the one after attempt k (else the routine dies after enough failures) ---------
    backs = [x.get("rdepth", 0) for i, x in enumerate(extras)
             if states[i]["c"] == "0" and x.get("rdepth", 0) and any(o[1] == "open" and o[2] == 1 for o in x["raw"])]
    for a, b, c3 in zip(backs, backs[1:], backs[2:]):
        if a and a < b < c3:
            fails.append(("a failing attempt is retried after the back-off interval until one succeeds",
                          f"the retry task's pending await chain grows with every failed attempt ({a}, {b}, {c3} frames after three "
                          f"consecutive failures): the state after a failed attempt is not the state before it"))
            break
    # --- after re-establishment: devices see True, producer sends at once on the new transport -----
    known = {}
    by_time = {}
    for (i, t, name, *a) in outs:
        by_time.setdefault((i, t), []).append((name,) + tuple(a))
    tid = -1
    for (i, t, name, *a) in outs:
        if name == "newdev":
            known[a[0]] = (i, t)
        if name == "open" and a[0] == 0:
            tid += 1
            here = by_time[(i, t)]
            published = set(extras[i - 1]["data_ids"]) if i > 0 else set()
            for addr, (ci, ct) in known.items():
                if (ci, ct) < (i, t) and addr in published and ("ann", addr, 1) not in here:
                    fails.append(("after re-establishment devices see connected=True",
                                  f"device {addr} not told connected=True at t={t} (transport {tid})"))
            if not any(o[0] == "tx" and o[1] == tid for o in here):
                fails.append(("after re-establishment the start-master request is sent again",
                              f"nothing sent on transport {tid} when it was established at t={t}"))
    # --- a peer that stalls in the middle of a frame is detected within READER_TIMEOUT -----------------------
    for i, e in enumerate(events[:len(extras)]):
        if e.split(":")[0] == "S" and states[i]["c"] == "1" and states[i]["p"] == "1":
            t_s = int(states[i]["t"])
            later_input = any(x.split(":")[0].split("~")[0] in ("F", "X", "XM", "S", "Z") for x in events[i + 1:len(extras)])
            if t_end >= t_s + RT and not later_input:
                if not any(name == "wclose" and t_s <= t <= t_s + RT for (_, t, name, *_) in outs):
                    fails.append(("no data within the read timeout is detected (the peer stalled inside a frame)",
                                  f"the peer stalled after {e.split(':')[1]} bytes of a frame at t={t_s}; no loss was handled by t={t_s + RT}"))
    # --- no growth of background tasks ---------------------------------------------------------
    for i, x in enumerate(extras):
        c = x["classes"]
        infra = c["p"] + c["k"] + c["l"] + c["r"]
        if infra > 2 + cfg or c["k"] > cfg or c["p"] > 1 or c["po"] or c["other"]:
            fails.append(("the number of background tasks does not grow",
                          f"after event {i}: producer={c['p']} consumers={c['k']} lost={c['l']} reconnect={c['r']} "
                          f"stray={c['po'] + c['other']} (consumers_count={cfg}); tasks: {x['names']}"))
            break
    # --- consumers are replaced: whenever connected (and no user callback is holding a frame) exactly cfg run ---
    for i, x in enumerate(extras):
        if states[i]["c"] == "1" and not x.get("gate_closed") and x["classes"]["k"] != cfg:
            fails.append(("frames reach the same device objects as before / background tasks stay constant",
                          f"after event {i} the protocol is connected with {x['classes']['k']} frame consumer(s) instead of {cfg}"))
            break
    # --- frames reach the devices: every frame for us handed to a reading producer is delivered ----------------
    if extras and not extras[-1].get("gate_closed"):
        fed = extras[-1].get("fed", [])
        gated = any(e.split(":")[0] in ("G", "R") for e in events)
        if states[-1]["c"] == "1" or not gated:
            want = {}
            for (_, addr, kind) in fed:
                want[(addr, kind)] = want.get((addr, kind), 0) + 1
            got = {}
            for (i, t, name, *a) in outs:
                if name == "deliver":
                    got[(a[0], a[1])] = got.get((a[0], a[1]), 0) + 1
            for key, n in want.items():
                if got.get(key, 0) != n:
                    fails.append(("frames reach the same device objects as before",
                                  f"{n} frame(s) of kind {key[1]} from device {key[0]} were received, {got.get(key, 0)} reached the device object"))
    # --- same device objects --------------------------------------------------------------------
    for i, x in enumerate(extras):
        for a, did in x["dev_ids"].items():
            if a in x["data_ids"] and x["data_ids"][a] != did:
                fails.append(("frames reach the same device objects as before", f"device {a} replaced after event {i}"))
    return fails


def spec_c12(h, segs, extras, states, info, zpos, drains, bound_ms):
    """close() issued at event index zpos.  Returns (list of (clause, detail), stuck: bool)."""
    fails = []
    last = states[-1]
    done = last["z"] == "d"
    if done:
        c = extras[-1]["classes"]
        left = {k: v for k, v in c.items() if v}
        if left:
            fails.append(("no task created by the protocol, the connection, a device or a sub-device is left pending",
                          f"after close() returned: {left}; tasks: {extras[-1]['names']}"))
        not_closed = [i for i, n in enumerate(info["writers_closed"]) if n == 0]
        if not_closed:
            fails.append(("the transport is closed", f"close() returned but transport(s) {not_closed} were never closed"))
        # every close() that returns: one I/O timeout per request transmitted meanwhile (each goes out on a received frame or,
        # at the latest, when the read times out and the connection is re-established), the connect time-out and back-off of
        # every failed open, one WRITER_TIMEOUT per transport closed meanwhile (C12.close_time_bound is the drains case)
        tx = fail = wcl = 0
        for x in extras[zpos:]:
            for o in x["raw"]:
                if o[1] == "tx":
                    tx += 1
                elif o[1] == "open" and o[2] != 0:
                    fail += 1
                elif o[1] == "wclose":
                    wcl += 1
        held = any(e.split(":")[0] == "R" for e in h[3][zpos:len(states)])  # a user callback held a frame meanwhile
        general = (tx + 1) * max(RT, WT) + fail * (CT + BT) + (wcl + 1) * WT
        if not held and int(last["zt"]) > general:
            fails.append(("within a time bounded by the I/O timeouts and the number of queued requests",
                          f"close() took {last['zt']} ms; {tx} request(s) sent, {fail} failed open(s), {wcl} transport(s) closed meanwhile: bound {general} ms"))
        if drains and int(last["zt"]) > bound_ms:
            fails.append(("within a time bounded by the I/O timeouts and the number of queued requests",
                          f"close() took {last['zt']} ms, bound {bound_ms} ms"))
    # the write queue must not grow while the controller repeats the SAME frame-version table (each received frame sends one
    # request; an unchanged table asks for none): growth over consecutive identical announcements is the library re-queueing -
    # distinguishable from finding F1, where the queue just does not get shorter
    cfg, rc, script, events = h
    grow = 0
    prev = None
    for i in range(zpos + 1, len(states)):
        tok = events[i].split("~")[0]
        if tok.startswith("F:v:") and states[i]["c"] == "1" and states[i]["rq"] == "0" and states[i]["p"] == "1":
            if prev is not None and prev[0] == tok and int(states[i]["q"]) > prev[1]:
                grow += 1
                if grow >= 3:
                    fails.append(("within a time bounded by the I/O timeouts and the number of queued requests",
                                  f"the write queue grows while close() waits and the controller repeats the same frame-version table "
                                  f"({tok}): {prev[1]} -> {states[i]['q']} requests at event {i}; every message re-queues requests that were already asked for"))
                    break
            elif prev is not None and prev[0] == tok:
                grow = 0
            prev = (tok, int(states[i]["q"]))
        elif tok.split(":")[0] not in ("A",):
            prev = None
    return fails, not done

"""Deterministic virtual-time asyncio loop.

* time() is virtual; when nothing is ready the clock jumps to the next timer
  (cancelled timer heads are popped first), so `asyncio.sleep(100)` costs no wall time
  and the real `@timeout` / `wait_for` / `sleep` code paths of pyplumio are exercised.
* run_in_executor is controllable: either completes synchronously (default) or is *held*
  until the harness releases it -- this is how "class loading completes between frame 2
  and frame 3" is scheduled without touching pyplumio.
"""
import asyncio
import heapq
import selectors


class VirtualLoop(asyncio.SelectorEventLoop):
    def __init__(self, hold_executor=False):
        super().__init__(selectors.DefaultSelector())
        self._vt = 0.0
        self.hold = hold_executor
        self.held = []
        self.idle_limit = None  # stop run_forever-style waiting when no timers and nothing ready
        self.drop_cancelled = False  # option: a held job whose future was cancelled (its awaiter was cancelled) leaves `held`, as a cancelled executor job never runs

    def time(self):
        return self._vt

    def _run_once(self):
        while self._scheduled and self._scheduled[0]._cancelled:
            h = heapq.heappop(self._scheduled)
            h._scheduled = False
        if not self._ready and self._scheduled:
            when = self._scheduled[0]._when
            if when > self._vt:
                self._vt = when
        super()._run_once()

    def run_in_executor(self, executor, func, *args):
        fut = self.create_future()

        def complete():
            if fut.done():
                return
            try:
                fut.set_result(func(*args))
            except BaseException as e:  # noqa: BLE001
                fut.set_exception(e)

        if self.hold:
            self.held.append(complete)
            if self.drop_cancelled:
                fut.add_done_callback(lambda f: self.held.remove(complete) if f.cancelled() and complete in self.held else None)
        else:
            complete()
        return fut

    def release(self, k=0):
        self.held.pop(k)()

    # -- helpers for "one external event at a time, then run to quiescence" ------------
    def quiescent(self):
        """nothing ready and no live timer"""
        while self._scheduled and self._scheduled[0]._cancelled:
            h = heapq.heappop(self._scheduled)
            h._scheduled = False
        return not self._ready and not self._scheduled

    def next_timer(self):
        while self._scheduled and self._scheduled[0]._cancelled:
            h = heapq.heappop(self._scheduled)
            h._scheduled = False
        return self._scheduled[0]._when if self._scheduled else None

    def settle(self, until=None, max_iter=200000):
        """Run ready callbacks (and timers up to virtual time `until`, default: none)
        until nothing more can happen without a new external event."""
        n = 0
        while True:
            while self._scheduled and self._scheduled[0]._cancelled:
                h = heapq.heappop(self._scheduled)
                h._scheduled = False
            if self._ready:
                pass
            elif self._scheduled and until is not None and self._scheduled[0]._when <= until:
                pass
            else:
                break
            self._run_once_nonblocking()
            n += 1
            if n > max_iter:
                raise RuntimeError("settle: no quiescence")
        if until is not None and until > self._vt:
            self._vt = until

    def _run_once_nonblocking(self):
        # _run_once computes a select timeout from the next timer; with virtual time the
        # timer is already due after the clock jump, so select returns immediately.
        self._run_once()


def new_loop(hold_executor=False):
    loop = VirtualLoop(hold_executor)
    asyncio.set_event_loop(loop)
    return loop


def run(coro, hold_executor=False):
    loop = new_loop(hold_executor)
    try:
        return loop.run_until_complete(coro)
    finally:
        try:
            pending = [t for t in asyncio.all_tasks(loop) if not t.done()]
            for t in pending:
                t.cancel()
            if pending:
                loop.run_until_complete(asyncio.gather(*pending, return_exceptions=True))
        finally:
            asyncio.set_event_loop(None)
            loop.close()

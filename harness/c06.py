"""C06 correspondence: `Device.set(name, value)` / `parameter.set(value)` on devices populated by real
parameter responses versus the Lean model of the front of `Parameter.set` (`c06set`), and the
statement's own predicate (`C06.spec`, evaluated by the Lean driver: `c06judge`) on what the
implementation did: exception, set requests on the device queue, value before/after.

Every description of every table (ecoMAX P/I, mixer P/I, thermostat, schedule, control, profile)
x (value, min, max) triples incl. degenerate min=max, min>max, value outside its bounds
x requested values around both bounds through the inverse display map, +-1 ulp floats, midpoints,
ints, bools, 'on'/'off'.
"""
import math
import random

from common import Result, driver_batch
import paramdev as pd
from paramdev import World
from c17 import request_raw, rows_of


def position_of(tables, tname, row):
    if tname in ("ecomaxControl", "thermostatProfile"):
        return 0
    return [r["name"] for r in tables["tables"][tname]].index(row["name"])


async def feed_triple(w, tables, tname, kind, row, triple, st):
    """make the controller report `triple` for this row, through a real response frame"""
    pos = position_of(tables, tname, row)
    sizes = [r["size"] for r in tables["tables"]["thermostat"]]
    bits = [[False] * 48 for _ in range(7)]
    if kind == "ecomax":
        await w.ecomax_params(pd.ecomax_payload(pos, [triple]))
    elif kind == "mixer":
        await w.mixer_params(pd.mixer_payload(pos, [[triple]]))
    elif kind == "thermostat":
        if not st.get("avail"):
            await w.thermostats_available(1)
            st["avail"] = True
        await w.thermostat_params(pd.thermostat_payload(pos, 1, (0, 0, 5), [[triple]], sizes))
    elif kind == "profile":
        if not st.get("avail"):
            await w.thermostats_available(1)
            st["avail"] = True
        await w.thermostat_params(pd.thermostat_payload(0, 1, triple, [[(0, 0, 5)]], sizes))
    elif kind == "schedule":
        idx = pos // 2
        if pos % 2 == 0:
            await w.schedules(pd.schedules_payload([(idx, triple[0], (1, 0, 9), bits)]))
        else:
            await w.schedules(pd.schedules_payload([(idx, 0, triple, bits)]))
    elif kind == "control":
        # on_change swallows an unchanged state: report the opposite state first, then the wanted one
        want, opposite = (3, 0) if triple[0] else (0, 3)
        await w.state(opposite)
        await w.state(want)
    assert not w.errors, (w.errors, tname, row["name"], triple)


def triples_for(rng, kind, row, n_random):
    n = 256 ** row["size"]
    if kind == "control":
        return [(0, 0, 1), (1, 0, 1)]
    if kind == "schedule" and row["switch"]:
        return [(0, 0, 1), (1, 0, 1), (7, 0, 1)]
    out = []
    for _ in range(n_random):
        lo, hi = sorted((rng.randrange(n), rng.randrange(n)))
        out.append((rng.randint(lo, hi), lo, hi))
    lo = rng.randrange(1, n - 1)
    deg = [
        (lo, lo, lo),                                   # min = max = value
        (rng.randrange(n), lo, lo),                     # min = max, value elsewhere
        (rng.randrange(n), lo + 1, lo - 1 if lo > 1 else 0),  # min > max
        (0, 0, n - 1),                                  # full range
        (rng.randrange(n), 0, 0),
        (min(n - 1, lo + 3), 0, lo),                    # value above its own maximum
        (20, 20, 60) if n == 256 else (200, 100, 350),
    ]
    out.append(deg[rng.randrange(len(deg))])
    if n_random > 2:
        out.extend(deg)
    # the controller re-reports the SAME value with other bounds (narrower, then wider): "the maximum the
    # controller last reported" must be the one in force
    v, lo, hi = out[0]
    if hi - lo >= 4:
        out.insert(1, (v, max(lo, v - 1), min(hi, v + 1)))
        out.insert(2, (v, lo, hi))
    return [t for t in out if not all(b == 255 for x in t for b in x.to_bytes(row["size"], "little"))]


def shown(kind, row, r):
    """displayed form of raw r computed with the display formula (any float is a legitimate request)"""
    m = row["mult_num"] / row["mult_den"]
    off = row["offset"] if kind in ("ecomax", "mixer", "profile") else 0
    return round((r - off) * m, row["precision"])


def requests_for(rng, kind, row, triple, quick):
    value, lo, hi = triple
    n = 256 ** row["size"]
    raws = {lo - 1, lo, lo + 1, hi - 1, hi, hi + 1, value, value + 1, 0, n - 1, n}
    vals = []
    if row["switch"] or kind == "control":
        vals = ["on", "off", True, False, 0, 1, 2, -1, 0.5, 1.9, lo, hi, hi + 1, lo - 1, float(hi), hi + 0.999, lo - 0.001]
    elif kind == "schedule":
        for r in raws:
            vals += [r, float(r), r + 0.5, r - 1e-9, r + 1e-9]
        vals += [True, False, "on", "off"]
    else:
        m = row["mult_num"] / row["mult_den"]
        for r in sorted(raws):
            x = shown(kind, row, r)
            vals += [x, math.nextafter(x, math.inf), math.nextafter(x, -math.inf), x + 0.5 * m, x + 0.4999999 * m, x - 0.5000001 * m]
            if x == int(x):
                vals.append(int(x))
        vals += [True, False, "on", "off", shown(kind, row, rng.randrange(n)), rng.uniform(-5, 300)]
    if quick and len(vals) > 24:
        keep = vals[:]
        rng.shuffle(keep)
        vals = keep[:24]
    return vals


def observe(kind, row, r, frames, before, after):
    """canonical outcome comparable with the driver's `c06set` answer; also (raised, tx)"""
    setframes = [f for f in frames if f[0] != "unencodable" and f[0].startswith(("Set", "EcomaxControl"))]
    tx = []
    for f in setframes:
        v = request_raw(kind, [f], row["size"])
        if isinstance(v, tuple) and v and v[0] == "schedule":
            v = v[2] if row["name"].endswith("_schedule_switch") else v[3]
        tx.append(v)
    bad_frames = [f for f in frames if f[0] == "unencodable"]
    if r == ("exc", "ValueError") and not frames:
        out = "reject"
    elif r == ("exc", "TypeError") and not frames:
        out = "typeerror"
    elif r == ("ret", True) and not frames:
        out = "noop"
    elif r == ("ret", False) and len(tx) == 1 and isinstance(tx[0], int) and not bad_frames:
        out = f"transmit:{tx[0]}"
    else:
        out = f"other:{r}:{frames}"
    txs = ",".join(str(x) for x in tx) if tx else "-"
    return f"{out} {after} {txs}", r == ("exc", "ValueError"), tx


async def run_async(ctx, res, only=None):
    tier = ctx["tier"]
    quick = tier == "quick"
    rng = random.Random(ctx["seed"] * 7368787 + 3)
    tables = pd.load_tables()
    cases = []
    for product in (pd.PRODUCT_P, pd.PRODUCT_I):
        w = World()
        await w.uid(product)
        st = {}
        for tname, kind, label, row in rows_of(product, tables):
            if only and (only["table"], only["row"]) != (tname, row["name"]):
                continue
            cw = pd.conv_words(kind, row)
            trs = [tuple(only["triple"])] if only else triples_for(rng, kind, row, 1 if quick else 6)
            for triple in trs:
                reqs = [only["value"]] if only else requests_for(rng, kind, row, triple, quick)
                for k, v in enumerate(reqs):
                    await feed_triple(w, tables, tname, kind, row, triple, st)
                    dev = w.device(label)
                    p = dev.data[row["name"]]
                    held = (p.values.value, p.values.min_value, p.values.max_value)
                    if only is None and held != triple and not (kind == "control"):
                        res.fail("corr", dict(table=tname, row=row["name"], triple=list(triple)), list(triple), list(held),
                                 "the triple reported by the response is not the triple held by the parameter")
                    via_device = (k % 5 == 0)
                    if via_device:
                        r, frames = await pd.run_set(w, lambda: dev.set(row["name"], v, retries=1))
                    else:
                        r, frames = await pd.run_set(w, lambda: p.set(v, retries=1, timeout=0.01))
                    after = dev.data[row["name"]].values.value
                    obs, raised, tx = observe(kind, row, r, frames, held, after)
                    # judged against what the controller last REPORTED (for the control switch the triple is derived from the state)
                    cases.append(dict(table=tname, row=row["name"], kind=kind, conv=cw, triple=list(held if (kind == "control" or only) else triple), value=v,
                                      via="Device.set" if via_device else "parameter.set", obs=obs, raised=raised, tx=tx,
                                      after=after, result=list(r)))
        # re-report pass: the controller reports a row, then reports it AGAIN with the same value and other bounds
        # (no set in between, so nothing is pending); the next request is judged against the LAST reported bounds
        if only is None:
            for tname, kind, label, row in rows_of(product, tables):
                if kind == "control" or (kind == "schedule" and row["switch"]):
                    continue
                n = 256 ** row["size"]
                v = rng.randrange(10, min(n, 250) - 10)
                wide, narrow = (v, v - 8, v + 8), (v, v - 2, v + 2)
                first, second = (wide, narrow) if rng.random() < 0.6 else (narrow, wide)
                cw = pd.conv_words(kind, row)
                await feed_triple(w, tables, tname, kind, row, first, st)
                await feed_triple(w, tables, tname, kind, row, second, st)
                dev = w.device(label)
                p = dev.data[row["name"]]
                held = (p.values.value, p.values.min_value, p.values.max_value)
                raw_req = v + rng.choice([5, -5, 3, -3])           # inside the wide bounds, outside the narrow ones
                val = shown(kind, row, raw_req)
                r, frames = await pd.run_set(w, lambda: p.set(val, retries=1, timeout=0.01))
                after = dev.data[row["name"]].values.value
                obs, raised, tx = observe(kind, row, r, frames, held, after)
                if held != second:
                    res.count("rereport:held-differs-from-last-report")
                cases.append(dict(table=tname, row=row["name"], kind=kind, conv=cw, triple=list(second), value=val,
                                  via="parameter.set after re-report", obs=obs, raised=raised, tx=tx, after=after, result=list(r)))
        await w.shutdown()
    lines = []
    for c in cases:
        val, lo, hi = c["triple"]
        lines.append(f"c06set {c['conv']} {val} {lo} {hi} {pd.enc_val(c['value'])} 1")
        lines.append(f"toraw {c['conv']} {pd.enc_val(c['value'])}")
    ans = driver_batch(lines)
    judge_lines, judge_idx = [], []
    for i, c in enumerate(cases):
        model, raw = ans[2 * i], ans[2 * i + 1]
        c["model"], c["raw"] = model, raw
        if raw.startswith("ok:") and all(isinstance(x, int) for x in c["tx"]):
            val, lo, hi = c["triple"]
            txs = ",".join(str(x) for x in c["tx"]) if c["tx"] else "-"
            judge_lines.append(f"c06judge {raw[3:]} {val} {lo} {hi} {int(c['raised'])} {c['after']} {txs}")
            judge_idx.append(i)
    verdicts = driver_batch(judge_lines)
    for i, vd in zip(judge_idx, verdicts):
        cases[i]["verdict"] = vd
    for c in cases:
        val, lo, hi = c["triple"]
        inp = dict(table=c["table"], row=c["row"], triple=c["triple"], value=repr(c["value"]) if isinstance(c["value"], float) else c["value"],
                   value_token=pd.enc_val(c["value"]), via=c["via"], conv=c["conv"])
        vt = type(c["value"]).__name__
        res.case((c["conv"], c["table"], c["row"], tuple(c["triple"]), pd.enc_val(c["value"])), nontrivial=True)
        res.count("value:" + vt)
        res.count("outcome:" + c["obs"].split()[0].split(":")[0])
        res.count("via:" + c["via"])
        res.count("triple:" + ("min>max" if lo > hi else "min=max" if lo == hi else "value outside" if not lo <= val <= hi else "normal"))
        if c.get("verdict", "pass") != "pass":
            res.fail("spec", inp, f"C06.spec raw={c['raw']} triple={c['triple']}",
                     dict(result=c["result"], transmitted=c["tx"], value_after=c["after"]),
                     "out-of-range request not refused inertly, or a transmitted set request outside the bounds (C06.spec)")
        if c["obs"] != c["model"]:
            res.fail("corr", inp, c["model"], c["obs"], "Parameter.set front differs from the model (outcome, value after, transmitted raws)")
        if len(res.samples) < 8 and c["obs"].split(":")[0].split()[0] in ("reject", "transmit", "typeerror", "noop"):
            tag = c["obs"].split()[0].split(":")[0] + ":" + c["conv"].split()[0]
            if tag not in [s.get("tag") for s in res.samples]:
                res.sample(dict(tag=tag, row=c["row"], triple=c["triple"], value=inp["value"], observed=c["obs"], raw=c["raw"], via=c["via"]))
    res.extra["rows"] = len({(c["table"], c["row"]) for c in cases})


def run(ctx):
    res = Result("C06")
    res.rule = ("every description of every table x triples (random; quick 1 + 1 degenerate, thorough 6 + 8 degenerate: min=max, min>max, "
                "value outside its bounds, full range) reported by a real response frame x requested values: display(raw) for raw in "
                "{min-1,min,min+1,max-1,max,max+1,value,value+1,0,top,top+1}, each +-1 ulp, +0.5 step, +0.4999999 step, -0.5000001 step, "
                "the int form, True/False, 'on'/'off', random floats [quick: 24 sampled per triple]; every 5th call through Device.set. "
                "distinct = (conversion, table, row, triple, value); all non-trivial (a real set call on a real parameter)")
    pd.run(run_async(ctx, res))
    return res


def replay(ctx):
    f = ctx["replay"].get("failure") or ctx["replay"].get("first_difference")
    res = Result("C06")
    res.rule = "replay of one recorded (table, row, triple, value)"
    inp = f["input"]
    tok = inp["value_token"]
    kind, _, body = tok.partition(":")
    if kind == "i":
        v = int(body)
    elif kind == "b":
        v = bool(int(body))
    elif kind == "s":
        v = body
    else:
        a, b = body.split("/")
        v = int(a) / int(b)
    pd.run(run_async(dict(ctx, tier="quick"), res, only=dict(table=inp["table"], row=inp["row"], triple=inp["triple"], value=v)))
    return res

"""C06 correspondence: `Device.set(name, value)` / `parameter.set(value)` on devices populated by real
parameter responses versus the Lean model of the front of `Parameter.set` (`c06set`), and the
statement's own predicate (`C06.spec`, evaluated by the Lean driver: `c06judge`) on what the
implementation did: exception, set requests on the device queue, value before/after.

Every description of every table (ecoMAX P/I, mixer P/I, thermostat, schedule, control, profile)
x (value, min, max) triples incl. degenerate min=max, min>max, value outside its bounds
x requested values around both bounds through the inverse display map, +-1 ulp floats, midpoints,
ints, bools, 'on'/'off'.
"""
import math
import random

from common import Result, driver_batch
import paramdev as pd
from paramdev import World
from c17 import request_raw, rows_of


def position_of(tables, tname, row):
    if tname in ("ecomaxControl", "thermostatProfile"):
        return 0
    return [r["name"] for r in tables["tables"][tname]].index(row["name"])


async def feed_triple(w, tables, tname, kind, row, triple, st):
    """make the controller report `triple` for this row, through a real response frame"""
    pos = position_of(tables, tname, row)
    sizes = [r["size"] for r in tables["tables"]["thermostat"]]
    bits = [[False] * 48 for _ in range(7)]
    if kind == "ecomax":
        await w.ecomax_params(pd.ecomax_payload(pos, [triple]))
    elif kind == "mixer":
        await w.mixer_params(pd.mixer_payload(pos, [[triple]]))
    elif kind == "thermostat":
        if not st.get("avail"):
            await w.thermostats_available(1)
            st["avail"] = True
        await w.thermostat_params(pd.thermostat_payload(pos, 1, (0, 0, 5), [[triple]], sizes))
    elif kind == "profile":
        if not st.get("avail"):
            await w.thermostats_available(1)
            st["avail"] = True
        await w.thermostat_params(pd.thermostat_payload(0, 1, triple, [[(0, 0, 5)]], sizes))
    elif kind == "schedule":
        idx = pos // 2
        if pos % 2 == 0:
            await w.schedules(pd.schedules_payload([(idx, triple[0], (1, 0, 9), bits)]))
        else:
            await w.schedules(pd.schedules_payload([(idx, 0, triple, bits)]))
    elif kind == "control":
        # on_change swallows an unchanged state: report the opposite state first, then the wanted one
        want, opposite = (3, 0) if triple[0] else (0, 3)
        await w.state(opposite)
        await w.state(want)
    assert not w.errors, (w.errors, tname, row["name"], triple)


def triples_for(rng, kind, row, n_random):
    n = 256 ** row["size"]
    if kind == "control":
        return [(0, 0, 1), (1, 0, 1)]
    if kind == "schedule" and row["switch"]:
        return [(0, 0, 1), (1, 0, 1), (7, 0, 1)]
    out = []
    for _ in range(n_random):
        lo, hi = sorted((rng.randrange(n), rng.randrange(n)))
        out.append((rng.randint(lo, hi), lo, hi))
    lo = rng.randrange(1, n - 1)
    deg = [
        (lo, lo, lo),                                   # min = max = value
        (rng.randrange(n), lo, lo),                     # min = max, value elsewhere
        (rng.randrange(n), lo + 1, lo - 1 if lo > 1 else 0),  # min > max
        (0, 0, n - 1),                                  # full range
        (rng.randrange(n), 0, 0),
        (min(n - 1, lo + 3), 0, lo),                    # value above its own maximum
        (20, 20, 60) if n == 256 else (200, 100, 350),
    ]
    out.append(deg[rng.randrange(len(deg))])
    if n_random > 2:
        out.extend(deg)
    # the controller re-reports the SAME value with other bounds (narrower, then wider): "the maximum the
    # controller last reported" must be the one in force
    v, lo, hi = out[0]
    if hi - lo >= 4:
        out.insert(1, (v, max(lo, v - 1), min(hi, v + 1)))
        out.insert(2, (v, lo, hi))
    return [t for t in out if not all(b == 255 for x in t for b in x.to_bytes(row["size"], "little"))]


def shown(kind, row, r):
    """displayed form of raw r computed with the display formula (any float is a legitimate request)"""
    m = row["mult_num"] / row["mult_den"]
    off = row["offset"] if kind in ("ecomax", "mixer", "profile") else 0
    return round((r - off) * m, row["precision"])


def requests_for(rng, kind, row, triple, quick):
    value, lo, hi = triple
    n = 256 ** row["size"]
    raws = {lo - 1, lo, lo + 1, hi - 1, hi, hi + 1, value, value + 1, 0, n - 1, n}
    vals = []
    if row["switch"] or kind == "control":
        vals = ["on", "off", True, False, 0, 1, 2, -1, 0.5, 1.9, lo, hi, hi + 1, lo - 1, float(hi), hi + 0.999, lo - 0.001]
    elif kind == "schedule":
        for r in raws:
            vals += [r, float(r), r + 0.5, r - 1e-9, r + 1e-9]
        vals += [True, False, "on", "off"]
    else:
        m = row["mult_num"] / row["mult_den"]
        for r in sorted(raws):
            x = shown(kind, row, r)
            vals += [x, math.nextafter(x, math.inf), math.nextafter(x, -math.inf), x + 0.5 * m, x + 0.4999999 * m, x - 0.5000001 * m]
            if x == int(x):
                vals.append(int(x))
        vals += [True, False, "on", "off", shown(kind, row, rng.randrange(n)), rng.uniform(-5, 300)]
    if quick and len(vals) > 24:
        keep = vals[:]
        rng.shuffle(keep)
        vals = keep[:24]
    return vals


def observe(kind, row, r, frames, before, after, retries=1):
    """canonical outcome comparable with the driver's `c06set` answer; also (raised, tx)"""
    setframes = [f for f in frames if f[0] != "unencodable" and f[0].startswith(("Set", "EcomaxControl"))]
    tx = []
    for f in setframes:
        v = request_raw(kind, [f], row["size"])
        if isinstance(v, tuple) and v and v[0] == "schedule":
            v = v[2] if row["name"].endswith("_schedule_switch") else v[3]
        tx.append(v)
    bad_frames = [f for f in frames if f[0] == "unencodable"]
    if r == ("exc", "ValueError") and not frames:
        out = "reject"
    elif r == ("exc", "TypeError") and not frames:
        out = "typeerror"
    elif r == ("ret", True) and not frames:
        out = "noop"
    elif r == ("ret", False) and len(tx) == retries and isinstance(tx[0], int) and len(set(tx)) == 1 and not bad_frames:
        out = f"transmit:{tx[0]}"
    else:
        out = f"other:{r}:{frames}"
    txs = ",".join(str(x) for x in tx) if tx else "-"
    return f"{out} {after} {txs}", r == ("exc", "ValueError"), tx


ROUTES = ("parameter.set", "Device.set", "parameter.set_nowait", "Device.set_nowait", "turn_on/turn_off", "turn_on_nowait/turn_off_nowait")


def pick_route(k, p, v):
    """every public way of setting a value: the call itself, the device wrapper, their fire-and-forget forms,
    and the switch conveniences (only when the requested value is one they can express)"""
    if hasattr(p, "turn_on") and v in ("on", "off") and k % 3 != 2:
        return ROUTES[4] if k % 3 == 0 else ROUTES[5]
    if k % 5 == 0:
        return "Device.set"
    if k % 7 == 3:
        return "parameter.set_nowait"
    if k % 11 == 6:
        return "Device.set_nowait"
    return "parameter.set"


async def run_route(w, dev, p, name, v, route):
    """one set request through the named public route, run to its end; result as pd.run_set gives it
    (for the fire-and-forget forms: the outcome of the task the call left on the device)"""
    import asyncio
    if route in (None, "parameter.set", "parameter.set after re-report"):
        return await pd.run_set(w, lambda: p.set(v, retries=1, timeout=0.01))
    if route == "Device.set":
        return await pd.run_set(w, lambda: dev.set(name, v, retries=1))
    if route == "turn_on/turn_off":
        return await pd.run_set(w, lambda: (p.turn_on() if v == "on" else p.turn_off()))
    before = set(p.device.tasks) | set(dev.tasks)

    async def fire():
        if route == "parameter.set_nowait":
            p.set_nowait(v, retries=1, timeout=0.01)
        elif route == "Device.set_nowait":
            dev.set_nowait(name, v, retries=1)
        elif v == "on":
            p.turn_on_nowait()
        else:
            p.turn_off_nowait()
        new = [t for t in (set(p.device.tasks) | set(dev.tasks)) - before]
        if len(new) != 1:
            raise LookupError(f"{len(new)} tasks left by a fire-and-forget call")
        return await new[0]

    return await pd.run_set(w, fire)


HANDLES = ("device.data", "device.data", "kept from subscribe", "kept from subscribe(on_change)")


async def rereport_case(w, tables, tname, kind, label, row, first, second, raw_req, handle, st, res, value=None):
    """the controller reports `first`, then the same value with the bounds of `second`; the client then calls
    set() on the parameter object it holds: looked up in device.data now, or KEPT from the first notification
    of a plain / on_change-filtered subscription (the object a client is handed must follow later reports)"""
    from pyplumio.filters import on_change
    dev = w.device(label)
    kept = []

    async def keep(p):
        if not kept:
            kept.append(p)

    sub = None
    if handle != "device.data":
        sub = keep if handle == "kept from subscribe" else on_change(keep)
        dev.subscribe(row["name"], sub)
    # make sure the first report differs from what is held (an unchanged report is not announced by on_change)
    cur = dev.data.get(row["name"])
    if cur is not None and (cur.values.value, cur.values.min_value, cur.values.max_value) == tuple(first):
        await feed_triple(w, tables, tname, kind, row, second, st)
        kept.clear()
    await feed_triple(w, tables, tname, kind, row, first, st)
    await feed_triple(w, tables, tname, kind, row, second, st)
    if sub is not None:
        dev.unsubscribe(row["name"], sub)
    if kept:
        p = kept[0]
    else:
        p = dev.data[row["name"]]
        handle = "device.data"
    live = dev.data[row["name"]]
    held = (live.values.value, live.values.min_value, live.values.max_value)
    val = shown(kind, row, raw_req) if value is None else value
    r, frames = await pd.run_set(w, lambda: p.set(val, retries=1, timeout=0.01))
    after = dev.data[row["name"]].values.value
    obs, raised, tx = observe(kind, row, r, frames, held, after)
    if held != tuple(second):
        res.count("rereport:held-differs-from-last-report")
    res.count("rereport:handle:" + handle)
    return dict(table=tname, row=row["name"], kind=kind, conv=pd.conv_words(kind, row), triple=list(second), value=val,
                via="parameter.set after re-report", obs=obs, raised=raised, tx=tx, after=after, result=list(r),
                reports=[list(first), list(second)], handle=handle)


# ------------------------------------------------------------------ several mixers / thermostats in one response
def multi_configs(ctx):
    quick = ctx["tier"] == "quick"
    base = ctx["seed"] * 101
    # last field: a client callback subscribed to the FIRST parameter of every sub-device raises on every notification
    # (the later parameters of the same response must still take their newly reported bounds)
    if quick:
        cfgs = [(pd.PRODUCT_P, "mixer", 2, False), (pd.PRODUCT_P, "mixer", 5, False), (pd.PRODUCT_I, "mixer", 3, True),
                (pd.PRODUCT_P, "mixer", 3, True), (pd.PRODUCT_P, "thermostat", 2, False), (pd.PRODUCT_P, "thermostat", 3, True)]
        return [(pr, k, n, base + i, rz) for i, (pr, k, n, rz) in enumerate(cfgs)]
    cfgs = [(pr, "mixer", n) for pr in (pd.PRODUCT_P, pd.PRODUCT_I) for n in (2, 3, 4, 5)] + [(pd.PRODUCT_P, "thermostat", n) for n in (2, 3)]
    return [(pr, k, n, base + 10 * j + i, (i + j) % 2 == 1) for j in range(3) for i, (pr, k, n) in enumerate(cfgs)]


def multi_triples(wr, rows, n):
    """per sub-device, per row: a triple whose bounds differ from every other sub-device's (disjoint ranges for the
    numbers, so a value inside one sub-device's range is outside every other's; switches: 0..1 / fixed)"""
    out = []
    order = list(range(n))
    wr.shuffle(order)                          # which sub-device gets the low / high ranges
    for s in range(n):
        trs = []
        for row in rows:
            if row["switch"]:
                trs.append([(0, 0, 1), (0, 0, 0), (1, 1, 1), (1, 0, 1)][(order[s] + len(trs)) % 4])
                continue
            step = 40 if row["size"] == 1 else 9000
            lo = 5 + order[s] * step + wr.randrange(step // 4)
            hi = lo + 2 + wr.randrange(step // 2)
            trs.append((wr.randint(lo, hi), lo, hi))
        out.append(trs)
    return out


async def multi_cases(ctx, tables, res, only=None):
    """devices populated by ONE response describing 2..5 mixers / 2..3 thermostats whose triples differ per
    sub-device; boundary requests on every sub-device, judged against the triple reported for THAT sub-device
    (its own bounds and the bounds of the other sub-devices as requested values)"""
    quick = ctx["tier"] == "quick"
    out = []
    sizes = [r["size"] for r in tables["tables"]["thermostat"]]
    for product, kind, n, wseed, raising in (multi_configs(ctx) if not only else
                                             [tuple(only["multi"].get(k, False) for k in ("product", "kind", "n", "wseed", "raising"))]):
        tname = ("mixerP" if product == pd.PRODUCT_P else "mixerI") if kind == "mixer" else "thermostat"
        rows = tables["tables"][tname]
        wr = random.Random(wseed)
        trip = multi_triples(wr, rows, n)
        w = World()
        await w.uid(product)
        if kind == "thermostat":
            await w.thermostats_available(n)

        async def report():
            if kind == "mixer":
                await w.mixer_params(pd.mixer_payload(0, trip))
            else:
                await w.thermostat_params(pd.thermostat_payload(0, len(rows) * n + (1 if n > 1 else 0), (1, 0, 5), trip, sizes))
            assert not w.errors, (w.errors, kind, n)

        await report()
        if raising:
            async def boom(value):
                raise RuntimeError("client callback fails")

            for s in range(n):
                w.device(f"{kind}{s}").subscribe(rows[0]["name"], boom)
            trip = multi_triples(wr, rows, n)          # the controller now reports other bounds for everything
            await report()
        for s in range(n):
            label = f"{kind}{s}"
            picked = list(range(len(rows)))
            if quick and not only:
                wr.shuffle(picked)
                picked = sorted(picked[:6]) + [i for i, r in enumerate(rows) if r["switch"]][:1]
            for i in picked:
                row = rows[i]
                if only and (only["row"], only["multi"]["sub"]) != (row["name"], s):
                    continue
                value, lo, hi = trip[s][i]
                if only:
                    reqs = [only["value"]]
                elif row["switch"]:
                    reqs = ["on", "off", True, False]
                else:
                    raws = {lo - 1, lo, hi, hi + 1}
                    for o in range(n):                   # in range for another sub-device, outside this one's
                        if o != s:
                            raws |= {trip[o][i][1], trip[o][i][2]}
                    reqs = [shown(kind, row, r) for r in sorted(raws) if r >= 0]
                for v in reqs:
                    await report()
                    dev = w.device(label)
                    p = dev.data[row["name"]]
                    route = only.get("via") if only else pick_route(len(out) + s, p, v)
                    r, frames = await run_route(w, dev, p, row["name"], v, route)
                    retries = 5 if route in ROUTES[4:] else 1
                    after = dev.data[row["name"]].values.value
                    obs, raised, tx = observe(kind, row, r, frames, trip[s][i], after, retries)
                    res.count(f"several {kind}s in one response:{n}" + (" (a subscriber of the first parameter raises)" if raising else ""))
                    out.append(dict(table=tname, row=row["name"], kind=kind, conv=pd.conv_words(kind, row), triple=list(trip[s][i]), value=v,
                                    via=route, obs=obs, raised=raised, tx=tx, retries=retries, after=after, result=list(r),
                                    multi=dict(product=product, kind=kind, n=n, sub=s, wseed=wseed, raising=raising)))
        await w.shutdown()
    return out


async def run_async(ctx, res, only=None):
    tier = ctx["tier"]
    quick = tier == "quick"
    rng = random.Random(ctx["seed"] * 7368787 + 3)
    tables = pd.load_tables()
    cases = []
    late_corr = []      # recorded after the per-case verdicts, so that they cannot crowd out concrete failing inputs
    for product in (pd.PRODUCT_P, pd.PRODUCT_I) if not (only and only.get("multi")) else ():
        w = World()
        await w.uid(product)
        st = {}
        for tname, kind, label, row in rows_of(product, tables):
            if only and ((only["table"], only["row"]) != (tname, row["name"]) or only.get("reports")):
                continue
            cw = pd.conv_words(kind, row)
            trs = [tuple(only["triple"])] if only else triples_for(rng, kind, row, 1 if quick else 6)
            for triple in trs:
                reqs = [only["value"]] if only else requests_for(rng, kind, row, triple, quick)
                for k, v in enumerate(reqs):
                    await feed_triple(w, tables, tname, kind, row, triple, st)
                    dev = w.device(label)
                    p = dev.data[row["name"]]
                    held = (p.values.value, p.values.min_value, p.values.max_value)
                    if only is None and held != triple and not (kind == "control") and k == 0:
                        late_corr.append((dict(table=tname, row=row["name"], triple=list(triple)), list(triple), list(held)))
                    route = only.get("via") if only else pick_route(len(cases), p, v)
                    r, frames = await run_route(w, dev, p, row["name"], v, route)
                    via_device = route == "Device.set"
                    retries = 5 if route in ROUTES[4:] else 1     # the switch conveniences use the default number of attempts
                    after = dev.data[row["name"]].values.value
                    obs, raised, tx = observe(kind, row, r, frames, held, after, retries)
                    # judged against what the controller last REPORTED (for the control switch the triple is derived from the state)
                    cases.append(dict(table=tname, row=row["name"], kind=kind, conv=cw, triple=list(held if (kind == "control" or only) else triple), value=v,
                                      via=route, obs=obs, raised=raised, tx=tx, retries=retries,
                                      after=after, result=list(r)))
        # re-report pass: the controller reports a row, then reports it AGAIN with the same value and other bounds
        # (no set in between, so nothing is pending); the next request is judged against the LAST reported bounds
        if only is None:
            for tname, kind, label, row in rows_of(product, tables):
                if kind == "control" or (kind == "schedule" and row["switch"]):
                    continue
                n = 256 ** row["size"]
                v = rng.randrange(10, min(n, 250) - 10)
                wide, narrow = (v, v - 8, v + 8), (v, v - 2, v + 2)
                first, second = (wide, narrow) if rng.random() < 0.6 else (narrow, wide)
                cw = pd.conv_words(kind, row)
                raw_req = v + rng.choice([5, -5, 3, -3])           # inside the wide bounds, outside the narrow ones
                handle = rng.choice(HANDLES)
                cases.append(await rereport_case(w, tables, tname, kind, label, row, first, second, raw_req, handle, st, res))
            # the thermostat profile slot reported undefined and then defined again: the device drops the parameter
            # and later builds a NEW object; an object the client kept from before is orphaned (known finding F9)
            prow = next((r for r in rows_of(product, tables) if r[1] == "profile"), None)
            if prow is not None:
                tname, kind, label, row = prow
                sizes = [r["size"] for r in tables["tables"]["thermostat"]]
                await feed_triple(w, tables, tname, kind, row, (2, 0, 5), st)
                dev = w.device(label)
                kept = dev.data[row["name"]]
                await w.thermostat_params(pd.thermostat_payload(0, 1, None, [[(0, 0, 5)]], sizes))
                await feed_triple(w, tables, tname, kind, row, (2, 0, 3), st)
                live = dev.data[row["name"]]
                held = (live.values.value, live.values.min_value, live.values.max_value)
                r, frames = await pd.run_set(w, lambda: kept.set(5, retries=1, timeout=0.01))
                after = live.values.value
                obs, raised, tx = observe(kind, row, r, frames, held, after)
                res.count("rereport:profile-undefined-then-defined:" + ("same object" if kept is live else "new object"))
                cases.append(dict(table=tname, row=row["name"], kind=kind, conv=pd.conv_words(kind, row), triple=[2, 0, 3], value=5,
                                  via="parameter.set on an object kept across an undefined report", obs=obs, raised=raised, tx=tx,
                                  after=after, result=list(r), finding="F9", orphan=True))
        elif only.get("reports"):
            for tname, kind, label, row in rows_of(product, tables):
                if (only["table"], only["row"]) == (tname, row["name"]):
                    first, second = [tuple(x) for x in only["reports"]]
                    cases.append(await rereport_case(w, tables, tname, kind, label, row, first, second, None, only["handle"], st, res,
                                                     value=only["value"]))
        await w.shutdown()
    if only is None or only.get("multi"):
        # after the per-row passes (whose route choice counts the cases so far)
        cases.extend(await multi_cases(ctx, tables, res, only))
    lines = []
    for c in cases:
        val, lo, hi = c["triple"]
        lines.append(f"c06set {c['conv']} {val} {lo} {hi} {pd.enc_val(c['value'])} {c.get('retries', 1)}")
        lines.append(f"toraw {c['conv']} {pd.enc_val(c['value'])}")
    ans = driver_batch(lines)
    judge_lines, judge_idx = [], []
    for i, c in enumerate(cases):
        model, raw = ans[2 * i], ans[2 * i + 1]
        c["model"], c["raw"] = model, raw
        if raw.startswith("ok:") and all(isinstance(x, int) for x in c["tx"]):
            val, lo, hi = c["triple"]
            txs = ",".join(str(x) for x in c["tx"]) if c["tx"] else "-"
            judge_lines.append(f"c06judge {raw[3:]} {val} {lo} {hi} {int(c['raised'])} {c['after']} {txs}")
            judge_idx.append(i)
    verdicts = driver_batch(judge_lines)
    for i, vd in zip(judge_idx, verdicts):
        cases[i]["verdict"] = vd
    for c in cases:
        val, lo, hi = c["triple"]
        inp = dict(table=c["table"], row=c["row"], triple=c["triple"], value=repr(c["value"]) if isinstance(c["value"], float) else c["value"],
                   value_token=pd.enc_val(c["value"]), via=c["via"], conv=c["conv"])
        if c.get("reports"):
            inp.update(reports=c["reports"], handle=c["handle"])
        if c.get("multi"):
            inp["multi"] = c["multi"]
        vt = type(c["value"]).__name__
        res.case((c["conv"], c["table"], c["row"], tuple(c["triple"]), pd.enc_val(c["value"]))
                 + ((c["multi"]["sub"], c["multi"]["n"]) if c.get("multi") else ()), nontrivial=True)
        res.count("value:" + vt)
        res.count("outcome:" + c["obs"].split()[0].split(":")[0])
        res.count("via:" + c["via"])
        res.count("triple:" + ("min>max" if lo > hi else "min=max" if lo == hi else "value outside" if not lo <= val <= hi else "normal"))
        if c.get("verdict", "pass") != "pass":
            res.fail("spec", inp, f"C06.spec raw={c['raw']} triple={c['triple']}",
                     dict(result=c["result"], transmitted=c["tx"], value_after=c["after"]),
                     "out-of-range request not refused inertly, or a transmitted set request outside the bounds (C06.spec)",
                     **(dict(finding=c["finding"]) if c.get("finding") else {}))
        if c.get("orphan"):
            continue        # an orphaned object is not the report/set machine's parameter: judged by the statement only
        if c["obs"] != c["model"]:
            res.fail("corr", inp, c["model"], c["obs"], "Parameter.set front differs from the model (outcome, value after, transmitted raws)")
        if len(res.samples) < 8 and c["obs"].split(":")[0].split()[0] in ("reject", "transmit", "typeerror", "noop"):
            tag = c["obs"].split()[0].split(":")[0] + ":" + c["conv"].split()[0]
            if tag not in [s.get("tag") for s in res.samples]:
                res.sample(dict(tag=tag, row=c["row"], triple=c["triple"], value=inp["value"], observed=c["obs"], raw=c["raw"], via=c["via"]))
    # spec failures first, then model differences, then held-triple differences
    res.failures.sort(key=lambda f: 0 if f["kind"] == "spec" else 1)
    for inp, exp, obs in late_corr:
        res.fail("corr", inp, exp, obs, "the triple reported by the response is not the triple held by the parameter")
    res.extra["rows"] = len({(c["table"], c["row"]) for c in cases})


# ------------------------------------------------------------------ histories of reports, calls and retries (the report / set machine)
def gen_history(rng, kind, row):
    """events ('R', triple) controller report | ('S', value, retries) set call (decision + first attempt) |
    ('T',) the sleep of the call in flight is over (retry, or the call returns).  Every call is run to its end."""
    n = 256 ** row["size"]
    top = min(n, 250)
    v = rng.randrange(30, top - 30)
    wide, narrow = (v, v - 20, v + 20), (v, v - 3, v + 3)
    tmpl = rng.randrange(11)
    if kind == "schedule" and row["switch"] and tmpl == 9:
        tmpl = 10      # the value mapping below would turn the refused overlapping calls into accepted ones

    def call(raw, retries=1, between=()):
        """a call that runs to its end; `between[i]` = reports arriving after attempt i+1"""
        out = [("S", shown(kind, row, raw), retries)]
        for i in range(retries):
            out += [("R", t) for t in (between[i] if i < len(between) else ())]
            out.append(("T",))
        return out

    if tmpl == 0:      # steady state re-report, bounds narrowed, request between old and new bounds
        evs = [("R", wide), ("R", narrow)] + call(v + rng.choice([5, -5, 10])) + call(v + 2) + call(v - 4)
    elif tmpl == 1:    # bounds widened by a re-report
        evs = [("R", narrow), ("R", wide)] + call(v + rng.choice([5, -5, 10])) + call(v + 21) + [("R", narrow)] + call(v + 6)
    elif tmpl == 2:    # unconfirmed set, then the old value re-reported with narrower bounds while pending
        evs = [("R", wide)] + call(v + 10) + [("R", narrow)] + call(v + 8) + call(v + 1) + [("R", wide)] + call(v + 8)
    elif tmpl == 3:    # unconfirmed set, controller reports another value and other bounds
        evs = [("R", wide)] + call(v - 10) + [("R", (v + 7, v - 2, v + 9))] + call(v + 7) + call(v + 15) + call(v - 3) + call(v + 9)
    elif tmpl == 4:    # confirmed value re-reported, then bounds move away from the value
        evs = ([("R", wide)] + call(v + 4) + [("R", (v + 4, v - 20, v + 20)), ("R", (v + 4, v + 10, v + 20))]
               + call(v + 5) + call(v + 12) + call(v + 4))
    elif tmpl == 5:    # F7: bounds excluding the requested value reported BETWEEN two attempts of one call
        evs = [("R", wide)] + call(v + 10, 2, [[narrow]]) + call(v + 8) + call(v + 2)
    elif tmpl == 6:    # the report between attempts confirms the value: the call returns True, no retry
        evs = [("R", wide)] + call(v + 10, 3, [[(v + 10, v - 20, v + 20)]]) + call(v + 11)
    elif tmpl == 7:    # confirmation together with bounds that exclude the value
        evs = [("R", wide)] + call(v + 10, 2, [[(v + 10, v - 3, v + 3)]]) + call(v + 9) + call(v + 3)
    elif tmpl == 8:    # reports between attempts that keep the value inside the bounds; several retries
        evs = [("R", wide)] + call(v + 10, 3, [[(v, v - 15, v + 15)], [(v, v - 12, v + 30)]]) + call(v + 25)
    elif tmpl == 9:    # a second set, out of range / equal to the held value, WHILE the first call is in flight
        first = call(v + 10, 3)
        evs = ([("R", wide)] + first[:1] + [("S", shown(kind, row, v + 25), 1), first[1], ("S", shown(kind, row, v - 30), 2),
                                            ("S", shown(kind, row, v + 10), 1)] + first[2:] + call(v + 11))
    else:              # random walk
        cur = wide
        evs = [("R", cur)]
        for _ in range(rng.randrange(3, 8)):
            def rnd_report():
                val = cur[0] if rng.random() < 0.6 else rng.randrange(10, top - 10)
                lo = rng.randrange(5, top - 20)
                return (val, lo, rng.randrange(lo, top - 5))
            if rng.random() < 0.4:
                cur = rnd_report()
                evs.append(("R", cur))
            else:
                retries = rng.choice([1, 1, 2, 3])
                between = []
                for _i in range(retries):
                    if rng.random() < 0.4:
                        cur = rnd_report()
                        between.append([cur])
                    else:
                        between.append([])
                evs += call(rng.choice([cur[1] - 1, cur[1], cur[2], cur[2] + 1, rng.randrange(0, top), cur[0]]), retries, between)
    if kind == "schedule" and row["switch"]:
        evs = [("R", (e[1][0] % 2, 0, 1)) if e[0] == "R" else (("S", rng.choice([0, 1, 2, "on", "off"]), e[2]) if e[0] == "S" else e)
               for e in evs]
    return evs


async def run_histories(ctx, res, only=None):
    import asyncio
    quick = ctx["tier"] == "quick"
    rng = random.Random(ctx["seed"] * 2750159 + 11)
    tables = pd.load_tables()
    records = []
    TIMEOUT = 1.0
    for product in (pd.PRODUCT_P, pd.PRODUCT_I):
        w = World()
        await w.uid(product)
        st = {}
        loop = asyncio.get_running_loop()
        for tname, kind, label, row in rows_of(product, tables):
            if kind in ("control", "profile"):      # the profile parameter object is re-created by every report
                continue
            if only and (only["table"], only["row"]) != (tname, row["name"]):
                continue
            reps = 1 if only else (1 if quick else 6)
            if quick and not only and kind == "ecomax" and rng.random() < 0.5:
                continue
            for _ in range(reps):
                evs = only["events"] if only else gen_history(rng, kind, row)
                cw = pd.conv_words(kind, row)
                words, steps = [], []
                last = None
                task, deadline = None, None
                reports_in_call = []

                def drain_tx():
                    tx = []
                    for fr in w.drain():
                        try:
                            cf = pd.canon_frame(fr)
                        except Exception as e:  # noqa: BLE001
                            tx.append(f"unencodable:{type(e).__name__}")
                            continue
                        if cf[0].startswith(("Set", "EcomaxControl")):
                            vraw = request_raw(kind, [cf], row["size"])
                            if isinstance(vraw, tuple) and vraw and vraw[0] == "schedule":
                                vraw = vraw[2] if row["name"].endswith("_schedule_switch") else vraw[3]
                            tx.append(vraw)
                    return tx

                def task_result():
                    if task.cancelled():
                        return "cancelled"
                    e = task.exception()
                    if e is not None:
                        return "exc:" + type(e).__name__
                    return "ret:%d" % int(bool(task.result()))

                for ev in evs:
                    if ev[0] == "R":
                        last = tuple(ev[1])
                        await feed_triple(w, tables, tname, kind, row, last, st)
                        w.drain()
                        words.append("R:%d:%d:%d" % last)
                        steps.append(dict(ev="R", obs="-", last_report=list(last)))
                        if task is not None:
                            reports_in_call.append(list(last))
                    elif ev[0] == "S" and task is not None:
                        # a second call while one is in flight: must return at once (refused / no-op) and touch nothing
                        val, retries = ev[1], ev[2]
                        p = w.device(label).data[row["name"]]
                        held = (p.values.value, p.values.min_value, p.values.max_value)
                        t2 = loop.create_task(p.set(val, retries=retries, timeout=TIMEOUT))
                        await pd.settle()
                        tx = drain_tx()
                        words.append(f"S:{retries}:" + pd.enc_val(val))
                        if t2.done():
                            e2 = t2.exception()
                            r = ("exc:" + type(e2).__name__) if e2 is not None else "ret:%d" % int(bool(t2.result()))
                            obs = {"exc:ValueError": "d:reject", "exc:TypeError": "d:typeerror", "ret:1": "d:noop"}.get(r, "d:other:" + r)
                        else:
                            t2.cancel()
                            await pd.settle()
                            obs = "d:other:overlapping-call-accepted"
                        if tx:
                            obs += "," + ",".join(f"tx:{x}" for x in tx)
                        steps.append(dict(ev="S", value=val, obs=obs, tx=tx, raised=obs.startswith("d:reject"), held=list(held),
                                          last_report=list(last), after=p.values.value, overlapping=True))
                    elif ev[0] == "S":
                        val, retries = ev[1], ev[2]
                        p = w.device(label).data[row["name"]]
                        held = (p.values.value, p.values.min_value, p.values.max_value)
                        w.drain()
                        t0 = loop.time()
                        task = loop.create_task(p.set(val, retries=retries, timeout=TIMEOUT))
                        await pd.settle()
                        tx = drain_tx()
                        words.append(f"S:{retries}:" + pd.enc_val(val))
                        if task.done():
                            r = task_result()
                            obs = {"exc:ValueError": "d:reject", "exc:TypeError": "d:typeerror", "ret:1": "d:noop"}.get(r, "d:other:" + r)
                            if tx:
                                obs += "," + ",".join(f"tx:{x}" for x in tx)
                            raised = r == "exc:ValueError"
                            task = None
                        else:
                            obs = (f"d:transmit:{tx[0]}," if tx else "d:inflight-without-request,") + ",".join(f"tx:{x}" for x in tx)
                            obs = obs.rstrip(",")
                            raised = False
                            deadline = t0 + TIMEOUT
                            reports_in_call = []
                        steps.append(dict(ev="S", value=val, obs=obs, tx=tx, raised=raised, held=list(held), last_report=list(last),
                                          after=w.device(label).data[row["name"]].values.value))
                    else:
                        words.append("T")
                        if task is None:
                            steps.append(dict(ev="T", obs="-", tx=[], last_report=list(last)))
                            continue
                        await asyncio.sleep(max(0.0, deadline - loop.time()) + 0.0005)
                        tx = drain_tx()
                        if task.done():
                            obs = task_result()
                            if tx:
                                obs = ",".join(f"tx:{x}" for x in tx) + "," + obs
                            task = None
                        else:
                            obs = ",".join(f"tx:{x}" for x in tx) if tx else "-"
                            deadline += TIMEOUT
                        steps.append(dict(ev="T", obs=obs, tx=tx, last_report=list(last), reports_in_call=list(reports_in_call)))
                if task is not None:
                    task.cancel()
                    await pd.settle()
                    w.drain()
                records.append(dict(table=tname, row=row["name"], kind=kind, conv=cw, words=words, steps=steps,
                                    events=[[e[0]] + ([list(e[1])] if e[0] == "R" else ([e[1], e[2]] if e[0] == "S" else [])) for e in evs]))
        await w.shutdown()
    lines = []
    for rec in records:
        lines.append(f"c06hist {rec['conv']} " + " ".join(rec["words"]))
        for s_ in rec["steps"]:
            if s_["ev"] == "S":
                lines.append(f"toraw {rec['conv']} {pd.enc_val(s_['value'])}")
    ans = driver_batch(lines)
    ai = 0
    judge_lines, judge_idx = [], []
    for ri, rec in enumerate(records):
        model = ans[ai]
        ai += 1
        rec["model"] = model
        outs = model.split(" | ")[0].split("/")
        # outs has one entry per event after the first report
        mval = None
        k = 0
        for si, s_ in enumerate(rec["steps"]):
            if si == 0:
                mval = s_["last_report"][0]
                s_["model"] = "-"
                continue
            s_["model"] = outs[k] if k < len(outs) else "?"
            k += 1
            if s_["ev"] == "S":
                s_["raw"] = ans[ai]
                ai += 1
                s_["value_before"] = mval
            if s_["ev"] == "R":
                mval = s_["last_report"][0]
            for tok in s_["model"].split(","):
                if tok.startswith("tx:"):
                    mval = int(tok[3:])
        for si, s_ in enumerate(rec["steps"]):
            if s_["ev"] == "S" and s_["raw"].startswith("ok:") and all(isinstance(x, int) for x in s_["tx"]):
                lo, hi = s_["last_report"][1], s_["last_report"][2]
                txs = ",".join(str(x) for x in s_["tx"]) if s_["tx"] else "-"
                judge_lines.append(f"c06judge {s_['raw'][3:]} {s_['value_before']} {lo} {hi} {int(s_['raised'])} {s_['after']} {txs}")
                judge_idx.append((ri, si))
    verdicts = driver_batch(judge_lines)
    for (ri, si), vd in zip(judge_idx, verdicts):
        records[ri]["steps"][si]["verdict"] = vd
    for rec in records:
        res.case(("history", rec["conv"], rec["table"], rec["row"], tuple(rec["words"])), nontrivial=any(s_["ev"] == "S" for s_ in rec["steps"]))
        res.count("history:events", len(rec["words"]))
        inp = dict(table=rec["table"], row=rec["row"], conv=rec["conv"], history=rec["events"], words=rec["words"])
        reported = False
        for si, s_ in enumerate(rec["steps"]):
            if s_["ev"] == "S":
                res.count("history:" + s_["obs"].split(",")[0].split(":")[1])
                if s_.get("verdict", "pass") != "pass" and not reported:
                    reported = True
                    res.fail("spec", dict(inp, step=si), f"C06.spec raw={s_['raw']} value held={s_['value_before']} last reported bounds={s_['last_report'][1:]}",
                             dict(result=s_["obs"], transmitted=s_["tx"], value_after=s_["after"], triple_held_by_the_parameter=s_["held"]),
                             "a set is not checked against the triple the controller LAST reported (C06.spec on the history)")
            if s_["ev"] == "T":
                # second sentence of C06 on a retry: the transmitted raw must lie within the bounds last reported
                lo, hi = s_["last_report"][1], s_["last_report"][2]
                for x in s_["tx"]:
                    if isinstance(x, int):
                        res.count("history:retry")
                        if not lo <= x <= hi:
                            res.count("history:retry outside the last reported bounds (F7)")
                            f7 = any(not (t[1] <= x <= t[2]) for t in s_.get("reports_in_call", []))
                            if f7 and res.extra.get("f7_recorded", 0) >= 4:
                                continue
                            if not reported:
                                reported = True
                                if f7:
                                    res.extra["f7_recorded"] = res.extra.get("f7_recorded", 0) + 1
                                res.fail("spec", dict(inp, step=si), f"every transmitted set request within the last reported bounds [{lo}, {hi}]",
                                         dict(transmitted=x, reports_during_the_call=s_.get("reports_in_call")),
                                         ("a retry transmits a value outside the bounds the controller reported during the call" if f7 else
                                          "a retry transmits a value outside the last reported bounds (not the value its call was accepted with?)"),
                                         **(dict(finding="F7") if f7 else {}))
        obs_line = "/".join(s_["obs"] for s_ in rec["steps"][1:])
        if obs_line != rec["model"].split(" | ")[0]:
            res.fail("corr", inp, rec["model"], obs_line, "history of reports, calls and retries differs from the report/set machine (c06hist)")
        if any(s_["ev"] == "S" for s_ in rec["steps"]) and not any(isinstance(s, dict) and s.get("tag") == "history" for s in res.samples):
            res.samples.insert(0, dict(tag="history", row=rec["row"], words=rec["words"], observed=obs_line))


def run(ctx):
    res = Result("C06")
    res.rule = ("every description of every table x triples (random; quick 1 + 1 degenerate, thorough 6 + 8 degenerate: min=max, min>max, "
                "value outside its bounds, full range) reported by a real response frame x requested values: display(raw) for raw in "
                "{min-1,min,min+1,max-1,max,max+1,value,value+1,0,top,top+1}, each +-1 ulp, +0.5 step, +0.4999999 step, -0.5000001 step, "
                "the int form, True/False, 'on'/'off', random floats [quick: 24 sampled per triple]; every 5th call through Device.set; "
                "PLUS devices populated by ONE response for 2..5 mixers / 2..3 thermostats with disjoint ranges per sub-device: own bounds +-1 and "
                "every other sub-device's bounds requested on each sub-device, judged against the triple reported for THAT sub-device. "
                "distinct = (conversion, table, row, triple, value); all non-trivial (a real set call on a real parameter)")
    hres = Result("C06")
    import c06life
    c06life.run_lifetime(ctx, hres)       # overlapping calls x reports that move the bounds (rig of harness/setm.py, own loop)
    pd.run(run_histories(ctx, hres))      # first: its failures must not be crowded out by the 200-failure cap
    pd.run(run_async(ctx, res))
    res.failures = hres.failures + res.failures
    res.evaluations += hres.evaluations
    res.nontrivial |= hres.nontrivial
    res.dist.update(hres.dist)
    res.samples = hres.samples[:1] + res.samples
    res.extra.update(hres.extra)
    res.rule += ("; PLUS histories per row: reports through real frames (same value/other bounds, other value, after an unconfirmed "
                 "set = while pending) interleaved with set calls, compared with the Lean report machine (c06hist) and each call judged "
                 "by C06.spec against (value held, bounds of the LAST report)"
                 "; PLUS lifetimes of one parameter (9 unscaled targets: ecoMAX / mixer / thermostat / schedule, second sub-devices): 2..4 set "
                 "calls, sequential or OVERLAPPING, x reports that narrow / widen / shift the bounds x retry timers x executor held, judged by "
                 "C06L.judge (every transmission against the bounds reported last; F7 only where the check-once machine transmits too) and "
                 "compared with the machine SetL")
    return res


def replay(ctx):
    f = ctx["replay"].get("failure") or ctx["replay"].get("first_difference")
    res = Result("C06")
    res.rule = "replay of one recorded (table, row, triple, value)"
    inp = f["input"]
    if "lifetime" in inp:
        import c06life
        c06life.run_lifetime(dict(ctx, tier="quick"), res, only=inp["lifetime"])
        return res
    if "history" in inp:
        evs = [("R", tuple(e[1])) if e[0] == "R" else (("S", e[1], e[2]) if e[0] == "S" else ("T",)) for e in inp["history"]]
        pd.run(run_histories(dict(ctx, tier="quick"), res, only=dict(table=inp["table"], row=inp["row"], events=evs)))
        return res
    tok = inp["value_token"]
    kind, _, body = tok.partition(":")
    if kind == "i":
        v = int(body)
    elif kind == "b":
        v = bool(int(body))
    elif kind == "s":
        v = body
    else:
        a, b = body.split("/")
        v = int(a) / int(b)
    pd.run(run_async(dict(ctx, tier="quick"), res, only=dict(table=inp["table"], row=inp["row"], triple=inp["triple"], value=v, via=inp.get("via"),
                                                              reports=inp.get("reports"), handle=inp.get("handle", "device.data"),
                                                              multi=inp.get("multi"))))
    return res

"""Frame construction by the wire layout (independent of pyplumio's encoder)."""
import functools

FRAME_TYPES = [24, 25, 48, 49, 50, 51, 52, 54, 55, 57, 58, 59, 61, 64, 85, 92, 93, 176, 177, 178,
               179, 180, 182, 185, 186, 187, 189, 192, 213, 220, 221, 8, 53]
DEVICES = [0, 69, 81, 86]


def xor(bs):
    return functools.reduce(lambda a, b: a ^ b, bs, 0)


def mk(kind, payload=b"", rcpt=86, sender=69, etype=48, ever=5, end=0x16):
    n = len(payload) + 10
    pre = bytes([0x68, n & 0xFF, (n >> 8) & 0xFF, rcpt, sender, etype, ever, kind]) + bytes(payload)
    return pre + bytes([xor(pre), end])


def salted_payload(rng, n):
    """random payload with forced start-delimiter bytes and header-shaped runs"""
    b = bytearray(rng.randrange(256) for _ in range(n))
    if n and rng.random() < 0.6:
        for _ in range(rng.randint(1, 1 + n // 8)):
            b[rng.randrange(n)] = 0x68
    if n >= 8 and rng.random() < 0.3:
        i = rng.randrange(n - 7)
        ln = rng.choice([10, 11, 12, 20, 1000, 1001, 9])
        b[i:i + 7] = bytes([0x68, ln & 0xFF, ln >> 8, rng.choice([86, 0, 1, 69]), rng.choice(DEVICES + [7]), 48, 5])
    return bytes(b)


def rand_frame(rng, maxpayload=64, own=None):
    kind = rng.choice(FRAME_TYPES) if rng.random() < 0.85 else rng.randrange(256)
    if own is None:
        own = rng.random() < 0.7
    rcpt = rng.choice([86, 0]) if own else rng.randrange(256)
    sender = rng.choice(DEVICES) if rng.random() < 0.85 else rng.randrange(256)
    n = rng.choice([0, 1, 2, 3, rng.randint(0, maxpayload), rng.randint(0, maxpayload)])
    return mk(kind, salted_payload(rng, n), rcpt, sender, rng.choice([48, rng.randrange(256)]),
              rng.choice([5, rng.randrange(256)]), rng.choice([0x16, 0x16, 0x16, rng.randrange(256)]))


def runt(rng, total):
    """header-shaped run of exactly `total` bytes (7 <= total) whose LE16 length field says
    `total` and whose byte total-2 is the XOR of everything before it -- i.e. what a frame of
    that length would look like if the length were legal.  For total < 10 the fields overlap
    (kind/checksum/end share bytes with the header); used to probe the length bounds."""
    rcpt = rng.choice([86, 0, 86, 0, 1])
    sender = rng.choice(DEVICES)
    b = bytearray([0x68, total & 0xFF, (total >> 8) & 0xFF, rcpt, sender, rng.randrange(256), rng.randrange(256)])
    while len(b) < total:
        b.append(rng.choice(FRAME_TYPES) if len(b) == 7 else rng.randrange(256))
    b = b[:max(total, 7)]
    if total >= 9:
        # make byte total-2 the XOR of all bytes before it
        b[total - 2] = xor(b[:total - 2])
        if total == 9:
            # kind byte and checksum byte coincide: steer it to a known frame type via the version byte
            want = rng.choice(FRAME_TYPES)
            b[6] ^= b[7] ^ want
            b[7] = xor(b[:7])
    elif total == 8:
        b[6] = xor(b[:6])
    elif total == 7:
        b[5] = xor(b[:5])
    return bytes(b)


def twin_headers(rng, deliverable=True):
    """-> two (rcpt, sender, etype, ever) tuples that differ in exactly two (sometimes four) bytes by the SAME XOR delta, so
    that frames of one kind and payload built with them are byte-identical from the kind byte on, the checksum included.
    deliverable: recipient stays in {86, 0} and the sender in DEVICES on both sides."""
    h = [rng.choice([86, 0]), rng.choice(DEVICES), rng.choice([48, 48, rng.randrange(256)]), rng.choice([5, 5, rng.randrange(256)])]
    g = list(h)
    mode = rng.choice(["sender/version", "sender/type", "recipient/type", "recipient/version", "recipient/sender",
                       "type/version", "all-four"])
    if mode in ("sender/version", "sender/type"):
        g[1] = rng.choice([d for d in DEVICES if d != h[1]])
        g[3 if mode == "sender/version" else 2] ^= h[1] ^ g[1]
    elif mode in ("recipient/type", "recipient/version"):
        g[0] = 86 - h[0]
        g[2 if mode == "recipient/type" else 3] ^= 86
    elif mode == "recipient/sender":
        # 86 ^ 0 = 86: only the senders 86 <-> 0 pair with a recipient change
        h[1] = rng.choice([86, 0])
        g[1] = 86 - h[1]
        g[0] = 86 - h[0]
    elif mode == "type/version":
        m = rng.randrange(1, 256)
        g[2] ^= m
        g[3] ^= m
    else:
        g[0] = 86 - h[0]
        g[1] = rng.choice([d for d in DEVICES if d != h[1]])
        m = rng.randrange(1, 256)
        g[2] ^= m
        g[3] ^= m ^ 86 ^ h[1] ^ g[1]
    if not deliverable:
        # the FIRST frame is one the reader does not deliver (foreign recipient or unknown sender), its twin is deliverable
        h = list(g)
        if rng.random() < 0.5:
            d = rng.choice([1, 0x45, 0x57, 0xFF])
            h[0] = g[0] ^ d
            h[2] = g[2] ^ d
        else:
            d = rng.choice([1, 2, 0x80])
            h[1] = g[1] ^ d
            h[3] = g[3] ^ d
    assert xor(h) == xor(g) and h != g
    return mode, tuple(h), tuple(g)

"""The real FrameReader on a real asyncio.StreamReader under an ARRIVAL SCHEDULE, observed at every suspension, against the
resumable reader machine of Model/ReaderChunks (driver op `readchunks`; C04.chunk_independent proves that machine equal to
the reader model on the concatenation for every chunking and schedule, C14.never_demands_beyond_max bounds its demand).

schedule semantics (the model's): before call i `eager[i]` further chunks arrive; while a call is suspended the next chunk
arrives (one at a time); with no chunk left the stream ends.
observed per call: canonical outcome (reader.read_all form) and its suspensions: (state, bytes buffered, bytes demanded)
  state   S = hunting for the delimiter (read(1)), H = delimiter taken, B = header taken -- read off the bytes the call
          has TAKEN from the stream so far (1 resp. 7 bytes from its start delimiter on)
  demand  what `readexactly(n)` waits for (n - buffered), 1 for read(1): read off the StreamReader, not off the model
"""
import asyncio

from common import hexs, use_repo
import vloop

use_repo()
from pyplumio.exceptions import ProtocolError  # noqa: E402
from pyplumio.stream import FrameReader  # noqa: E402


async def _run(chunks, eager, max_calls):
    sr = asyncio.StreamReader()
    fr = FrameReader(sr)
    stream = b"".join(chunks)
    pending = list(chunks)
    fed = 0
    eof = False
    want = []            # argument of the primitive being awaited (recorded by the wrappers below)

    orig_exactly, orig_read = sr.readexactly, sr.read

    async def readexactly(n):
        want.append(("x", n))
        try:
            return await orig_exactly(n)
        finally:
            want.pop()

    async def read(n=-1):
        want.append(("r", n))
        try:
            return await orig_read(n)
        finally:
            want.pop()
    sr.readexactly, sr.read = readexactly, read

    def feed():
        nonlocal fed, eof
        if pending:
            c = pending.pop(0)
            fed += len(c)
            if c:
                sr.feed_data(c)
            return True
        if not eof:
            eof = True
            sr.feed_eof()
        return False

    out = []
    before = 0
    for i in range(max_calls):
        for _ in range(eager[i] if i < len(eager) else 0):
            if pending:
                feed()
        t = asyncio.ensure_future(fr.read())
        trace = []
        for _ in range(100000):
            await asyncio.sleep(0)
            if t.done():
                break
            if sr._waiter is not None:
                taken = fed - len(sr._buffer) - before
                seg = stream[before:before + taken]
                k = seg.find(b"\x68")
                since = taken - k if k >= 0 else 0
                state = "S" if since == 0 else "H" if since == 1 else "B" if since == 7 else f"?{since}"
                kind, n = want[-1] if want else ("?", 0)
                demand = (n - len(sr._buffer)) if kind == "x" else 1
                trace.append((state, len(sr._buffer), demand, kind))
                feed()      # an empty chunk wakes nobody: the call stays suspended in the same state (the model records it again)
        else:
            t.cancel()
            raise RuntimeError("chunks harness: no progress")
        n = fed - len(sr._buffer) - before
        before += n
        exc = t.exception()
        if exc is None:
            f = t.result()
            if f is None:
                o = ("I", n)
            else:
                o = ("D", int(f.frame_type), int(f.recipient), int(f.sender), int(f.econet_type), int(f.econet_version), hexs(f.message), n)
        elif isinstance(exc, ProtocolError):
            o = ("E", n)
        elif isinstance(exc, asyncio.TimeoutError):
            o = ("T", n)
        elif isinstance(exc, OSError):
            o = ("L", n)
        else:
            o = ("X", type(exc).__name__, n)
        out.append((o, trace))
        if o[0] in ("L", "T", "X"):
            break
    return out


def run_impl(chunks, eager=(), max_calls=None):
    if max_calls is None:
        max_calls = sum(len(c) for c in chunks) + 2
    return vloop.run(_run([bytes(c) for c in chunks], list(eager), max_calls))


def request(chunks, eager=()):
    return "readchunks " + (",".join(str(e) for e in eager) if eager else "-") + " " + "+".join(hexs(c) for c in chunks)


def parse(ans):
    """-> [(canonical outcome, [(state, buffered, demand)])]"""
    import reader
    out = []
    for part in ans.split(";"):
        o, tr = part.split(" @ ")
        m = reader.canon_model(reader.parse_model(o))[0]
        if m[0] == "E":
            m = ("E", m[1])
        trace = []
        if tr != "-":
            for w in tr.split(","):
                st, rest = w[0], w[1:]
                b, d = rest.split("/")
                trace.append((st, int(b), int(d)))
        out.append((m, trace))
    return out


def random_schedule(rng, s, frames_at=None):
    """-> (chunks, eager): random cuts (some empty chunks), some chunks already there before a call"""
    n = len(s)
    mode = rng.random()
    if n <= 1 or mode < 0.1:
        cuts = []
    elif mode < 0.25 and n <= 300:
        cuts = list(range(1, n))
    else:
        cand = list(range(1, n))
        pref = [i + d for i, b in enumerate(s) if b == 0x68 for d in (0, 1, 2, 6, 7, 8)]
        cuts = sorted(set(rng.sample(cand, min(len(cand), rng.randint(1, 9))) +
                          [c for c in rng.sample(pref, min(len(pref), rng.randint(0, 4))) if 0 < c < n]))
    chunks = [s[a:b] for a, b in zip([0] + cuts, cuts + [n])]
    if rng.random() < 0.3:
        chunks.insert(rng.randrange(len(chunks) + 1), b"")
    eager = [rng.choice([0, 0, 0, 1, 2, 5]) for _ in range(rng.randint(0, 6))]
    if rng.random() < 0.15:
        eager = [len(chunks)]
    return chunks, eager


def compare(res, inp, impl, model, spec_demand=True):
    """correspondence of outcomes AND suspensions; the C14 clause on what the implementation did"""
    ok = True
    for ci, (o, trace) in enumerate(impl):
        for (state, buffered, demand, kind) in trace:
            since = {"S": 0, "H": 1, "B": 7}.get(state)
            if spec_demand and (since is None or demand + buffered + since > 1000 or demand < 1):
                res.fail("spec", inp, "a suspended read() demands at most 1000 - (bytes taken since its start delimiter + bytes buffered)",
                         dict(call=ci, state=state, taken_since_delimiter=since, buffered=buffered, demanded=demand, primitive=kind),
                         "the reader waits for more than the maximum frame size (C14.never_demands_beyond_max)")
                ok = False
    got = [(("E", o[-1]) if o[0] == "E" else o, [t[:3] for t in trace]) for o, trace in impl]
    if got != model:
        res.fail("corr", inp, [[list(o), [list(t) for t in tr]] for o, tr in model], [[list(o), [list(t) for t in tr]] for o, tr in got],
                 "resumable reader machine (Model/ReaderChunks: outcomes and suspensions under this arrival schedule) and FrameReader.read() on a StreamReader differ")
        ok = False
    return ok


def evaluate(res, labelled_streams, rng, spec_demand=True, schedules_per_stream=2):
    """labelled_streams: [(label, bytes)] -> every stream under `schedules_per_stream` random arrival schedules"""
    from common import driver_batch
    cases = []
    for label, s in labelled_streams:
        for _ in range(schedules_per_stream):
            ch, eager = random_schedule(rng, s)
            cases.append((label, ch, eager))
    answers = driver_batch(request(ch, eager) for _, ch, eager in cases)
    for (label, ch, eager), ans in zip(cases, answers):
        inp = dict(via="chunks", chunks=[c.hex() for c in ch], eager=list(eager), label=label)
        impl = run_impl(ch, eager)
        compare(res, inp, impl, parse(ans), spec_demand)
        res.count("arrival-schedules")
        for _, trace in impl:
            for t in trace:
                res.count("suspended-in:" + t[0])
    return len(cases)


def replay_case(res, inp, spec_demand=True):
    from common import driver_batch
    ch = [bytes.fromhex(c) for c in inp["chunks"]]
    eager = list(inp.get("eager") or [])
    impl = run_impl(ch, eager)
    compare(res, inp, impl, parse(driver_batch([request(ch, eager)])[0]), spec_demand)
    res.sample(dict(chunks=inp["chunks"], eager=eager, observed=[[list(o), [list(t) for t in tr]] for o, tr in impl][:12]))


# ---------------------------------------------------------------------------------------------------------------------------
# arbitrary interleavings of chunk arrival and reader progress (Model/ReaderSched, driver op `sched`;
# C04.every_interleaving_prefix / every_interleaving_complete): moves 'a' = the next chunk (or the end of the stream) arrives,
# whether or not the reader waits; 'r' = the reader runs until its call completes or is suspended again (between calls: the
# caller starts the next read()).  Compared after the LAST move: completed calls, where the current call is suspended, how many
# bytes the StreamReader buffers, whether the caller has been told that the connection is lost.


async def _run_moves(chunks, moves):
    sr = asyncio.StreamReader()
    fr = FrameReader(sr)
    stream = b"".join(chunks)
    pending = list(chunks)
    fed, eof, before = 0, False, 0
    out, task, finished = [], None, False
    for m in moves:
        if m == "a":
            if pending:
                c = pending.pop(0)
                fed += len(c)
                if c:
                    sr.feed_data(c)
            elif not eof:
                eof = True
                sr.feed_eof()
            continue
        if finished:
            continue
        if task is None:
            task = asyncio.ensure_future(fr.read())
        for _ in range(100000):
            await asyncio.sleep(0)
            if task.done() or sr._waiter is not None:
                break
        else:
            task.cancel()
            raise RuntimeError("chunks harness: no progress")
        if not task.done():
            continue
        n = fed - len(sr._buffer) - before
        before += n
        exc = task.exception()
        if exc is None:
            f = task.result()
            o = ("I", n) if f is None else ("D", int(f.frame_type), int(f.recipient), int(f.sender), int(f.econet_type),
                                            int(f.econet_version), hexs(f.message), n)
        elif isinstance(exc, ProtocolError):
            o = ("E", n)
        elif isinstance(exc, asyncio.TimeoutError):
            o = ("T", n)
        elif isinstance(exc, OSError):
            o = ("L", n)
            finished = True
        else:
            o = ("X", type(exc).__name__, n)
            finished = True
        out.append(o)
        task = None
    # where the current call stands
    taken = fed - len(sr._buffer) - before
    seg = stream[before:before + taken]
    k = seg.find(b"\x68")
    since = taken - k if k >= 0 else 0
    state = "S" if since == 0 else "H" if since == 1 else "B" if since == 7 else f"?{since}"
    buffered = len(sr._buffer)
    if task is not None and not task.done():
        task.cancel()
        await asyncio.gather(task, return_exceptions=True)
    return out, (state, buffered, finished)


def run_moves(chunks, moves):
    return vloop.run(_run_moves([bytes(c) for c in chunks], moves))


def random_moves(rng, n_chunks, n_bytes):
    """a schedule: mostly fair (everything arrives, the reader runs often), in a random order, with bursts of arrivals, bursts of
    runs (spurious wake-ups) and sometimes cut short"""
    a = n_chunks + 1 + rng.choice([0, 0, 1])
    r = rng.choice([n_bytes // 8 + 4, n_bytes // 3 + 4, n_bytes + 3])
    mode = rng.random()
    if mode < 0.5:
        ms = ["a"] * a + ["r"] * r
        rng.shuffle(ms)
    elif mode < 0.75:
        ms = []
        left_a = a
        while left_a or r > 0:
            k = rng.randint(0, 3)
            ms += ["a"] * min(k, left_a)
            left_a -= min(k, left_a)
            k = rng.randint(0, 4)
            ms += ["r"] * k
            r -= k
    else:
        ms = ["r"] * rng.randint(0, 2) + ["a"] * a + ["r"] * r
    if rng.random() < 0.2:
        ms = ms[:rng.randrange(len(ms) + 1)]
    else:
        ms += ["a"] * 2 + ["r"] * (n_bytes // 10 + 6)     # let it reach the end
    return "".join(ms) or "r"


def compare_moves(res, inp, impl, ans):
    outs_s, st = ans.split(" @ ")
    import reader
    model = [] if outs_s == "-" else [("E", m[1]) if m[0] == "E" else m for m in reader.canon_model(reader.parse_model(outs_s))]
    w = st.split(" ")
    mstate = (w[0], int(w[1]), w[2] == "1")
    got = [("E", o[-1]) if o[0] == "E" else o for o in impl[0]]
    if got != model or impl[1] != mstate:
        res.fail("corr", inp, dict(calls=[list(o) for o in model], state=list(mstate)), dict(calls=[list(o) for o in got], state=list(impl[1])),
                 "reader + arrival system (Model/ReaderSched: any order of arrivals and runs) and FrameReader.read() on a StreamReader differ")
        return False
    return True


def evaluate_moves(res, labelled_streams, rng, schedules_per_stream=2):
    from common import driver_batch
    cases = []
    for label, s in labelled_streams:
        for _ in range(schedules_per_stream):
            ch, _ = random_schedule(rng, s)
            cases.append((label, ch, random_moves(rng, len(ch), len(s))))
    answers = driver_batch("sched " + ms + " " + "+".join(hexs(c) for c in ch) for _, ch, ms in cases)
    for (label, ch, ms), ans in zip(cases, answers):
        inp = dict(via="moves", chunks=[c.hex() for c in ch], moves=ms, label=label)
        impl = run_moves(ch, ms)
        compare_moves(res, inp, impl, ans)
        res.count("interleavings")
        res.count("interleaving-ends:" + ("finished" if impl[1][2] else "suspended-in-" + impl[1][0]))
    return len(cases)


def replay_moves(res, inp):
    from common import driver_batch
    ch = [bytes.fromhex(c) for c in inp["chunks"]]
    impl = run_moves(ch, inp["moves"])
    compare_moves(res, inp, impl, driver_batch(["sched " + inp["moves"] + " " + "+".join(hexs(c) for c in ch)])[0])
    res.sample(dict(chunks=inp["chunks"], moves=inp["moves"], observed=[[list(o) for o in impl[0]], list(impl[1])]))

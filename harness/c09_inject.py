"""C09 — histories in which decoding (and, separately, `reader.read()`) raises EVERY builtin exception class, under
INFO and DEBUG logging: the tie of Model/ProducerExc.lean / Props/C09Contain to the code.

Which payloads make which decoder raise what is C05's business; what the pipeline does with the exception is C09's.  So
the exception is INJECTED: the decoder of one frame class (`PasswordResponse.decode_message`) raises an instance of the
chosen class for one marked payload — the real consumer, the real logging call in the reader, the real queues run
unchanged.  Classes: every subclass of Exception defined in `builtins` (OSError and its whole family, TimeoutError,
LookupError / ArithmeticError families, UnicodeError family, Warning family, ExceptionGroup …), `struct.error`, asyncio's
(IncompleteReadError, LimitOverrunError, InvalidStateError, QueueFull, QueueEmpty), and pyplumio's own hierarchy.
BaseException-only classes (CancelledError, KeyboardInterrupt, SystemExit, GeneratorExit) are how tasks / the process are
stopped and are outside the statement.

Sites: `d` the decoder (reached from the consumer, and from the logging handler that formats the reader's DEBUG line when
there is one), `r` raised by `FrameReader.read()` itself.  Observed fate of the history [marker, FAULT, marker, check-device
request]: dropped (later marker delivered, request answered, accounting balanced, nobody died) / lost (connection_lost ran,
producer ended) / dies (a protocol task ended otherwise).  Expected: driver op `c09exc` (Contain.fate on the clauses read
from the source).
"""
import asyncio
import builtins
import struct

from common import driver_batch
import framegen as fg
import pipefake
import c09_logging

ECOMAX, ECONET = 69, 86
PASSWORD, CD_REQ, DA_RESP = 186, 48, 176
BOOM = b"\x04BOOM"
IDLE = fg.mk(PASSWORD, b"\x04idle", rcpt=1, sender=ECOMAX)


def exception_classes():
    from pyplumio import exceptions as pex
    seen, out = set(), []

    def walk(c):
        for s in c.__subclasses__():
            if s not in seen:
                seen.add(s)
                if s.__module__ == "builtins":
                    out.append(s)
                walk(s)
    out.append(Exception)
    walk(Exception)
    out += [struct.error, asyncio.IncompleteReadError, asyncio.LimitOverrunError, asyncio.InvalidStateError, asyncio.QueueFull,
            asyncio.QueueEmpty]
    out += [c for c in vars(pex).values() if isinstance(c, type) and issubclass(c, Exception)]
    uniq = []
    for c in out:
        if c not in uniq and make(c) is not None:
            uniq.append(c)
    return uniq


def make(cls):
    for args in (("injected",), (), ("utf-8", b"\xff", 0, 1, "injected"), ("utf-8", "x", 0, 1, "injected"), ("x", 0, 1, "injected"),
                 ("injected", [ValueError("inner")]), (b"", 1), ("injected", 1)):
        try:
            e = cls(*args)
            if isinstance(e, cls):
                return e
        except Exception:  # noqa: BLE001
            continue
    return None


def family(cls):
    from pyplumio.exceptions import ProtocolError
    return ("ProtocolError" if issubclass(cls, ProtocolError) else "TimeoutError" if issubclass(cls, asyncio.TimeoutError)
            else "OSError" if issubclass(cls, OSError) else "other")


class Fault:
    """patch the site for the duration of one run"""

    def __init__(self, site, cls):
        self.site, self.cls = site, cls

    def __enter__(self):
        from pyplumio.frames.responses import PasswordResponse
        from pyplumio.stream import FrameReader
        cls = self.cls
        if self.site == "d":
            self.owner, self.name = PasswordResponse, "decode_message"
            orig = PasswordResponse.decode_message

            def decode_message(fr, message):
                if bytes(message) == BOOM:
                    raise make(cls)
                return orig(fr, message)
            self.orig = PasswordResponse.__dict__.get("decode_message")
            PasswordResponse.decode_message = decode_message
        else:
            self.owner, self.name = FrameReader, "read"
            orig = FrameReader.read

            async def read(rd):
                fr = await orig(rd)
                if fr is not None and bytes(fr.message) == BOOM:
                    raise make(cls)
                return fr
            self.orig = FrameReader.__dict__.get("read")
            FrameReader.read = read
        return self

    def __exit__(self, *a):
        if self.orig is not None:
            setattr(self.owner, self.name, self.orig)
        else:
            delattr(self.owner, self.name)
        return False


def run_one(site, cls, log, consumers=3):
    from pyplumio.protocol import AsyncProtocol
    seen = []
    with c09_logging.Logging(log), Fault(site, cls), pipefake.Driven() as loop:
        proto = AsyncProtocol(consumers_count=consumers)
        reader, writer = asyncio.StreamReader(), pipefake.FakeWriter()
        lost = []

        async def on_lost():
            lost.append(1)

        proto.on_connection_lost.add(on_lost)
        loop.call_soon(proto.connection_established, reader, writer)
        loop.settle()
        reader.feed_data(fg.mk(PASSWORD, b"\x040000", rcpt=ECONET, sender=ECOMAX))
        loop.settle()
        dev = proto.data.get("ecomax")
        if dev is None:
            return dict(fate="no-device")

        async def on_password(v):
            seen.append(v)

        dev.subscribe("password", on_password)
        reader.feed_data(fg.mk(PASSWORD, BOOM, rcpt=ECONET, sender=ECOMAX) + fg.mk(PASSWORD, b"\x040001", rcpt=ECONET, sender=ECOMAX)
                         + fg.mk(CD_REQ, b"", rcpt=ECONET, sender=ECOMAX))
        loop.settle()
        for _ in range(4):
            reader.feed_data(IDLE)
            loop.settle()
        answered = sum(1 for b in writer.frames if len(b) >= 10 and b[7] == DA_RESP)
        tasks = list(proto.tasks)
        alive = sum(1 for t in tasks if t.get_name().startswith("frame_consumer") and not t.done())
        producer_done = any(t.get_name().startswith("frame_producer") and t.done() for t in tasks) or not any(
            t.get_name().startswith("frame_producer") for t in tasks)
        died = [type(t.exception()).__name__ for t in tasks if t.done() and not t.cancelled() and t.exception() is not None]
        unfinished = proto._queues.read._unfinished_tasks
        o = dict(lost=len(lost), later_delivered="0001" in [str(x) for x in seen], answered=answered, consumers_alive=alive,
                 producer_done=producer_done, died=died, unfinished=unfinished, boom_delivered="BOOM" in [str(x) for x in seen])
        if lost:
            o["fate"] = "lost"
        elif died or alive != consumers or producer_done:
            o["fate"] = "dies"
        elif o["later_delivered"] and answered == 1 and unfinished == 0 and not o["boom_delivered"]:
            o["fate"] = "dropped"
        else:
            o["fate"] = "other"
        return o


def run_section(res, rng, tier):
    classes = exception_classes()
    modes = ["info", "debug", "default", "debug-bare"]
    todo = []
    for i, cls in enumerate(classes):
        for site in ("d", "r"):
            for log in (modes if tier != "quick" else ["info", "debug"] + ([rng.choice(["default", "debug-bare"])] if i % 3 == 0 else [])):
                todo.append((site, cls, log))
    exp = driver_batch(f"c09exc {site} {family(cls)} {int(log.startswith('debug'))} {int(log in ('info', 'debug'))}" for site, cls, log in todo)
    for (site, cls, log), e in zip(todo, exp):
        o = run_one(site, cls, log, consumers=rng.choice([1, 2, 3]))
        name = f"{cls.__module__}.{cls.__qualname__}"
        res.case(("inject", site, name, log), nontrivial=True)
        res.count(f"injected {'decoder' if site == 'd' else 'reader.read()'} fault:{family(cls)} [{log}]")
        inp = dict(via="inject", site=site, exception=name, log=log)
        if o["fate"] != e:
            stmt = site == "d" or (e == "dropped")
            res.fail("spec" if stmt else "corr", inp, e, o,
                     ("a frame whose decoding raises %s is not simply dropped: " % name if site == "d" else "reader.read() raising %s: " % name)
                     + f"the pipeline's fate is '{o['fate']}', the clauses of the source (Contain.fate) say '{e}'"
                     + ("; the statement: an undecodable frame is dropped, later frames are delivered, requests answered, the connection keeps working" if stmt else ""))
    res.extra["injected_exception_classes"] = len(classes)
    res.rule += (f"; injected faults: the decoder of one frame / reader.read() raises each of {len(classes)} exception classes (every builtin subclass of "
                 "Exception, struct.error, asyncio's, pyplumio's) under INFO and DEBUG logging (thorough: all four configurations), fate compared with Contain.fate")


def replay_case(res, inp):
    cls = next((c for c in exception_classes() if f"{c.__module__}.{c.__qualname__}" == inp["exception"]), None)
    if cls is None:
        return
    log = inp["log"]
    e = driver_batch([f"c09exc {inp['site']} {family(cls)} {int(log.startswith('debug'))} {int(log in ('info', 'debug'))}"])[0]
    o = run_one(inp["site"], cls, log)
    res.case(("inject", inp["site"], inp["exception"], log), nontrivial=True)
    if o["fate"] != e:
        res.fail("spec" if inp["site"] == "d" or e == "dropped" else "corr", inp, e, o, f"fate '{o['fate']}', expected '{e}'")

"""The protocol-level part of C04 (and the back-pressure dimension of C09): a sequence of well-formed frames sent
back-to-back reaches the DEVICE — through a real AsyncProtocol: StreamReader → FrameReader → read queue → 1..5 frame
consumers → get_device_entry → device events — exactly as the statement says the reader delivers it: the frames
addressed to the library or broadcast, from a known sender and of a known kind, each once and IN ORDER, however the byte
stream is cut into arrival chunks and however arrival interleaves with the pipeline's progress; frames for other
recipients, from unknown senders or of unknown kind cost nothing.

The reader alone (harness/c04.py) cannot see what happens between `FrameReader.read()` and the device: a read queue that
drops frames when many pile up, consumers that overtake each other while the device entry is being created.  Dimensions:

  chunking   one chunk / frame by frame with the loop run in between / random cuts fed at once / random cuts with the loop
             run in between / fixed 7-byte chunks fed at once
  timing     the device class of the sender still loading while the whole sequence arrives (every consumer held up, the
             frames pile up in the read queue) or not; a subscriber of the protocol's device event that suspends or not
  size       5..40 frames, and BURSTS of 300..1200 frames in one chunk while the consumers are held (larger than any
             plausible queue bound)
  consumers  1..5

Observed at the device's `password` event (every deliverable frame is a password response carrying its sequence number).
"""
import asyncio
import json

import framegen as fg
import pipefake

ECOMAX, ECONET, ALL = 69, 86, 0
PASSWORD = 186
CHUNKINGS = ["one-chunk", "frame-by-frame", "random-cuts-at-once", "random-cuts-paced", "7-byte-at-once"]


def build(rng, n):
    """-> (list of wire frames, expected texts in order)"""
    frames, exp, mk = [], [], 0
    for _ in range(n):
        r = rng.random()
        if r < 0.62:
            text = b"%05d" % mk
            mk += 1
            frames.append(fg.mk(PASSWORD, bytes([len(text)]) + text, rcpt=rng.choice([ECONET, ECONET, ALL]), sender=ECOMAX))
            exp.append(text.decode())
        elif r < 0.78:      # for another recipient (payload salted with start delimiters, checksum byte may be 0x68)
            frames.append(fg.mk(rng.choice([PASSWORD, 8, 53]), fg.salted_payload(rng, rng.randint(0, 20)), rcpt=rng.choice([1, 69, 81, 0x68]), sender=ECOMAX))
        elif r < 0.9:       # unknown sender
            frames.append(fg.mk(PASSWORD, b"\x04evil", rcpt=ECONET, sender=rng.choice([a for a in (7, 1, 200) if a not in fg.DEVICES])))
        else:               # unknown kind
            frames.append(fg.mk(rng.choice([k for k in (99, 3, 250) if k not in fg.FRAME_TYPES]), fg.salted_payload(rng, rng.randint(0, 12)), rcpt=ECONET, sender=ECOMAX))
    return frames, exp


def cuts_for(rng, name, frames):
    s = b"".join(frames)
    if name == "one-chunk":
        return [s], False
    if name == "frame-by-frame":
        return list(frames), True
    if name == "7-byte-at-once":
        return [s[i:i + 7] for i in range(0, len(s), 7)], False
    k = rng.randint(1, max(1, min(40, len(s) // 9)))
    pts = sorted(rng.sample(range(1, len(s)), min(k, len(s) - 1)))
    return [s[a:b] for a, b in zip([0] + pts, pts + [len(s)])], name == "random-cuts-paced"


def run_case(case):
    from pyplumio.protocol import AsyncProtocol
    seen = []
    with pipefake.Driven(hold_devices=bool(case["hold"])) as loop:
        proto = AsyncProtocol(consumers_count=case["consumers"])
        reader = asyncio.StreamReader(limit=2 ** 22)
        devices = []

        async def on_device(dev):
            devices.append(dev)
            if case.get("cbsusp"):
                await asyncio.sleep(0)

            async def on_password(v):
                seen.append(v)
            dev.subscribe("password", on_password)

        proto.subscribe("ecomax", on_device)
        loop.call_soon(proto.connection_established, reader, pipefake.FakeWriter())
        loop.settle()
        for ch in case["chunks"]:
            reader.feed_data(bytes.fromhex(ch))
            if case["paced"]:
                loop.settle()
        loop.settle()
        piled = proto._queues.read.qsize()
        guard = 0
        while loop.held and guard < 16:
            loop.hold_devices = False
            loop.release(0)
            loop.settle()
            guard += 1
        loop.settle()
        return dict(seen=[str(x) for x in seen], piled_up=piled, devices=len(devices), unfinished=proto._queues.read._unfinished_tasks)


def gen_cases(rng, tier):
    sizes = [rng.choice([5, 8, 12, 20, 40]) for _ in range(60 if tier == "quick" else 1500)]
    for i, n in enumerate(sizes):
        frames, exp = build(rng, n)
        name = CHUNKINGS[i % len(CHUNKINGS)]
        chunks, paced = cuts_for(rng, name, frames)
        yield dict(chunks=[c.hex() for c in chunks], paced=paced, hold=(i // 5) % 2 == 0, cbsusp=(i // 10) % 2, consumers=1 + i % 5,
                   chunking=name, nframes=n, expected=exp)
    # bursts in ONE chunk (and cut at random, fed at once) while every consumer is held up in the first device creation
    for i, n in enumerate([300, 450, 1200] if tier == "quick" else [300, 450, 700, 1200, 2500, 5000]):
        frames, exp = build(rng, n)
        name = ["one-chunk", "random-cuts-at-once", "7-byte-at-once"][i % 3]
        chunks, paced = cuts_for(rng, name, frames)
        yield dict(chunks=[c.hex() for c in chunks], paced=False, hold=True, cbsusp=i % 2, consumers=[3, 1, 5][i % 3], chunking=name,
                   nframes=n, expected=exp, burst=True)


def evaluate(res, cases, tag):
    for c in cases:
        o = run_case(c)
        res.case(("wire", "".join(c["chunks"]), tuple(len(x) for x in c["chunks"]) if len(c["chunks"]) < 50 else c["chunking"], c["hold"], c["consumers"],
                  c.get("cbsusp", 0)), nontrivial=True)
        res.count("through-the-protocol chunking:" + c["chunking"])
        res.count("through-the-protocol: " + ("consumers held while the sequence arrives" if c["hold"] else "consumers free"))
        if c.get("burst"):
            res.count(f"through-the-protocol burst of {c['nframes']} frames, {o['piled_up']} piled up in the read queue")
        if o["seen"] != c["expected"]:
            inp = dict(via="wire", **{k: v for k, v in c.items() if k not in ("expected",)})
            if len(json.dumps(inp)) > 200000:
                inp["chunks"] = ["".join(c["chunks"])]      # the whole stream as one chunk is the same input class for a burst
            exp, got = c["expected"], o["seen"]
            k = next((i for i, (a, b) in enumerate(zip(exp, got)) if a != b), min(len(exp), len(got)))
            what = ("delivered out of order" if sorted(got) == sorted(exp) else
                    f"{len(exp) - len(set(got) & set(exp))} deliverable frame(s) never reached the device" if len(set(got)) < len(set(exp)) or len(got) < len(exp)
                    else "a frame was delivered more than once / a frame that is not deliverable was delivered")
            res.fail("spec", inp, dict(delivered_in_order=exp[:k + 3] if len(exp) > 40 else exp, count=len(exp)),
                     dict(delivered=got[max(0, k - 2):k + 6] if len(got) > 40 else got, count=len(got), first_difference_at=k, piled_up=o["piled_up"]),
                     "a sequence of well-formed frames, received through the protocol, does not reach the device as exactly the "
                     "deliverable frames, each once and in order: " + what)
        elif o["unfinished"] != 0:
            res.fail("corr", dict(via="wire", **{k: v for k, v in c.items() if k != "expected"}), 0, o["unfinished"], "read queue not balanced after the sequence")


def run_section(res, rng, tier, tag):
    evaluate(res, list(gen_cases(rng, tier)), tag)
    res.rule += ("; through the protocol: the same kind of sequences (deliverable / foreign recipient / unknown sender / unknown kind) fed to a real "
                 "AsyncProtocol under 5 chunkings x consumers held in the first device creation or free x 1..5 consumers x suspending "
                 "device-event subscriber, bursts of 300..1200 frames in one chunk while the consumers are held; delivery observed at the device's "
                 "event, in order")


def replay_case(res, inp, tag):
    c = {k: v for k, v in inp.items() if k != "via"}
    if "expected" not in c:
        # recompute the expectation from the bytes: deliverable = recipient 86/0, sender 69, kind password
        s = bytes.fromhex("".join(c["chunks"]))
        exp, i = [], 0
        while i + 10 <= len(s):
            n = s[i + 1] | (s[i + 2] << 8)
            fr = s[i:i + n]
            if fr[3] in (ECONET, ALL) and fr[4] == ECOMAX and fr[7] == PASSWORD:
                exp.append(fr[9:9 + fr[8]].decode())
            i += n
        c["expected"] = exp
    evaluate(res, [c], tag)

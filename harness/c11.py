"""C11 correspondence: Connection / AsyncProtocol across loss and reconnect vs the Lean
connection machine (Model/Conn.lean), and the property's own predicate (connspec.spec_c11)
judged on what the implementation did.

Partial by nature: real sockets / serial ports are replaced by scripted faults (fake
transports, scripted `_open_connection` results); asyncio itself is exercised, not modelled.
"""
import itertools
import json
import os
import random

from common import VERIF, Result, load_corpus, use_repo

use_repo()

import connhist  # noqa: E402
import connrun  # noqa: E402
import connspec  # noqa: E402

FAULTS = {
    "eof": ["X"],
    "exc": ["X~exc"],
    "eofmid": ["XM"],
    "eofhdr": ["XM~hdr"],
    "timeout": ["A:10037"],
    "wraise": ["Q:1", "D:r", "F:f"],
    "whang": ["Q:1", "D:h", "F:f", "A:10037"],
}


def recover_events(fails, close_mode):
    """virtual time needed for `fails` failed attempts (each e: 20 s, h: 25 s), plus a hung wait_closed"""
    evs = []
    if close_mode == "h":
        evs.append("A:10037")
    for f in fails:
        evs.append("A:20037" if f == "e" else "A:26037")
    return evs


def structured(tier):
    """systematic histories: fault kind x position of the fault x failed attempts x wait_closed mode x cycles"""
    quick = tier == "quick"
    ks = [0, 1, 2] if quick else [0, 1, 2, 3, 5]
    fail_sets = [(), ("e",), ("h",), ("e", "e"), ("e", "h", "e")] if quick else \
        [(), ("e",), ("h",), ("e", "e"), ("h", "h"), ("e", "h", "e"), ("e",) * 4, ("h", "e", "e", "h", "e")]
    cms = ["o", "r", "h"]
    cycles_opts = [1, 3] if quick else [1, 2, 4]
    cfgs = [3] if quick else [1, 2, 3, 4]
    for fault, k, fails, cm, cycles, cfg in itertools.product(FAULTS, ks, fail_sets, cms, cycles_opts, cfgs):
        if quick and cycles == 3 and (cm != "o" or k == 2):
            continue
        script = ["oo" + cm]
        evs = ["C", "F:p:69"]
        for c in range(cycles):
            traffic = (["F:s:1:1", "F:f", "F:p:81", "F:b", "F:p:69"] * 2)[:k]
            evs += traffic + FAULTS[fault]
            script += list(fails) + ["oo" + cm]
            evs += recover_events(fails, cm)
            evs += ["A:537", "F:p:69", "F:f"]
        yield (cfg, 1, script, evs)
    # the library's own connection classes on a scripted network (asyncio.open_connection / open_serial_connection
    # answer ok / raise / never): refused, hung (CONNECT_TIMEOUT) and successful attempts, first connect and reconnects
    for kind in ("t", "s"):
        for fails in ((), ("h",), ("e",), ("e", "h"), ("h", "h", "e")):
            for fault in ("eof", "timeout", "wraise"):
                evs = [f"K:{kind}", "C", "F:p:69"] + FAULTS[fault] + recover_events(fails, "o") + ["A:537", "F:p:69", "F:f"]
                yield (3, 1, ["ooo"] + list(fails) + ["ooo"], evs)
        for first in ("h", "e"):
            yield (3, 1, [first, "ooo"], [f"K:{kind}", "C", "A:5037", "A:20037", "F:p:69", "X", "A:537", "F:p:69"])
            yield (2, 0, [first, "ooo"], [f"K:{kind}", "C", "A:5037", "A:1037", "C", "F:p:69"])
    # the peer stalls at every cut point of a frame (before the delimiter, inside the header, right after it, inside
    # the body, before the last byte): the read in progress must time out READER_TIMEOUT after it STARTED
    for k in range(0, 15):
        for w in (37, 3037, 8037):
            for rc in ((1, 0) if k in (0, 7, 9) else (1,)):
                evs = ["C", "F:p:69", f"A:{w}", f"S:{k}", "A:10037", "A:537"] + (["F:p:69", "F:f"] if rc else ["C", "F:p:69"])
                yield (3, rc, ["ooo", "ooo", "ooo"], evs)
    # the connection object is used AGAIN: session 1 (traffic, optionally a loss that recovers), close() [twice], connect()
    # again - plain or through the context manager (`async with`) - traffic, then a loss in the SECOND session with failed
    # attempts before it recovers; also close() before the very first connect()
    for fault in FAULTS:
        for fails in ((), ("e",), ("h", "e")):
            for variant, first_loss, twice in (("", 0, 0), ("~ctx", 1, 0), ("", 1, 1), ("~ctx", 0, 1)):
                script = ["ooo"] + (["ooo"] if first_loss else []) + ["ooo"] + list(fails) + ["ooo"]
                evs = ["C" + variant, "F:p:69", "F:f"]
                if first_loss:
                    evs += ["X", "A:537", "F:p:69"]
                evs += ["Z" + variant] + (["Z"] if twice else []) + ["A:1037", "C" + variant, "F:p:69", "F:p:81"]
                evs += FAULTS[fault] + recover_events(fails, "o") + ["A:537", "F:p:69", "F:p:81", "F:f", "A:11037", "A:537", "F:p:69"]
                yield (3, 1, script, evs)
        yield (2, 1, ["ooo", "ooo"], ["Z", "A:537", "C", "F:p:69"] + FAULTS[fault] + ["A:537", "F:p:69", "A:11037"])
        yield (3, 0, ["ooo", "ooo", "ooo"], ["C", "F:p:69", "Z", "C", "F:p:69"] + FAULTS[fault] + ["A:11037", "C", "F:p:69"])
    # a LONG outage: 1300 consecutive failed attempts (7 h at the 20 s back-off) before one succeeds, and a shorter one with
    # hung attempts; every attempt must happen, at its back-off deadline, and the connection recovers
    yield (3, 1, ["ooo"] + ["e"] * 1300 + ["ooo"], ["C", "F:p:69", "X"] + ["A:20037"] * 1301 + ["A:537", "F:p:69", "F:f"])
    yield (2, 1, ["ooo"] + ["e", "h"] * 40 + ["ooo"], ["C", "F:p:69", "A:10037"] + ["A:20037", "A:26037"] * 40 + ["A:20037", "A:537", "F:p:69"])
    # reconnect off: loss is announced, nothing reconnects, a later connect() works again
    for fault in FAULTS:
        for first in ("ooo", "e", "h"):
            evs = ["C", "A:6037", "C", "F:p:69", "F:s:1:1"] + FAULTS[fault] + ["A:21037", "A:21037", "C", "F:p:69"]
            yield (3, 0, [first, "ooo", "ooo"], evs)


def randomized(rng, n):
    W = dict(F=10, A=8, X=2.5, D=1.2, W=0.8, Q=1.5, P=0.8, C=0.4)
    for _ in range(n):
        cfg = rng.choice([1, 2, 3, 3, 4])
        rc = rng.choice([1, 1, 1, 0])
        script = connhist.gen_script(rng, rng.randint(0, 10))
        evs = ["C"] + [connhist.gen_event(rng, W) for _ in range(rng.randint(3, 40))]
        k = rng.random()
        if k < 0.2:
            evs = [rng.choice(["K:t", "K:s"])] + evs
        yield (cfg, rc, script, evs)


def check_tables(res):
    p = os.path.join(VERIF, "build", "tables.json")
    try:
        with open(p) as f:
            c = json.load(f)["consts"]
        got = (c["readerTimeout"] * 1000, c["writerTimeout"] * 1000, c["connectTimeout"] * 1000, c["reconnectTimeout"] * 1000)
        if got != (connspec.RT, connspec.WT, connspec.CT, connspec.BT):
            res.notes.append(f"timeouts of the source {got} differ from the statement's (10 s, 10 s, 5 s, 20 s)")
    except Exception as e:  # noqa: BLE001
        res.notes.append(f"tables.json not readable: {e}")


def evaluate(res, hists, labels):
    impl = [connhist.run_impl(h) for h in hists]
    model = connhist.model_batch(hists)
    for h, lab, (segs, extras, info), m in zip(hists, labels, impl, model):
        line = connhist.fmt_line(h)
        states = [connrun.parse_state(s) for s in segs]
        nontrivial = any(("wclose" in s) for s in segs)
        res.case(line, nontrivial)
        res.count("source:" + lab)
        res.count("reconnect:" + ("on" if h[1] else "off"))
        nloss = sum(s.count("/wclose/") for s in segs)
        res.count("losses:" + (str(nloss) if nloss < 4 else "4+"))
        nfail = sum(s.count("/open/1") + s.count("/open/2") for s in segs)
        res.count("failed-opens:" + (str(nfail) if nfail < 4 else "4+"))
        for e in h[3]:
            res.count("event:" + e.split(":")[0].split("~")[0])
        if info.get("error"):
            res.fail("spec", dict(history=line), "the library settles after every event",
                     "the implementation could not be driven further: " + info["error"], "the library reaches quiescence after every event")
            continue
        if m is None:
            res.fail("corr", dict(history=line), "a model answer", "bad-op", "the model driver rejected the history")
            continue
        if connhist.has_tie(m, len(segs)):
            res.count("skipped:timer-tie")
            continue
        for clause, detail in connspec.spec_c11(h, segs, extras, states):
            res.fail("spec", dict(history=line), clause, detail, clause)
        d = connhist.first_diff(segs, m)
        if d is not None:
            res.fail("corr", dict(history=connhist.fmt_line((h[0], h[1], h[2], h[3][:d + 1])), event=h[3][d], index=d),
                     m[d] if d < len(m) else None, segs[d], "connection machine model and implementation differ")
        if len(res.samples) < 5 and nloss >= 1 and lab != "corpus":
            if not any(x.get("source") == lab for x in res.samples):
                res.sample(dict(source=lab, history=line, observed=segs[:12]))


def run(ctx):
    rng = random.Random(ctx["seed"] * 104729 + 11)
    res = Result("C11")
    res.rule = ("histories of the connection machine: connect, traffic (password / sensor data / foreign / malformed frames), "
                "a fault (EOF, reader exception, EOF inside a frame, read timeout by virtual time through the real @timeout, "
                "drain() raising, drain() hanging), scripted open results (ok / OSError / hang) with virtual time for the "
                "back-off, repeated cycles; systematic product (fault kind x fault position x failed attempts x wait_closed "
                "mode x cycles x consumers_count), 'gated' histories (loss while frame consumers are mid-frame behind a slow "
                "subscriber of the protocol's new-device event, released before / during / after the outage), stalls of the peer at "
                "every cut point of a frame, the library's TcpConnection / SerialConnection on a scripted network (open answers ok / raises / "
                "never returns), frames with an undecodable payload, plus seeded random histories; distinct = distinct history text; "
                "non-trivial = at least one connection loss was handled (a transport was closed)")
    check_tables(res)
    hists, labels = [], []
    for fn, ln in load_corpus("C11"):
        hists.append(connhist.parse_line(ln))
        labels.append("corpus")
    for h in structured(ctx["tier"]):
        hists.append(h)
        labels.append("structured")
    for h in connhist.gated_histories(ctx["tier"]):
        hists.append(h)
        labels.append("gated")
    n = 3000 if ctx["tier"] == "quick" else 40000
    for h in randomized(rng, n):
        hists.append(h)
        labels.append("random")
    if ctx.get("max_cases"):
        hists, labels = hists[:ctx["max_cases"]], labels[:ctx["max_cases"]]
    # evaluate in blocks (bounded memory, one driver batch per block)
    B = 400
    for i in range(0, len(hists), B):
        evaluate(res, hists[i:i + B], labels[i:i + B])
        if len(res.failures) >= 150:
            res.notes.append(f"stopped after {i + B} histories: {len(res.failures)} failures already")
            break
    res.extra["partial"] = "real sockets / serial errors are replaced by scripted faults on fake transports"
    return res


def replay(ctx):
    rp = ctx["replay"]
    f = rp.get("failure") or rp.get("first_difference")
    h = connhist.parse_line(f["input"]["history"])
    res = Result("C11")
    res.rule = "replay of one recorded history"
    evaluate(res, [h], ["replay"])
    segs, _, _ = connhist.run_impl(h)
    res.sample(dict(history=connhist.fmt_line(h), observed=segs))
    return res

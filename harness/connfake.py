"""Fake transports and a scripted Connection subclass for C11 / C12.

`ScriptedConnection` overrides the public extension point `_open_connection` (decorated with
the real `@timeout(CONNECT_TIMEOUT)` exactly as TcpConnection / SerialConnection do) and
answers each call from a script: 'ok' (a real asyncio.StreamReader + FakeWriter), 'err'
(raise OSError) or 'hang' (never completes: the real CONNECT_TIMEOUT fires under virtual time).
Real sockets / serial ports are NOT exercised: every I/O fault is scripted.
"""
import asyncio
import struct

from common import use_repo

use_repo()

from pyplumio.connection import CONNECT_TIMEOUT, Connection  # noqa: E402
from pyplumio.helpers.timeout import timeout  # noqa: E402

import framegen as fg  # noqa: E402


def _now_ms():
    return int(round(asyncio.get_running_loop().time() * 1000))


class FakeWriter:
    """Stands in for asyncio.StreamWriter (write / drain / close / wait_closed)."""

    def __init__(self, tid, log):
        self.tid = tid
        self.log = log  # shared list of ("tx", tid, kind, t_ms) / ("close", tid, t_ms) / ("open", t, result)
        self.frames = []
        self.closed = 0
        self.drain_mode = "ok"  # ok | raise | hang
        self.close_mode = "ok"  # ok | raise | hang

    def write(self, b):
        b = bytes(b)
        self.frames.append(b)
        self.log.append(("tx", self.tid, b[7] if len(b) > 7 else -1, _now_ms()))

    async def drain(self):
        if self.drain_mode == "raise":
            raise ConnectionResetError("scripted write fault")
        if self.drain_mode == "hang":
            await asyncio.get_running_loop().create_future()

    def close(self):
        self.closed += 1
        self.log.append(("close", self.tid, _now_ms()))

    def is_closing(self):
        return bool(self.closed)

    async def wait_closed(self):
        if self.close_mode == "raise":
            raise OSError("scripted close fault")
        if self.close_mode == "hang":
            await asyncio.get_running_loop().create_future()


class ScriptedConnection(Connection):
    """Connection whose open routine is scripted."""

    def __init__(self, script=(), default="ok", **kw):
        super().__init__(**kw)
        self.script = list(script)
        self.default = default
        self.opens = []  # (virtual time, result)
        self.readers = []
        self.writers = []
        self.log = []

    @timeout(CONNECT_TIMEOUT)
    async def _open_connection(self):
        return await scripted_open(self)


async def scripted_open(conn):
    """one scripted open: `conn` carries script / default / opens / readers / writers / log"""
    loop = asyncio.get_running_loop()
    r = conn.script.pop(0) if conn.script else conn.default
    conn.opens.append((loop.time(), r))
    conn.log.append(("open", loop.time(), r))
    if r == "err":
        raise OSError("scripted open failure")
    if r == "hang":
        await loop.create_future()
    reader = asyncio.StreamReader()
    writer = FakeWriter(len(conn.writers), conn.log)
    conn.readers.append(reader)
    conn.writers.append(writer)
    return reader, writer


# ---- frames (built from the wire layout, independent of pyplumio's encoder) -------------

NAN = struct.pack("<I", 0x7FC00000)


def sensor_payload(mixers=0, thermostats=0, versions=()):
    """Minimal sensor-data payload with `mixers` mixer blocks and `thermostats` thermostat blocks
    (indexes 0..n-1 in both sections, so they overlap); `versions`: the frame-version table, (frame type, version) pairs."""
    b = bytearray()
    b.append(len(versions))  # frame versions: count, then type (1 byte) + version (u16 LE) each
    for ftype, ver in versions:
        b.append(ftype)
        b += struct.pack("<H", ver)
    b.append(3)  # state
    b += struct.pack("<I", 0)  # outputs
    b += struct.pack("<I", 0)  # output flags
    b.append(0)  # temperatures
    b += bytes(4)  # statuses
    b.append(0)  # pending alerts
    b.append(255)  # fuel level undefined
    b.append(0)  # transmission
    b += NAN  # fan power
    b.append(255)  # boiler load
    b += NAN  # boiler power
    b += NAN  # fuel consumption
    b.append(0)  # thermostat
    b += bytes([255] * 6)  # modules (6 entries, all undefined)
    b.append(255)  # lambda
    if thermostats:
        b += bytes([0, thermostats])
        for _ in range(thermostats):
            b.append(0)
            b += struct.pack("<f", 20.0)
            b += struct.pack("<f", 21.0)
    else:
        b.append(255)
    b.append(mixers)
    for _ in range(mixers):
        b += struct.pack("<f", 30.0)
        b += bytes([40, 0, 1, 0])
    return bytes(b)


def sensor_frame(mixers=0, thermostats=0, sender=69, versions=()):
    return fg.mk(53, sensor_payload(mixers, thermostats, versions), 86, sender)


def password_frame(sender=69):
    return fg.mk(186, b"\x040000", 86, sender)


def foreign_frame():
    """valid frame addressed to somebody else: read() returns None (a completed read, nothing queued)"""
    return fg.mk(186, b"\x040000", 1, 69)


def bad_frame():
    """checksum error: read() raises a ProtocolError (a completed read)"""
    f = bytearray(password_frame())
    f[-2] ^= 0x5A
    return bytes(f)


# ---- running the virtual loop from outside (one external event, then quiescence) ---------

def settle(loop, until=None, max_iter=200000):
    """loop.settle() with the loop registered as the running loop (pyplumio code calls
    asyncio.get_running_loop / create_task while we step the loop by hand)."""
    from asyncio import events

    events._set_running_loop(loop)
    try:
        loop.settle(until, max_iter=max_iter)
    finally:
        events._set_running_loop(None)

"""CPU watchdog for one harness step ("one external event, then run to quiescence").

A received frame whose handling monopolises the interpreter (e.g. a regular expression that
backtracks exponentially on the text a payload carries) never lets the event loop come back:
nothing is delivered or answered afterwards.  From inside the process that shows as a step that
does not end.  `with Watchdog(bound) as w:` arms the process's *virtual* interval timer (user CPU
time of this process only: machine load, a suspended VM or the Lean driver running beside the
harness do not count) and raises `Stall` inside whatever code is running when the bound is used up
(CPython's `re` engine, `struct`, `bytes.decode` … all poll for signals).  `w.fired` tells the
harness that the step was cut short; the harness reports that as a failure of the statement with the
input of the step as the failing input, abandons the case and goes on.

`Stall` derives from BaseException: the library's `except Exception` containment (frame consumer)
must not swallow it.  An asyncio task that was running when it fired stores it as its exception (the
task dies, the loop itself survives), which is why `fired` and not the propagation of the exception
is what the harness looks at.

The bound is generous on purpose: normal handling of a frame costs well under 10 ms; the default is
5 s of CPU per step plus 20 ms per frame fed in that step (`VERIF_STALL_CPU_S` overrides the 5).
"""
import os
import signal

BASE_S = float(os.environ.get("VERIF_STALL_CPU_S", "5"))
PER_FRAME_S = 0.02


class Stall(BaseException):
    """the step used up its CPU bound"""


def bound(nframes=1):
    return BASE_S + PER_FRAME_S * max(0, nframes)


class Watchdog:
    def __init__(self, cpu_s=None):
        self.cpu_s = bound() if cpu_s is None else cpu_s
        self.fired = False
        self._old = None
        self._closing = False

    def _handler(self, signum, frame):
        if self._closing:
            return
        self.fired = True
        raise Stall(f"step used more than {self.cpu_s:.1f} s of CPU")

    def __enter__(self):
        self.fired = False
        self._closing = False
        self._old = signal.signal(signal.SIGVTALRM, self._handler)
        # after the first expiry the timer keeps firing at short intervals: a task that was cut short stores the exception
        # and the loop goes on to the next ready task, which may stall in the same way
        signal.setitimer(signal.ITIMER_VIRTUAL, self.cpu_s, 0.25)
        return self

    def __exit__(self, et, ev, tb):
        self._closing = True
        signal.setitimer(signal.ITIMER_VIRTUAL, 0)
        signal.signal(signal.SIGVTALRM, self._old if self._old is not None else signal.SIG_DFL)
        return et is not None and issubclass(et, Stall)

"""Shared plumbing for the correspondence harnesses (runs under /venv/bin/python)."""
import collections
import json
import os
import subprocess
import sys
import tempfile

VERIF = os.path.dirname(os.path.dirname(os.path.abspath(__file__)))
REPO = os.environ.get("VERIF_REPO", "/repo")
LEAN_DIR = os.path.join(VERIF, "lean")
DRIVER = os.environ.get("VERIF_DRIVER") or os.path.join(LEAN_DIR, ".lake", "build", "bin", "driver")


def use_repo():
    """Import pyplumio from the repository under test, never from site-packages."""
    if REPO not in sys.path:
        sys.path.insert(0, REPO)
    import pyplumio

    real = os.path.realpath(pyplumio.__file__)
    assert real.startswith(os.path.realpath(REPO) + os.sep), (real, REPO)
    import logging

    logging.disable(logging.CRITICAL)
    return pyplumio


class DriverError(Exception):
    pass


def driver_batch(lines):
    """Send request lines to the Lean model driver, return one answer per line."""
    lines = list(lines)
    if not lines:
        return []
    for ln in lines:
        assert "\n" not in ln
    if os.path.exists(DRIVER):
        cmd = [DRIVER]
    else:  # fallback: interpreted
        cmd = ["lake", "env", "lean", "--run", "Main.lean"]
    with tempfile.TemporaryFile("w+") as f:
        f.write("\n".join(lines) + "\n")
        f.flush()
        f.seek(0)
        p = subprocess.run(cmd, stdin=f, stdout=subprocess.PIPE, stderr=subprocess.PIPE, cwd=LEAN_DIR, text=True)
    if p.returncode != 0:
        raise DriverError(f"driver exit {p.returncode}: {p.stderr[-2000:]}")
    out = p.stdout.split("\n")
    if out and out[-1] == "":
        out.pop()
    if len(out) != len(lines):
        raise DriverError(f"driver answered {len(out)} lines for {len(lines)} requests")
    return out


def hexs(b):
    b = bytes(b)
    return b.hex() if b else "-"


class Result:
    """Accumulates what a harness run covered and what failed."""

    def __init__(self, prop):
        self.prop = prop
        self.evaluations = 0
        self.nontrivial = set()
        self.samples = []
        self.dist = collections.Counter()
        self.failures = []
        self.notes = []
        self.rule = ""
        self.exhaustive = False
        self.extra = {}

    def count(self, key, n=1):
        self.dist[key] += n

    def case(self, fingerprint=None, nontrivial=True):
        self.evaluations += 1
        if nontrivial and fingerprint is not None:
            self.nontrivial.add(fingerprint)

    def sample(self, s, limit=6):
        if len(self.samples) < limit:
            self.samples.append(s)

    def fail(self, kind, input_, expected, observed, clause, **kw):
        """kind: 'spec' (the property's own predicate fails on what the implementation did:
        a concrete failing input) or 'corr' (model and implementation differ)."""
        # the cap is per kind: a broken correspondence that shows on every input must not crowd out the concrete
        # failing inputs of the property (kind 'spec') that are found later in the same run
        self._nkind = getattr(self, "_nkind", collections.Counter())
        key = (kind, kw.get("finding"))     # ... nor must the reproductions of an open finding
        self._nkind[key] += 1
        if self._nkind[key] <= 200:
            self.failures.append(dict(kind=kind, input=input_, expected=expected, observed=observed, clause=clause, **kw))
        else:
            self.extra["failures_truncated"] = True

    def to_json(self):
        return dict(
            property_id=self.prop,
            evaluations=self.evaluations,
            distinct_nontrivial=len(self.nontrivial),
            rule=self.rule,
            samples=self.samples,
            distribution={str(k): v for k, v in sorted(self.dist.items(), key=lambda kv: str(kv[0]))},
            failures=self.failures,
            notes=self.notes,
            exhaustive=self.exhaustive,
            extra=self.extra,
        )


class Parts:
    """Run the independent parts of a harness one after the other.  A part that aborts (an exception the
    harness, written against the unchanged tree, does not expect) must not throw away the concrete failing
    inputs the other parts found: the abort is kept, the remaining parts still run, and `finish()`
      * re-raises the first abort when no part recorded a failing input of the property (check.py then
        decides between machinery error and broken correspondence exactly as before), or
      * records every abort as a broken correspondence beside the failing inputs."""

    def __init__(self, res):
        self.res = res
        self.aborted = []

    def run(self, name, fn, *a, **kw):
        import traceback
        try:
            return fn(*a, **kw)
        except DriverError:
            raise
        except Exception as e:  # noqa: BLE001
            self.aborted.append((name, e, traceback.format_exc()))
            return None

    def finish(self):
        if not self.aborted:
            return
        if not any(f["kind"] == "spec" and not f.get("finding") for f in self.res.failures):
            raise self.aborted[0][1]
        for name, e, tb in self.aborted:
            self.res.fail("corr", dict(part=name), "the part runs to completion (as on the unchanged tree)",
                          dict(raised=f"{type(e).__name__}: {e}", traceback_tail=tb.strip().splitlines()[-6:]),
                          "correspondence broken: a part of the harness aborted on this tree")


def load_corpus(prop):
    d = os.path.join(VERIF, "corpus", prop)
    out = []
    if os.path.isdir(d):
        for fn in sorted(os.listdir(d)):
            if fn.endswith(".txt"):
                with open(os.path.join(d, fn)) as f:
                    for ln in f:
                        ln = ln.split("#", 1)[0].strip()
                        if ln:
                            out.append((fn, ln))
    return out

"""Texts drawn from SHAPES, for every place where a received payload carries a string (UID model
name, service password, SSID of a device-available frame, null-terminated strings of regulator
data): not short random text but the families on which text processing (formatting, pattern
matching, splitting, decoding) changes its cost or its result —

  long runs of one letter / of mixed letters, words separated by single or repeated blanks,
  digits only, letters followed by 1, 2, 3 digits (with and without something after them),
  single letters between repeated separators (- _ . / blank), blanks / tabs only, two-character
  periods (ab, aA, a1, "a "), any of these followed by one odd tail character, multi-byte UTF-8,
  bytes that are not UTF-8 — each at lengths from a couple of dozen up to the wire limit of the
  field (255 for a length-prefixed string, what the frame can hold otherwise).

`shape(rng, limit)` -> (family, bytes) with len(bytes) <= limit.
"""

LETTERS = b"abcdefghijklmnopqrstuvwxyzABCDEFGHIJKLMNOPQRSTUVWXYZ"
SEPS = [b"-", b"_", b".", b"/", b" ", b"  ", b"\t", b"--", b". ", b" - "]
TAILS = [b"!", b"\n", b"\0", b"\xff", b"9", b" ", b"-", b"\xc5", b"Z"]
FAMILIES = ["one-letter", "letters", "words", "words-wide", "digits", "letters-digits", "sep-runs", "blank",
            "period2", "utf8", "not-utf8", "digits-letters"]


def lengths(limit):
    return sorted({n for n in (limit, limit - 1, limit // 2, 24, 30, 36, 45, 64, 100, 128, 200) if 0 < n <= limit})


def _fit(b, n):
    return bytes(b[:n])


def shape(rng, limit=255, family=None):
    fam = family or rng.choice(FAMILIES)
    n = rng.choice(lengths(limit))
    if fam == "one-letter":
        s = bytes([rng.choice(LETTERS)]) * n
    elif fam == "letters":
        s = bytes(rng.choice(LETTERS) for _ in range(n))
    elif fam in ("words", "words-wide"):
        out = bytearray()
        while len(out) < n:
            out += bytes(rng.choice(LETTERS) for _ in range(rng.randint(1, 8)))
            out += b" " if fam == "words" else rng.choice([b" ", b"  ", b"   ", b"\t", b" \t "])
        s = _fit(out, n).rstrip() if rng.random() < 0.5 else _fit(out, n)
    elif fam == "digits":
        s = bytes(rng.choice(b"0123456789") for _ in range(n))
    elif fam == "letters-digits":
        k = rng.choice([1, 2, 3, 4])
        after = rng.choice([b"", b"", b"P", b"-Z", b" "])
        body = n - k - len(after)
        sp = rng.choice([False, True])
        head = bytes((32 if sp and i % 7 == 6 else rng.choice(LETTERS)) for i in range(max(1, body)))
        s = _fit(head + bytes(rng.choice(b"0123456789") for _ in range(k)) + after, n)
    elif fam == "digits-letters":
        k = rng.choice([1, 3, 8])
        s = _fit(bytes(rng.choice(b"0123456789") for _ in range(k)) + bytes(rng.choice(LETTERS) for _ in range(n)), n)
    elif fam == "sep-runs":
        sep = rng.choice(SEPS)
        unit = bytes([rng.choice(LETTERS)]) + sep * rng.choice([1, 1, 2, 5])
        s = _fit(unit * (n // len(unit) + 1), n)
    elif fam == "blank":
        s = _fit(rng.choice([b" ", b"\t", b" \t", b"\r\n "]) * n, n)
    elif fam == "period2":
        unit = rng.choice([b"ab", b"aA", b"a1", b"a ", b"A.", b"1a", b"a\0"])
        s = _fit(unit * n, n)
    elif fam == "utf8":
        unit = rng.choice(["ż", "é", "ł ", "€", "日本", "á", "\U0001F525"]).encode()
        s = (unit * (n // len(unit)))[:n - n % len(unit) if n >= len(unit) else 0] or unit[:0]
    else:  # not-utf8
        s = bytes(rng.choice([0x80, 0xBF, 0xC0, 0xC5, 0xE2, 0xF5, 0xFF, 0x41]) for _ in range(n))
    if rng.random() < 0.25 and fam not in ("utf8",) and len(s) >= 2:
        s = s[:-1] + rng.choice(TAILS)[:1]
    assert len(s) <= limit, (fam, len(s), limit)
    return fam, bytes(s)

#!/venv/bin/python
"""usage: run.py <property> <tier> <seed> <out.json> [replay.json]
Runs one correspondence harness in-process against $VERIF_REPO and writes its result."""
import importlib
import json
import os
import sys
import time
import traceback

sys.path.insert(0, os.path.dirname(os.path.abspath(__file__)))


def main():
    prop, tier, seed, out = sys.argv[1], sys.argv[2], int(sys.argv[3]), sys.argv[4]
    replay = sys.argv[5] if len(sys.argv) > 5 else None
    t0 = time.time()
    try:
        mod = importlib.import_module(prop.lower())
        ctx = dict(tier=tier, seed=seed)
        if os.environ.get("VERIF_MAX_CASES"):
            ctx["max_cases"] = int(os.environ["VERIF_MAX_CASES"])
        if replay:
            with open(replay) as f:
                ctx["replay"] = json.load(f)
            res = mod.replay(ctx)
        else:
            res = mod.run(ctx)
        j = res.to_json()
        j["status"] = "ok"
    except Exception as e:  # noqa: BLE001
        j = dict(status="error", error=f"{type(e).__name__}: {e}", traceback=traceback.format_exc())
    j["harness_wall_s"] = round(time.time() - t0, 3)
    with open(out, "w") as f:
        json.dump(j, f, indent=1, default=str)
    return 0 if j["status"] == "ok" else 2


if __name__ == "__main__":
    sys.exit(main())

"""C05 (first half): sensor data message and regulator data vs the Lean layout model.

Well-formed stream: abstract messages are generated here, ENCODED BY THE LEAN DRIVER
(`c05s-encode`, `c05r-encode`: Lean holds the only description of the wire layout) which also
returns the value the message stands for; the bytes are decoded by the real frames
(`SensorDataMessage(message=...).data`, `RegulatorDataMessage` with / without an owning device)
and compared.  A difference there is a failure of the property statement itself (`spec`).
Malformed stream: truncations, byte mutations and random bytes, decoded by both sides
(`c05s-decode`, `c05r-decode`); value-or-error class is compared (`corr`).
Purity: every payload is decoded through `.data`, again on the same object, and on a fresh
object; the three results and the payload bytes before/after must be identical.
"""
import random
import struct

from common import Result, driver_batch, hexs, load_corpus, use_repo

use_repo()

import json  # noqa: E402

from pyplumio.frames.messages import SensorDataMessage  # noqa: E402

import c05_canon as canon  # noqa: E402

NAN_Q = 0x7FC00000
F32_SPECIALS = [NAN_Q, 0x7FA00000, 0xFFC00000, 0x7F800001, 0xFFFFFFFF, 0x7FFFFFFF,  # NaNs (quiet, signalling, negative)
                0x7F800000, 0xFF800000, 0x00000000, 0x80000000, 0x00000001, 0x80000001,  # inf, zeros, denormals
                0x7F7FFFFF, 0x00800000, 0x3F800000, 0xBF800000]


def f32(x):
    return struct.unpack("<I", struct.pack("<f", x))[0]


def rfloat(rng, p_nan=0.2):
    r = rng.random()
    if r < p_nan:
        return rng.choice([NAN_Q, NAN_Q, 0x7FA00000, 0xFFC12345])
    if r < p_nan + 0.1:
        return rng.choice(F32_SPECIALS)
    if r < p_nan + 0.2:
        return rng.getrandbits(32)
    if r < p_nan + 0.3:
        return f32(float(rng.randrange(-5, 100)))
    return f32(rng.uniform(-50, 120))


def count(rng, big=False):
    r = rng.random()
    if big and r < 0.02:
        return 255
    if r < 0.2:
        return 0
    if r < 0.5:
        return 1
    return rng.choice([2, 2, 3, 3, 4, 5, 8, 9, 12]) if r < 0.97 else rng.randrange(13, 60)


def rbyte(rng, avoid_ff=False):
    r = rng.random()
    if r < 0.15:
        v = rng.choice([0, 1, 0x7F, 0x80, 0xFE, 0xFF, 100, 101, 102, 254])
    else:
        v = rng.randrange(256)
    if avoid_ff and v == 0xFF:
        v = 0xFE
    return v


def gen_msg(rng, presence=None, big=False):
    """abstract sensor message; presence = 8 bits (modA, modB, modC, ecolambda, ecoster, panel, lambda, thermostats)"""
    if presence is None:
        presence = rng.getrandbits(8)
    m = {}
    nv = count(rng, big)
    kinds = [rng.randrange(256) for _ in range(3)] + [49, 50, 54, 61, 85]
    m["versions"] = [(rng.choice(kinds) if rng.random() < 0.5 else rng.randrange(256),
                      rng.choice([0, 1, 255, 256, 65535, rng.randrange(65536)])) for _ in range(nv)]
    m["state"] = rng.choice([rng.randrange(256), rng.randrange(0, 13), 12, 23, 11, 24])
    m["outputs"] = rng.choice([rng.getrandbits(32), 1 << rng.randrange(32), 0, 0xFFFFFFFF, rng.getrandbits(16)])
    m["flags"] = rng.choice([rng.getrandbits(32), 1 << rng.randrange(32), 0, 0xFFFFFFFF, rng.getrandbits(12)])
    nt = count(rng, big)
    m["temps"] = [(rng.choice([rng.randrange(17), rng.randrange(17), 16, 17, 18, rng.randrange(256)]), rfloat(rng)) for _ in range(nt)]
    m["statuses"] = [rbyte(rng) for _ in range(4)]
    m["alerts"] = [rbyte(rng) for _ in range(count(rng, big))]
    r = rng.random()
    if r < 0.25:
        m["fuel"] = (0, 0)
    elif r < 0.65:
        m["fuel"] = (1, rng.choice([0, 1, 50, 99, 100, rng.randrange(101)]))
    else:
        m["fuel"] = (2, rng.choice([0, 1, 100, 152, 153, rng.randrange(154)]))
    m["transmission"] = rbyte(rng)
    m["fan"] = rfloat(rng)
    m["load"] = rng.choice([0xFF, rbyte(rng)])
    m["power"] = rfloat(rng)
    m["cons"] = rfloat(rng)
    m["thermostat"] = rbyte(rng)
    mods = []
    for i in range(6):
        if presence >> i & 1:
            v = [rbyte(rng, True), rbyte(rng), rbyte(rng)]
            if i == 0:
                v += [rng.choice([rng.randrange(65, 91), rng.randrange(256), 0, 0xFF, 0x7F, 0x80]), rbyte(rng)]
            mods.append(v)
        else:
            mods.append(None)
    m["modules"] = mods
    m["lambda"] = (rbyte(rng, True), rbyte(rng), rng.choice([0, 1, 9, 10, 65535, rng.randrange(65536)])) if presence >> 6 & 1 else None
    if presence >> 7 & 1:
        n = count(rng, big)
        items = []
        for _ in range(n):
            cur = rfloat(rng, 0.15)
            tgt = rng.choice([rfloat(rng, 0.1), f32(rng.uniform(5, 30)), f32(rng.uniform(5, 30)), 0, 0x80000000, f32(-1.0)])
            items.append((rbyte(rng), cur, tgt))
        m["thermostats"] = (rbyte(rng, True), items)
    else:
        m["thermostats"] = None
    m["mixers"] = [(rfloat(rng), rbyte(rng), rbyte(rng), rbyte(rng), rbyte(rng)) for _ in range(count(rng, big))]
    return m


def flat(m):
    out = [len(m["versions"])]
    for t, v in m["versions"]:
        out += [t, v]
    out += [m["state"], m["outputs"], m["flags"], len(m["temps"])]
    for i, f in m["temps"]:
        out += [i, f]
    out += list(m["statuses"])
    out += [len(m["alerts"])] + list(m["alerts"])
    out += list(m["fuel"])
    out += [m["transmission"], m["fan"], m["load"], m["power"], m["cons"], m["thermostat"]]
    for v in m["modules"]:
        out += [0] if v is None else [1] + list(v)
    out += [0] if m["lambda"] is None else [1] + list(m["lambda"])
    if m["thermostats"] is None:
        out += [0]
    else:
        c, items = m["thermostats"]
        out += [1, c, len(items)]
        for it in items:
            out += list(it)
    out += [len(m["mixers"])]
    for it in m["mixers"]:
        out += list(it)
    return out


def shape(m):
    """fingerprint of the structural choices (what makes a case distinct beyond its random fill)"""
    pres = tuple(v is not None for v in m["modules"]) + (m["lambda"] is not None, m["thermostats"] is not None)
    return (pres, len(m["versions"]), len(m["temps"]), len(m["alerts"]), m["fuel"][0],
            len(m["thermostats"][1]) if m["thermostats"] else -1, len(m["mixers"]))


ERR_CLASSES = (IndexError, struct.error)


def decode_impl(payload):
    """-> ('ok', data) | ('ERR', class name) | ('EXC', class name); plus purity problems"""
    buf = bytearray(payload)
    purity = []
    try:
        frame = SensorDataMessage(message=buf)
        d1 = frame.data
    except ERR_CLASSES as e:
        d1 = ("ERR", type(e).__name__)
    except Exception as e:  # noqa: BLE001
        d1 = ("EXC", type(e).__name__ + ": " + str(e)[:80])
    if bytes(buf) != bytes(payload):
        purity.append("payload modified by decoding")
    if isinstance(d1, tuple):
        # an error must also be repeatable
        try:
            SensorDataMessage(message=bytearray(payload)).data
            purity.append("error not repeatable")
        except Exception as e:  # noqa: BLE001
            if type(e).__name__ != d1[1].split(":")[0]:
                purity.append("different error on a fresh object")
        return d1, purity
    s1 = canon.show(d1)
    d2 = frame.decode_message(frame.message)
    if canon.show(d2) != s1:
        purity.append("second decode on the same object differs")
    if bytes(frame.message) != bytes(payload) or bytes(buf) != bytes(payload):
        purity.append("payload modified by the second decoding")
    d3 = SensorDataMessage(message=bytearray(payload)).data
    if canon.show(d3) != s1 or canon.show(frame.data) != s1:
        purity.append("decode on a fresh object differs")
    # decoded values belong to the caller: modify a deep copy-free view of them in place and decode again
    import copy
    keep = copy.deepcopy(d1)
    try:
        _scramble(d3)
    except Exception:  # noqa: BLE001
        pass
    d4 = SensorDataMessage(message=bytearray(payload)).data
    if canon.show(d4) != s1:
        purity.append("decode after the previously decoded values were modified in place differs (decoded objects are shared between decodes)")
    return ("ok", keep), purity


def _scramble(x, depth=0):
    if depth > 6:
        return
    if isinstance(x, dict):
        for k in list(x):
            v = x[k]
            _scramble(v, depth + 1)
            if isinstance(v, bool):
                x[k] = not v
            elif isinstance(v, int):
                x[k] = int(v) + 1
            elif isinstance(v, float):
                x[k] = 1.5
            elif isinstance(v, str):
                x[k] = v + "!"
    elif isinstance(x, list):
        for i, v in enumerate(x):
            _scramble(v, depth + 1)
            if isinstance(v, (bool, int, float)):
                x[i] = 0
        x.append(None)


def gen_wellformed(rng, tier):
    quick = tier == "quick"
    # every presence combination of the six modules, lambda and thermostat sections
    for presence in range(256):
        for _ in range(1 if quick else 6):
            yield "presence", gen_msg(rng, presence)
    # boundaries
    for _ in range(6 if quick else 40):
        yield "big-counts", gen_msg(rng, None, big=True)
    base = gen_msg(rng, 0xFF)
    for b in range(256):  # every fuel level byte, every state byte, every boiler load byte
        m = dict(base)
        m["fuel"] = (0, 0) if b == 255 else ((1, b) if b < 101 else (2, b - 101))
        m["state"] = b
        m["load"] = b
        yield "byte-sweep", m
    for bit in range(32):
        m = dict(base)
        m["outputs"] = 1 << bit
        m["flags"] = 1 << bit
        yield "bit-sweep", m
    # contact masks: every contacts byte x thermostat counts, all thermostats reported
    for c in (range(255) if not quick else list(range(0, 255, 7)) + [1, 2, 4, 8, 16, 32, 64, 128, 254]):
        for n in ([0, 1, 2, 3, 4, 8, 9, 12] if not quick else [rng.choice([1, 2, 3]), rng.choice([4, 8, 9, 12])]):
            m = gen_msg(rng, rng.getrandbits(7) | 0x80)
            items = [(rbyte(rng), f32(20.5 + i), f32(21.0)) for i in range(n)]
            if n and rng.random() < 0.4:
                k = rng.randrange(n)
                items[k] = (items[k][0], rng.choice([NAN_Q, items[k][1]]), rng.choice([0, 0x80000000, f32(-3.0), NAN_Q]))
            m["thermostats"] = (c, items)
            yield "contacts", m
    for sp in F32_SPECIALS:
        m = gen_msg(rng)
        m["fan"] = m["power"] = m["cons"] = sp
        m["temps"] = [(rng.randrange(17), sp)] + m["temps"][:200]
        m["thermostats"] = (rbyte(rng, True), [(1, sp, f32(20.0)), (2, f32(20.0), sp), (3, f32(19.0), f32(20.0))])
        m["mixers"] = [(sp, 40, 0, 1, 0), (f32(30.0), 41, 0, 0, 0)]
        yield "float-specials", m
    for _ in range(1200 if quick else 60000):
        yield "random", gen_msg(rng)


def mutate(rng, payload):
    b = bytearray(payload)
    r = rng.random()
    if r < 0.45 and b:
        return bytes(b[: rng.randrange(len(b))]), "trunc"
    if r < 0.8 and b:
        for _ in range(rng.choice([1, 1, 2, 3])):
            b[rng.randrange(len(b))] = rng.choice([0xFF, 0, rng.randrange(256), 1, 2])
        return bytes(b), "mutate"
    if r < 0.9:
        return bytes(rng.randrange(256) for _ in range(rng.randrange(0, 90))), "random"
    return bytes(b) + bytes(rng.randrange(256) for _ in range(rng.randrange(1, 9))), "trailing"


def check_payload(res, label, payload, model_ans, inp, wellformed):
    """compare the implementation's decoding of `payload` with the model's answer"""
    got, purity = decode_impl(payload)
    for p in purity:
        res.fail("spec", inp, "decoding is pure and repeatable", p, "purity: " + p)
    if model_ans == "ERR":
        res.count("outcome:ERR")
        if got[0] != "ERR":
            res.fail("corr", inp, "ERR", canon.show(got[1])[:300] if got[0] == "ok" else got, "model rejects, implementation does not")
        return
    res.count("outcome:value")
    if got[0] != "ok":
        res.fail("spec" if wellformed else "corr", inp, model_ans[:300], list(got),
                 "implementation raises on a payload the layout defines")
        return
    diff = canon.agree(json.loads(model_ans), got[1], "latin-1")
    if diff:
        res.fail("spec" if wellformed else "corr", inp, model_ans[:600], canon.show(got[1])[:600],
                 ("decoded data differs from the encoded values: " if wellformed else "model and implementation differ: ") + diff)


def run_sensors(ctx, res):
    rng = random.Random(ctx["seed"] * 104729 + 5)
    tier = ctx["tier"]
    cases = []
    for fn, ln in load_corpus("C05"):
        w = ln.split()
        if w and w[0] == "sensors-flat":
            cases.append(("corpus", [int(x) for x in w[1:]], None))
    for label, m in gen_wellformed(rng, tier):
        cases.append((label, flat(m), m))
    if ctx.get("max_cases"):
        cases = cases[: ctx["max_cases"]]
    answers = driver_batch("c05s-encode " + " ".join(map(str, fl)) for _, fl, _ in cases)
    payloads = []
    for (label, fl, m), ans in zip(cases, answers):
        if ans == "bad-op":
            raise RuntimeError(f"driver rejected generated sensor message ({label}): {fl[:40]}")
        hx, js = ans.split(" ", 1)
        payload = b"" if hx == "-" else bytes.fromhex(hx)
        payloads.append(payload)
        res.count("sensors:" + label)
        if m is not None:
            res.case(("s", shape(m), payload), True)
            res.count("sensors:thermostats=" + (str(min(len(m["thermostats"][1]), 9)) if m["thermostats"] else "absent"))
            res.count("sensors:mixers=" + str(min(len(m["mixers"]), 9)))
        else:
            res.case(("s", payload), True)
        check_payload(res, label, payload, js, dict(kind="sensors", flat=fl, payload=payload.hex(), label=label), True)
        if label in ("presence", "contacts", "random") and not any(s.get("label") == "sensors:" + label for s in res.samples):
            res.sample(dict(label="sensors:" + label, payload=payload.hex(), expected=js[:400]), limit=12)
    # malformed stream
    mal = []
    for fn, ln in load_corpus("C05"):
        w = ln.split()
        if w and w[0] == "sensors-hex":
            mal.append(("corpus", b"" if w[1] == "-" else bytes.fromhex(w[1])))
    n_mal = 1500 if tier == "quick" else 60000
    for _ in range(n_mal):
        p, how = mutate(rng, rng.choice(payloads))
        mal.append((how, p))
    # every truncation of a few payloads; theorem `short_payload_errors` / `short_payload_tail_ok` evaluated on
    # the implementation: a strict prefix is an error unless it only lacks the unread tail of the last mixer
    # block (its last byte, or its last four bytes when that mixer's temperature is NaN)
    expect_err = {}
    idx = [i for i, c in enumerate(cases) if c[2] is not None and len(payloads[i]) < 400]
    nan_last = [i for i in idx if cases[i][2]["mixers"] and canon.is_nan32(cases[i][2]["mixers"][-1][0])]
    k_each = 4 if tier == "quick" else 40
    chosen = rng.sample(nan_last, min(len(nan_last), k_each)) + rng.sample(idx, min(len(idx), k_each))
    for i in chosen:
        p, m = payloads[i], cases[i][2]
        slack = 0 if not m["mixers"] else (4 if canon.is_nan32(m["mixers"][-1][0]) else 1)
        for k in range(len(p)):
            mal.append(("trunc-all", p[:k]))
            expect_err[len(mal) - 1] = (k + slack < len(p), slack)
    answers = driver_batch("c05s-decode " + hexs(p) for _, p in mal)
    for j, ((how, p), ans) in enumerate(zip(mal, answers)):
        res.case(("sm", p), len(p) > 8)
        res.count("sensors-malformed:" + how)
        check_payload(res, how, p, ans, dict(kind="sensors-hex", payload=p.hex(), label=how), False)
        if j in expect_err:
            want, slack = expect_err[j]
            res.count("short-payload:" + ("error" if want else "tail-ok"))
            got, _ = decode_impl(p)
            if (got[0] == "ERR") != want:
                res.fail("spec", dict(kind="sensors-hex", payload=p.hex(), label="short_payload_errors", slack=slack),
                         "ERR" if want else "the full value", list(got) if got[0] != "ok" else "a value",
                         "truncated payload: " + ("a strict prefix that cuts a decoded field must raise" if want else
                                                  "a prefix lacking only the unread tail of the last mixer block decodes"))


def run(ctx):
    res = Result("C05")
    res.rule = ("sensor data: abstract messages (all 256 presence combinations of six modules/lambda/thermostats; counts 0,1,few,255; "
                "every fuel/state/load byte; every output/flag bit; contact masks x thermostat counts; NaN/inf/zero/denormal floats; random) "
                "encoded by the Lean driver, decoded by SensorDataMessage; plus truncations/mutations/random bytes. "
                "regulator data: random schemas over all 17 type ids with bit runs, encoded by the Lean driver, decoded by "
                "RegulatorDataMessage with and without an owning device. distinct = (shape, payload bytes)")
    run_sensors(ctx, res)
    try:
        import c05_regdata
    except ImportError:
        c05_regdata = None
    if c05_regdata is not None:
        c05_regdata.run_regdata(ctx, res)
        import c05_device
        c05_device.run_device(ctx, res)
    return res


def replay(ctx):
    f = ctx["replay"].get("failure") or ctx["replay"].get("first_difference")
    inp = f["input"]
    res = Result("C05")
    res.rule = "replay of one recorded payload"
    if inp["kind"] == "sensors":
        ans = driver_batch(["c05s-encode " + " ".join(map(str, inp["flat"]))])[0]
        hx, js = ans.split(" ", 1)
        payload = b"" if hx == "-" else bytes.fromhex(hx)
        res.case(payload)
        check_payload(res, "replay", payload, js, inp, True)
    elif inp["kind"] == "sensors-hex":
        payload = bytes.fromhex(inp["payload"])
        ans = driver_batch(["c05s-decode " + hexs(payload)])[0]
        res.case(payload)
        check_payload(res, "replay", payload, ans, inp, False)
    else:
        if inp["kind"] == "device-seq":
            import c05_device
            c05_device.replay_one(inp, res)
        else:
            import c05_regdata
            c05_regdata.replay_one(inp, res)
    res.sample(dict(input=inp, failures=len(res.failures)))
    return res

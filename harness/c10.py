"""C10 correspondence (trace inclusion): a real AsyncProtocol on a real asyncio.StreamReader,
1..4 first frames from the ecoMAX address, 1..3 consumer tasks, the thread-pool class loading
of the device released at every position, a user `get('ecomax')` started at every position.

The harness chooses a schedule of external events
    F<m>  feed m more frames (one feed_data call)      R  release the oldest pending device import
    G     start a task awaiting protocol.get('ecomax')
runs the loop to quiescence after each one and records a snapshot
    held created setups published dispatched handled gets
(objects are named by order of first appearance).  The Lean driver replays the same schedule
on the interleaving machine of Model/Entry.lean (`c10 1 <events>`); the snapshots must be equal
(corr), and the statement's predicate C10.spec is evaluated by the driver on the implementation's
snapshots (`c10judge`, spec).
"""
import asyncio
import itertools
import random

from common import Result, driver_batch, load_corpus, use_repo
import framegen as fg
import pipefake

use_repo()
from pyplumio.protocol import AsyncProtocol  # noqa: E402

PASSWORD = 186  # FrameType.RESPONSE_PASSWORD; payload = <len byte> + text, data = {"password": text}
NAME = "ecomax"


def frame_bytes(idx):
    return fg.mk(PASSWORD, b"\x04" + b"%04d" % idx, rcpt=86, sender=69)


class Canon:
    """objects -> 0, 1, 2 … by first appearance (the objects are kept alive, ids are not reused)"""

    def __init__(self):
        self.objs = []

    def __call__(self, o):
        for i, x in enumerate(self.objs):
            if x is o:
                return i
        self.objs.append(o)
        return len(self.objs) - 1


def run_case(case):
    """case = dict(consumers, events=[...], cbsusp) -> (effective events, snapshots, extra)"""
    events = list(case["events"])
    canon = Canon()
    dispatched, handled, gets, setup_ids = [], [], [], []
    with pipefake.Driven(hold_devices=True) as loop:
        proto = AsyncProtocol(consumers_count=case["consumers"])

        def watch(dev):
            async def on_password(value):
                handled.append((value, dev))
            dev.subscribe("password", on_password)

        async def on_device(dev):
            dispatched.append(dev)
            if case.get("cbsusp"):
                await asyncio.sleep(0)
            watch(dev)

        proto.subscribe(NAME, on_device)
        reader = asyncio.StreamReader()
        writer = pipefake.FakeWriter()
        loop.call_soon(proto.connection_established, reader, writer)
        loop.settle()
        fed = 0
        effective, snaps = [], []

        def snapshot():
            for t in proto.tasks:
                if t.get_name().startswith("device_setup_task") and t not in setup_ids:
                    setup_ids.append(t)
            pub = proto.data.get(NAME)
            return dict(
                held=len(loop.held),
                created=loop.device_imports - len(loop.held),
                setups=len(setup_ids),
                published=None if pub is None else canon(pub),
                dispatched=[canon(d) for d in dispatched],
                handled=[(int(v), canon(d)) if isinstance(v, str) and v.isdigit() else (-1, canon(d)) for v, d in handled],
                gets=[(canon(t.result()) if t.done() and not t.cancelled() and t.exception() is None else
                       ("w" if not t.done() else "x")) for t in gets],
            )

        def apply(ev):
            nonlocal fed
            if ev[0] == "F":
                m = int(ev[1:])
                reader.feed_data(b"".join(frame_bytes(fed + i) for i in range(m)))
                fed += m
            elif ev == "R":
                if not loop.held:
                    return False
                loop.release(0)
            elif ev == "G":
                gets.append(loop.create_task(proto.get(NAME)))
            else:
                raise ValueError(ev)
            loop.settle()
            effective.append(ev)
            snaps.append(snapshot())
            return True

        for ev in events:
            apply(ev)
        guard = 0
        while loop.held and guard < 16:  # complete the run: every pending class loading finishes
            apply("R")
            guard += 1
        extra = dict(
            unfinished=proto._queues.read._unfinished_tasks,
            consumers_alive=sum(1 for t in proto.tasks if t.get_name().startswith("frame_consumer") and not t.done()),
            final_password={canon(d): d.data.get("password") for d in canon.objs if hasattr(d, "data")},
            frames=fed,
        )
    return effective, snaps, extra


def show_snap(o):
    def lst(xs):
        return ",".join(xs) if xs else "-"
    return " ".join([
        str(o["held"]), str(o["created"]), str(o["setups"]),
        "-" if o["published"] is None else str(o["published"]),
        lst([str(d) for d in o["dispatched"]]),
        lst([f"{f}.{d}" for f, d in o["handled"]]),
        lst([str(g) for g in o["gets"]]),
    ])


# ------------------------------------------------------------------ schedules

def compositions(k):
    if k == 0:
        yield []
        return
    for first in range(1, k + 1):
        for rest in compositions(k - first):
            yield [first] + rest


def all_schedules(max_frames=4, max_gets=2):
    """every arrangement of the feed groups of 1..max_frames frames, at most one explicit release
    (anywhere after the first feed; none = released at the very end) and 0..max_gets get() calls"""
    seen = set()
    for k in range(1, max_frames + 1):
        for comp in compositions(k):
            feeds = [f"F{m}" for m in comp]
            for ngets in range(0, max_gets + 1):
                for with_r in (False, True):
                    extra = ["G"] * ngets + (["R"] if with_r else [])
                    n = len(feeds) + len(extra)
                    for pos in itertools.combinations(range(n), len(extra)):
                        for perm in set(itertools.permutations(extra)):
                            ev = []
                            fi = iter(feeds)
                            pi = iter(perm)
                            for i in range(n):
                                ev.append(next(pi) if i in pos else next(fi))
                            if "R" in ev and ev.index("R") < min(i for i, e in enumerate(ev) if e[0] == "F"):
                                continue
                            t = tuple(ev)
                            if t not in seen:
                                seen.add(t)
                                yield list(ev)


def random_schedule(rng):
    k = rng.randint(1, 4)
    comp = rng.choice(list(compositions(k)))
    ev = [f"F{m}" for m in comp]
    for _ in range(rng.choice([0, 1, 1, 2])):
        ev.insert(rng.randint(0, len(ev)), "G")
    if rng.random() < 0.8:
        first = min(i for i, e in enumerate(ev) if e[0] == "F")
        ev.insert(rng.randint(first + 1, len(ev)), "R")
    return ev


def parse_case(line):
    """corpus line: <consumers> <cbsusp> <events…>"""
    w = line.split()
    return dict(consumers=int(w[0]), cbsusp=int(w[1]), events=w[2:])


def evaluate(res, cases):
    runs = [run_case(c) for c in cases]
    model = driver_batch("c10 1 " + " ".join(eff) for eff, _, _ in runs)
    verdicts = driver_batch(
        f"c10judge {extra['frames']} " + " ; ".join(show_snap(o) for o in snaps) for _, snaps, extra in runs)
    for case, (eff, snaps, extra), m, v in zip(cases, runs, model, verdicts):
        inp = dict(consumers=case["consumers"], cbsusp=case.get("cbsusp", 0), events=eff, requested=case["events"])
        obs = [show_snap(o) for o in snaps]
        nontrivial = sum(int(e[1:]) for e in eff if e[0] == "F") >= 2 or "G" in eff
        res.case((case["consumers"], case.get("cbsusp", 0), tuple(eff)), nontrivial)
        res.count(f"frames:{extra['frames']}")
        res.count(f"consumers:{case['consumers']}")
        res.count(f"gets:{eff.count('G')}")
        rpos = eff.index("R") if "R" in eff else -1
        fed_before = sum(int(e[1:]) for e in eff[:rpos] if e[0] == "F") if rpos >= 0 else 0
        res.count(f"frames-before-release:{fed_before}")
        gpos = ["before-create" if (o["gets"] and "w" in o["gets"]) else None for o in snaps]
        if any(gpos):
            res.count("get-started-before-publication")
        if v != "pass":
            unlocked = driver_batch(["c10 0 " + " ".join(eff)])[0].split(" ; ")
            extra["matches_unlocked_machine"] = unlocked == obs
            res.fail("spec", inp, "one device object: created<=1, one set-up, every caller/frame on object 0 (C10.spec)",
                     dict(snapshots=obs, judge=v, extra=extra), "C10.spec fails on what the implementation showed: " + v)
        expected = m.split(" ; ") if m != "bad-op" else ["bad-op"]
        if expected != obs:
            k = next((i for i, (a, b) in enumerate(zip(expected, obs)) if a != b), min(len(expected), len(obs)))
            res.fail("corr", inp, expected, obs, f"interleaving machine and AsyncProtocol differ at event {k}")
        # balance of the read queue / consumers alive are C09's business but cheap to watch here
        if extra["unfinished"] != 0 or extra["consumers_alive"] != case["consumers"]:
            res.fail("corr", inp, dict(unfinished=0, consumers_alive=case["consumers"]), extra,
                     "read queue not balanced or a consumer died")
        for dev, pw in extra["final_password"].items():
            want = "%04d" % (extra["frames"] - 1)
            if dev == 0 and pw != want:
                res.fail("spec", inp, want, pw, "the last frame's data did not land on the published device")
        if len(res.samples) < 5 and nontrivial and "R" in eff and len(res.samples) == len({tuple(s["events"]) for s in res.samples}):
            res.sample(dict(consumers=case["consumers"], events=eff, snapshots=obs))


def run(ctx):
    rng = random.Random(ctx["seed"] * 104729 + 10)
    res = Result("C10")
    res.rule = ("schedule = arrangement of feed groups (1..4 frames in total, any grouping), at most one explicit release "
                "of the device-class import (otherwise released at the end) and 0..2 get('ecomax') calls; x consumers 1..3 "
                "x protocol-level callback suspending or not. distinct = (consumers, cbsusp, effective event list); "
                "non-trivial = at least two frames or a get() in the schedule")
    cases = [parse_case(ln) for _, ln in load_corpus("C10")]
    if ctx["tier"] == "thorough":
        for ev in all_schedules(4, 2):
            for n in (1, 2, 3):
                cases.append(dict(consumers=n, cbsusp=(len(ev) + n) % 2, events=ev))
        for _ in range(1500):
            cases.append(dict(consumers=rng.randint(1, 3), cbsusp=rng.randint(0, 1), events=random_schedule(rng)))
        res.exhaustive = True
        res.extra["exhaustive_over"] = "all arrangements of feed groups of 1..4 frames x release position x 0..2 get() positions x consumers 1..3"
    else:
        pool = list(all_schedules(4, 1))
        rng.shuffle(pool)
        for ev in pool:
            cases.append(dict(consumers=rng.randint(1, 3), cbsusp=rng.randint(0, 1), events=ev))
        for _ in range(250):
            cases.append(dict(consumers=rng.randint(1, 3), cbsusp=rng.randint(0, 1), events=random_schedule(rng)))
    if ctx.get("max_cases"):
        cases = cases[:ctx["max_cases"]]
    evaluate(res, cases)
    return res


def replay(ctx):
    f = ctx["replay"].get("failure") or ctx["replay"].get("first_difference")
    inp = f["input"]
    res = Result("C10")
    res.rule = "replay of one recorded schedule"
    evaluate(res, [dict(consumers=inp["consumers"], cbsusp=inp.get("cbsusp", 0), events=inp.get("requested") or inp["events"])])
    return res

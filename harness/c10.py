"""C10 correspondence (trace inclusion): a real AsyncProtocol on a real asyncio.StreamReader,
first frames from one or several addresses (ecoMAX 69, ecoSTER 81, and ECONET 86 which has no
device class), 1..3 consumer tasks, the thread-pool class loading of every device released at
every position, user `get(<name>)` calls started at every position.

The harness chooses a schedule of external events
    F<a>:<m>  feed m more frames from address a (one feed_data call)
    R         the oldest pending device-class import completes (or raises: address without a class)
    G<a>      start a task awaiting protocol.get(<name of address a>)
    T<a>      a task awaiting protocol.get(<name of a>, timeout=0.25) is started and the clock advanced past its
              deadline: it raises TimeoutError if there is no entry yet (it returns the entry if there is one); it
              is not one of the get() callers of the schedule and leaves no trace — callers still waiting keep waiting
    C         the connection is lost (end of stream on the current reader: the producer schedules
              connection_lost()) and re-established at once from an on_connection_lost callback with a
              new reader / writer, as Connection._reconnect does; later frames arrive on the new reader
runs the loop to quiescence after each one and records a snapshot
    held created setups published dispatched handled gets
(objects are named by order of first appearance).  The Lean driver replays the same schedule
on the interleaving machine of Model/Entry.lean (`c10 1 <cr> <events>`); the snapshots must be
equal (corr), and the statement's predicate C10.spec is evaluated by the driver on the
implementation's snapshots (`c10judge`, spec).
"""
import asyncio
import importlib
import itertools
import random

from common import Result, driver_batch, load_corpus, use_repo
import framegen as fg
import connfake
import pipefake

use_repo()
from pyplumio.const import DeviceType  # noqa: E402
from pyplumio.devices import PhysicalDevice, get_device_handler  # noqa: E402
from pyplumio.protocol import AsyncProtocol  # noqa: E402

PASSWORD = 186  # FrameType.RESPONSE_PASSWORD; payload = <len byte> + text, data = {"password": text}
ECOMAX, ECOSTER, ECONET = 69, 81, 86
ADDRS = [ECOMAX, ECOSTER, ECONET]


CONSUMERS = [1, 2, 3, 4, 5]                  # consumers_count of the protocol object
ROUTES = ["get", "wait_for", "attr", "data", "subscribe"]
# how the user asks for the device: get(name) / wait_for(name) + get_nowait(name) / wait_for(name) + attribute access
# protocol.<name> / wait_for(name) + protocol.data[name] / a callback subscribed to the name (or protocol.data[name] when
# the entry is already there) -- the `Route`s of Model/Entry.lean (C10.same_object_over_all_routes)


def variant(i):
    """deterministic spread of the public-route dimensions over enumerated cases"""
    return dict(consumers=CONSUMERS[i % 5], cbsusp=(i // 5) % 2, route=ROUTES[(i // 2) % len(ROUTES)], conn=bool((i // 3) % 2))


def random_variant(rng):
    return dict(consumers=rng.choice(CONSUMERS), cbsusp=rng.randint(0, 1), route=rng.choice(ROUTES), conn=rng.random() < 0.5)


def name_of(addr):
    return DeviceType(addr).name.lower()


def has_device_class(addr):
    try:
        path = get_device_handler(addr)
        mod, cls = path.rsplit(".", 1)
        getattr(importlib.import_module("pyplumio." + mod), cls)
        return True
    except Exception:  # noqa: BLE001
        return False


CREATABLE = [a for a in ADDRS if has_device_class(a)]
CR_WORD = ",".join(map(str, CREATABLE)) or "-"


def frame_bytes(content, addr):
    return fg.mk(PASSWORD, b"\x04" + b"%04d" % content, rcpt=86, sender=addr)


def same_patterns(nframes, rng=None):
    """which frames repeat their predecessor from the same address byte for byte (index = position in feed order)"""
    pats = [[1] * nframes, [1] * min(nframes, 3) + [0] * max(0, nframes - 3), [0] + [1] * (nframes - 1), [i % 2 for i in range(1, nframes + 1)]]
    if rng is not None:
        pats.append([int(rng.random() < 0.6) for _ in range(nframes)])
    out = []
    for p in pats:
        if any(p[1:]) and p not in out:
            out.append(p)
    return out


class Canon:
    """objects -> 0, 1, 2 … by first appearance (the objects are kept alive, ids are not reused)"""

    def __init__(self):
        self.objs = []

    def __call__(self, o):
        for i, x in enumerate(self.objs):
            if x is o:
                return i
        self.objs.append(o)
        return len(self.objs) - 1


def parse_ev(ev):
    if ev == "R":
        return ("R",)
    if ev == "C":
        return ("C",)
    if ev[0] == "T":
        return ("T", int(ev[1:]))
    if ev[0] == "G":
        return ("G", int(ev[1:]))
    a, m = ev[1:].split(":")
    return ("F", int(a), int(m))


def run_case(case):
    """case = dict(consumers, events=[...], cbsusp) -> (effective events, snapshots, extra)"""
    events = list(case["events"])
    canon = Canon()
    dispatched, handled, gets, setups, timed = [], [], [], [], []
    with pipefake.Driven(hold_devices=True) as loop:
        proto = AsyncProtocol(consumers_count=case["consumers"])

        def factory(lp, coro, **kw):
            task = asyncio.Task(coro, loop=lp, **kw)
            try:
                code = getattr(coro, "cr_code", None)
                if code is not None and code.co_name == "async_setup":
                    owner = coro.cr_frame.f_locals.get("self")
                    if isinstance(owner, PhysicalDevice):
                        setups.append(owner)
            except Exception:  # noqa: BLE001
                pass
            return task

        loop.set_task_factory(factory)

        def watch(dev):
            async def on_password(value):
                handled.append((value, dev))
            dev.subscribe("password", on_password)

        def subscribe(addr):
            async def on_device(dev):
                dispatched.append((addr, dev))
                if case.get("cbsusp"):
                    await asyncio.sleep(0)
                watch(dev)
            proto.subscribe(name_of(addr), on_device)

        for a in ADDRS:
            subscribe(a)
        once_seen = {}

        def subscribe_once(addr):
            async def once(dev):
                once_seen.setdefault(addr, []).append(dev)
            proto.subscribe_once(name_of(addr), once)

        for a in ADDRS:
            subscribe_once(a)
        conn = dict(reader=None, established=0, lost=0)
        if case.get("conn"):
            # the public route: a Connection object (open_tcp_connection / open_serial_connection return one) owning the
            # protocol, reconnect_on_failure=True: Connection._reconnect is the on_connection_lost callback
            link = connfake.ScriptedConnection(protocol=proto, reconnect_on_failure=True)

            async def count_loss():
                conn["lost"] += 1

            proto.on_connection_lost.add(count_loss)
            loop.create_task(link.connect())
            loop.settle()
            conn["reader"] = link.readers[-1]
            conn["established"] = len(link.readers)
        else:
            link = None

            async def reconnect():
                conn["lost"] += 1
                conn["reader"] = asyncio.StreamReader()
                proto.connection_established(conn["reader"], pipefake.FakeWriter())
                conn["established"] += 1

            proto.on_connection_lost.add(reconnect)
            conn["reader"] = asyncio.StreamReader()
            conn["established"] = 1
            loop.call_soon(proto.connection_established, conn["reader"], pipefake.FakeWriter())
            loop.settle()
        route_bad = []

        def check_reads():
            # get_nowait() and attribute access are reads of the same entry as get(): they must agree with it at every instant
            for a in ADDRS:
                cur = proto.data.get(name_of(a))
                if proto.get_nowait(name_of(a), None) is not cur:
                    route_bad.append(f"get_nowait({name_of(a)!r}) is not the entry")
                try:
                    att = getattr(proto, name_of(a))
                except AttributeError:
                    att = None
                if att is not cur:
                    route_bad.append(f"protocol.{name_of(a)} is not the entry")
                if (name_of(a) in proto.data) != (cur is not None) or (cur is not None and proto.data[name_of(a)] is not cur):
                    route_bad.append(f"protocol.data[{name_of(a)!r}] is not the entry")
                # what subscribed callbacks were handed so far (subscribe and subscribe_once) is the entry, if there is one
                for x, d in dispatched:
                    if x == a and cur is not None and d is not cur:
                        route_bad.append(f"a callback subscribed to {name_of(a)!r} was handed an object that is not the entry")

        async def ask(addr):
            name = name_of(addr)
            if case.get("route", "get") == "get":
                return await proto.get(name)
            route = case.get("route")
            if route == "subscribe":
                if name in proto.data:
                    return proto.data[name]
                fut = loop.create_future()

                async def handed(dev):
                    if not fut.done():
                        fut.set_result(dev)
                proto.subscribe(name, handed)
                return await fut
            await proto.wait_for(name)
            return proto.get_nowait(name) if route == "wait_for" else proto.data[name] if route == "data" else getattr(proto, name)
        fed = []      # address of every frame fed
        same = list(case.get("same") or [])   # same[i] = frame i is a byte-for-byte repeat of the previous frame from its address
        content = []  # content id of every frame fed (= index of the first frame of its run of identical frames)
        last_content = {}

        def next_frame(a):
            i = len(fed)
            c = last_content[a] if i < len(same) and same[i] and a in last_content else i
            last_content[a] = c
            fed.append(a)
            content.append(c)
            return frame_bytes(c, a)

        def handled_frames():
            # observed at the device's event: the k-th time a content is delivered stands for the k-th frame fed with
            # that content (one delivery too many shows as a frame handled twice, one too few as a frame not handled)
            seen, out = {}, []
            for v, d in handled:
                if isinstance(v, str) and v.isdigit() and int(v) in content:
                    c = int(v)
                    idx = [i for i, x in enumerate(content) if x == c]
                    k = seen.get(c, 0)
                    seen[c] = k + 1
                    out.append((idx[min(k, len(idx) - 1)], canon(d)))
                else:
                    out.append((-1, canon(d)))
            return out
        asked = []    # address of every get()
        effective, snaps = [], []

        def snapshot():
            # set-up tasks of device objects that were never announced would be invisible to canon(): name them too
            for d in setups:
                canon(d)
            pub = []
            for a, d in dispatched:
                if proto.data.get(name_of(a)) is d and (a, canon(d)) not in pub:
                    pub.append((a, canon(d)))
            return dict(
                held=len(loop.held),
                created=loop.device_imports_ok,
                setups=len(setups),
                published=pub,
                dispatched=[(a, canon(d)) for a, d in dispatched],
                handled=handled_frames(),
                gets=[(canon(t.result()) if t.done() and not t.cancelled() and t.exception() is None else
                       ("w" if not t.done() else "x")) for t in gets],
            )

        def apply(ev):
            e = parse_ev(ev)
            if e[0] == "F":
                _, a, m = e
                conn["reader"].feed_data(b"".join([next_frame(a) for _ in range(m)]))
            elif e[0] == "C":
                conn["reader"].feed_eof()
            elif e[0] == "T":
                t = loop.create_task(proto.get(name_of(e[1]), timeout=0.25))
                loop.settle()
                loop.settle(until=loop.time() + 0.5)
                loop.settle()
                had = proto.data.get(name_of(e[1]))
                ok = t.done() and not t.cancelled() and (
                    (t.exception() is None and t.result() is had) if had is not None else isinstance(t.exception(), asyncio.TimeoutError))
                timed.append(bool(ok))
            elif e[0] == "R":
                if not loop.held:
                    return False
                loop.release(0)
            else:
                asked.append(e[1])
                gets.append(loop.create_task(ask(e[1])))
            loop.settle()
            if link is not None and e[0] == "C":
                conn["reader"] = link.readers[-1]
                conn["established"] = len(link.readers)
            check_reads()
            effective.append(ev)
            snaps.append(snapshot())
            return True

        for ev in events:
            apply(ev)
        guard = 0
        while loop.held and guard < 16:  # complete the run: every pending class loading finishes
            apply("R")
            guard += 1
        extra = dict(
            unfinished=proto._queues.read._unfinished_tasks,
            consumers_alive=sum(1 for t in proto.tasks if t.get_name().startswith("frame_consumer") and not t.done()),
            fa=fed, ga=asked, content=content, timed_gets_ok=all(timed), route_bad=sorted(set(route_bad)),
            once=[(a, [canon(d) for d in v]) for a, v in sorted(once_seen.items())],
            kept={a: proto.data[name_of(a)].data.get("password") for a in ADDRS if name_of(a) in proto.data},
            connections=conn["established"], losses=conn["lost"],
            setup_objects=[canon(d) for d in setups],
        )
    return effective, snaps, extra


def lst(xs):
    xs = list(xs)
    return ",".join(xs) if xs else "-"


def show_snap(o):
    return " ".join([
        str(o["held"]), str(o["created"]), str(o["setups"]),
        lst(f"{a}.{d}" for a, d in o["published"]),
        lst(f"{a}.{d}" for a, d in o["dispatched"]),
        lst(f"{f}.{d}" for f, d in o["handled"]),
        lst(str(g) for g in o["gets"]),
    ])


# ------------------------------------------------------------------ schedules

def compositions(k):
    if k == 0:
        yield []
        return
    for first in range(1, k + 1):
        for rest in compositions(k - first):
            yield [first] + rest


def all_schedules(max_frames=4, max_gets=2, addr=ECOMAX):
    """one address: every arrangement of the feed groups of 1..max_frames frames, at most one explicit
    release (anywhere after the first feed; none = released at the very end) and 0..max_gets get() calls"""
    seen = set()
    for k in range(1, max_frames + 1):
        for comp in compositions(k):
            feeds = [f"F{addr}:{m}" for m in comp]
            for ngets in range(0, max_gets + 1):
                for with_r in (False, True):
                    extra = [f"G{addr}"] * ngets + (["R"] if with_r else [])
                    n = len(feeds) + len(extra)
                    for pos in itertools.combinations(range(n), len(extra)):
                        for perm in set(itertools.permutations(extra)):
                            ev = []
                            fi = iter(feeds)
                            pi = iter(perm)
                            for i in range(n):
                                ev.append(next(pi) if i in pos else next(fi))
                            if "R" in ev and ev.index("R") < min(i for i, e in enumerate(ev) if e[0] == "F"):
                                continue
                            t = tuple(ev)
                            if t not in seen:
                                seen.add(t)
                                yield list(ev)


def mixed_schedules(max_frames=3):
    """several addresses: every sequence of 1..max_frames single frames over {69, 81, 86}, fed one by one
    or all at once, with 0..max_frames releases and a get() for 69 or 81 at every position"""
    seen = set()
    for k in range(1, max_frames + 1):
        for addrs in itertools.product(ADDRS, repeat=k):
            if len(set(addrs)) < 2:
                continue
            base = [f"F{a}:1" for a in addrs]
            for nrel in range(0, k + 1):
                for g in (None, ECOMAX, ECOSTER):
                    extra = ["R"] * nrel + ([f"G{g}"] if g else [])
                    n = len(base) + len(extra)
                    for pos in itertools.combinations(range(n), len(extra)):
                        for perm in set(itertools.permutations(extra)):
                            ev = []
                            fi = iter(base)
                            pi = iter(perm)
                            for i in range(n):
                                ev.append(next(pi) if i in pos else next(fi))
                            t = tuple(ev)
                            if t not in seen:
                                seen.add(t)
                                yield list(ev)


def with_reconnects(ev, positions=None):
    """the schedule with a reconnect inserted at every (or the given) position of its timeline"""
    for pos in (range(len(ev) + 1) if positions is None else positions):
        yield ev[:pos] + ["C"] + ev[pos:]


def with_timed_gets(ev, addr=ECOMAX):
    """the schedule with a get() that times out inserted at every position"""
    for pos in range(len(ev) + 1):
        yield ev[:pos] + [f"T{addr}"] + ev[pos:]


def random_schedule(rng, multi=False):
    k = rng.randint(1, 4)
    comp = rng.choice(list(compositions(k)))
    pool = [ECOMAX] * 6 + [ECOSTER] * 3 + [ECONET] * 2 if multi else [ECOMAX]
    ev = [f"F{rng.choice(pool)}:{m}" for m in comp]
    for _ in range(rng.choice([0, 1, 1, 2])):
        ev.insert(rng.randint(0, len(ev)), f"G{rng.choice([ECOMAX, ECOSTER]) if multi else ECOMAX}")
    for _ in range(rng.choice([0, 1, 1, 2, 3]) if multi else rng.choice([0, 1, 1, 1, 1])):
        first = min(i for i, e in enumerate(ev) if e[0] == "F")
        ev.insert(rng.randint(first + 1, len(ev)), "R")
    return ev


def parse_case(line):
    """corpus line: <consumers> <cbsusp> <events…>"""
    w = line.split()
    return dict(variant(sum(map(ord, line))), consumers=int(w[0]), cbsusp=int(w[1]), events=w[2:])


def fed_first_identical(extra):
    for a in set(extra["fa"]):
        idx = [i for i, x in enumerate(extra["fa"]) if x == a]
        if len(idx) >= 2 and extra["content"][idx[0]] == extra["content"][idx[1]]:
            return True
    return False


def nframes_of(ev):
    return sum(parse_ev(e)[2] for e in ev if e[0] == "F")


def evaluate(res, cases):
    runs = [run_case(c) for c in cases]
    model = driver_batch(f"c10 1 {CR_WORD} " + " ".join(eff) for eff, _, _ in runs)
    verdicts = driver_batch(
        f"c10judge {CR_WORD} {lst(map(str, extra['fa']))} {lst(map(str, extra['ga']))} " + " ; ".join(show_snap(o) for o in snaps)
        for _, snaps, extra in runs)
    for case, (eff, snaps, extra), m, v in zip(cases, runs, model, verdicts):
        inp = dict(consumers=case["consumers"], cbsusp=case.get("cbsusp", 0), route=case.get("route", "get"), conn=bool(case.get("conn")),
                   events=eff, requested=case["events"])
        if case.get("same"):
            inp["same"] = list(case["same"])
        obs = [show_snap(o) for o in snaps]
        nframes = len(extra["fa"])
        nontrivial = nframes >= 2 or bool(extra["ga"])
        res.case((case["consumers"], case.get("cbsusp", 0), case.get("route", "get"), bool(case.get("conn")), tuple(eff),
                  tuple(extra["content"]) if case.get("same") else ()), nontrivial)
        reps = len(extra["content"]) - len(set(extra["content"]))
        res.count(f"byte-identical-repeats:{reps}")
        if reps and fed_first_identical(extra):
            res.count("first-frames-of-an-address-identical")
        res.count(f"frames:{nframes}")
        res.count(f"consumers:{case['consumers']}")
        res.count(f"gets:{len(extra['ga'])}")
        res.count(f"addresses:{len(set(extra['fa']))}")
        if any(e[0] == "T" for e in eff):
            res.count("timed-out-get-before-publication" if any(e[0] == "T" and not o["published"] for e, o in zip(eff, snaps)) else "timed-get-after-publication")
            if not extra["timed_gets_ok"]:
                res.fail("spec", inp, "a timed get() raises TimeoutError at its deadline when there is no entry, returns the entry otherwise",
                         extra, "a get() with a timeout neither timed out nor returned the entry")
        if "C" in eff:
            res.count("reconnects:" + str(eff.count("C")))
            first = eff.index("C")
            if first < len(snaps) and snaps[first]["held"]:
                res.count("reconnect-while-class-loading-in-flight")
            if extra["losses"] != eff.count("C") or extra["connections"] != 1 + eff.count("C"):
                res.fail("corr", inp, dict(losses=eff.count("C")), extra, "a reconnect event did not lose and re-establish the connection once")
        if ECONET in extra["fa"]:
            res.count("frames-from-an-address-without-device-class")
        rpos = eff.index("R") if "R" in eff else -1
        fed_before = sum(parse_ev(e)[2] for e in eff[:rpos] if e[0] == "F") if rpos >= 0 else 0
        res.count(f"frames-before-first-release:{fed_before}")
        if any(o["gets"] and "w" in o["gets"] for o in snaps):
            res.count("get-started-before-publication")
        if v != "pass":
            unlocked = driver_batch([f"c10 0 {CR_WORD} " + " ".join(eff)])[0].split(" ; ")
            extra["matches_unlocked_machine"] = unlocked == obs
            res.fail("spec", inp, "one device object per address: one announcement, one set-up, every caller / frame on the entry of "
                     "its address, complete runs leave nothing unhandled (C10.spec)",
                     dict(snapshots=obs, judge=v, extra=extra), "C10.spec fails on what the implementation showed: " + v)
        expected = m.split(" ; ") if m != "bad-op" else ["bad-op"]
        if expected != obs:
            k = next((i for i, (a, b) in enumerate(zip(expected, obs)) if a != b), min(len(expected), len(obs)))
            res.fail("corr", inp, expected, obs, f"interleaving machine and AsyncProtocol differ at event {k}")
        # balance of the read queue / consumers alive are C09's business but cheap to watch here
        if extra["unfinished"] != 0 or extra["consumers_alive"] != case["consumers"]:
            res.fail("corr", inp, dict(unfinished=0, consumers_alive=case["consumers"]), extra,
                     "read queue not balanced or a consumer died")
        if extra["route_bad"]:
            res.fail("spec", inp, "get_nowait(name) / protocol.<name> return the entry get(name) returns", extra["route_bad"],
                     "another public way to ask for the device disagrees with the entry")
        for a, objs in extra["once"]:
            first = [d for x, d in snaps[-1]["dispatched"] if x == a][:1] if snaps else []
            if objs != first:
                res.fail("spec", inp, dict(address=a, subscribe_once_saw=first), objs,
                         "a subscribe_once() observer of the address name did not see exactly the one announced object")
        if snaps and snaps[-1]["held"] == 0:
            for a, pw in extra["kept"].items():
                idx = [f for f, x in enumerate(extra["fa"]) if x == int(a)]
                if idx and pw != "%04d" % extra["content"][idx[-1]]:
                    res.fail("spec", inp, "%04d" % extra["content"][idx[-1]], pw, "the entry does not hold the data of the last frame of its address "
                             "(data kept across reconnects, frames not split between objects)")
        res.count(f"route:{case.get('route', 'get')}")
        res.count("via:" + ("Connection._reconnect" if case.get("conn") else "on_connection_lost callback"))
        if len(set(extra["setup_objects"])) != len(extra["setup_objects"]):
            res.fail("spec", inp, "one set-up task per device object", extra, "set-up started twice for one device object")
        if len(res.samples) < 5 and nontrivial and "R" in eff and len(set(extra["fa"])) >= (2 if len(res.samples) >= 3 else 1) \
                and len(res.samples) == len({tuple(s["events"]) for s in res.samples}):
            res.sample(dict(consumers=case["consumers"], events=eff, snapshots=obs))


def run(ctx):
    rng = random.Random(ctx["seed"] * 104729 + 10)
    res = Result("C10")
    res.rule = ("schedule = arrangement of feed groups (1..4 frames in total, any grouping; one address, or several addresses "
                "69 / 81 / 86 = no device class), explicit releases of the device-class imports (the rest released at the end) and "
                "get(<name>) calls, reconnects (connection lost and re-established) at every position of the timeline; x consumers_count 1..5 x the way the user asks (get / wait_for + get_nowait / attribute access / wait_for + protocol.data[name] / a subscribed callback; protocol.data, get_nowait, the attribute and what subscribed callbacks were handed are read after EVERY event) x the reconnect route (Connection._reconnect of a Connection object owning the protocol / a plain on_connection_lost callback) x protocol-level callback suspending or not x frame contents: all distinct, or byte-identical repeats of the previous frame of the address (runs of 2..4, among the first frames and later), delivery observed at the device's event subscribers. distinct = (consumers, cbsusp, "
                "effective event list); non-trivial = at least two frames or a get() in the schedule")
    cases = [parse_case(ln) for _, ln in load_corpus("C10")]
    if ctx["tier"] == "thorough":
        for ev in all_schedules(4, 2):
            for n in (1, 2, 3, 5):
                cases.append(dict(variant(len(cases)), consumers=n, events=ev))
        for i, ev in enumerate(mixed_schedules(3)):
            cases.append(dict(variant(i), events=ev))
        for _ in range(3000):
            cases.append(dict(random_variant(rng), events=random_schedule(rng, multi=rng.random() < 0.7)))
        for i, ev in enumerate(all_schedules(3, 1)):          # a reconnect at every position of the timeline
            for ev2 in with_reconnects(ev):
                cases.append(dict(variant(i), events=ev2))
        for i, ev in enumerate(mixed_schedules(2)):
            for ev2 in with_reconnects(ev, positions=[rng.randint(0, len(ev))]):
                cases.append(dict(variant(i), events=ev2))
        for _ in range(1000):
            ev = random_schedule(rng, multi=rng.random() < 0.5)
            for _ in range(rng.choice([1, 1, 2])):
                ev.insert(rng.randint(0, len(ev)), "C")
            cases.append(dict(random_variant(rng), events=ev))
        for i, ev in enumerate(all_schedules(3, 1)):          # an impatient get() at every position, next to a patient one
            if any(x[0] == "G" for x in ev):
                for ev2 in with_timed_gets(ev):
                    cases.append(dict(variant(i), events=ev2))
        # byte-identical repeats: every one-address schedule x every repeat pattern; random mixed schedules
        for i, ev in enumerate(all_schedules(4, 1)):
            k = nframes_of(ev)
            if k >= 2:
                for pat in same_patterns(k):
                    cases.append(dict(variant(i), events=ev, same=pat))
        for _ in range(1500):
            ev = random_schedule(rng, multi=rng.random() < 0.6)
            if rng.random() < 0.4:
                ev.insert(rng.randint(0, len(ev)), "C")
            ev.append(f"F{ECOMAX}:{rng.randint(2, 4)}")
            cases.append(dict(random_variant(rng), events=ev, same=[int(rng.random() < 0.7) for _ in range(nframes_of(ev))]))
        res.exhaustive = True
        res.extra["exhaustive_over"] = ("one address: all arrangements of feed groups of 1..4 frames x release position x 0..2 get() "
                                        "positions x consumers 1..3; several addresses: all sequences of 1..3 frames over {69,81,86} x "
                                        "0..3 releases and a get() at every position")
    else:
        pool = list(all_schedules(4, 1))
        rng.shuffle(pool)
        for ev in pool:
            cases.append(dict(random_variant(rng), events=ev))
        mixed = list(mixed_schedules(2))
        rng.shuffle(mixed)
        for ev in mixed[:250]:
            cases.append(dict(random_variant(rng), events=ev))
        for _ in range(300):
            cases.append(dict(random_variant(rng), events=random_schedule(rng, multi=rng.random() < 0.7)))
        short = list(all_schedules(3, 1))
        rng.shuffle(short)
        for ev in short[:60]:                                   # a reconnect at every position of the timeline
            for ev2 in with_reconnects(ev):
                cases.append(dict(random_variant(rng), events=ev2))
        for _ in range(150):
            ev = random_schedule(rng, multi=rng.random() < 0.5)
            for _ in range(rng.choice([1, 1, 2])):
                ev.insert(rng.randint(0, len(ev)), "C")
            cases.append(dict(random_variant(rng), events=ev))
        for ev in [e for e in short if any(x[0] == "G" for x in e)][:40]:   # an impatient get() at every position, next to a patient one
            for ev2 in with_timed_gets(ev):
                cases.append(dict(random_variant(rng), events=ev2))
        # byte-identical repeats among the first frames (and later ones): the same schedules, other frame contents
        multi = [e for e in pool if nframes_of(e) >= 2]
        for ev in multi[:260]:
            cases.append(dict(random_variant(rng), events=ev, same=rng.choice(same_patterns(nframes_of(ev), rng))))
        for _ in range(120):
            ev = random_schedule(rng, multi=rng.random() < 0.6)
            if rng.random() < 0.4:
                ev.insert(rng.randint(0, len(ev)), "C")
            ev.append(f"F{ECOMAX}:{rng.randint(2, 4)}")                # … and a burst of repeats after the entry exists
            cases.append(dict(random_variant(rng), events=ev, same=[int(rng.random() < 0.7) for _ in range(nframes_of(ev))]))
    if ctx.get("max_cases"):
        cases = cases[:ctx["max_cases"]]
    import c10_cancel  # the creating task cancelled while the class loading is pending (first: a process-wide import cache is still empty)
    c10_cancel.run_section(res, rng, ctx["tier"])
    evaluate(res, cases)
    return res


def replay(ctx):
    f = ctx["replay"].get("failure") or ctx["replay"].get("first_difference")
    inp = f["input"]
    res = Result("C10")
    res.rule = "replay of one recorded schedule"
    if "cancel_history" in inp:
        import c10_cancel
        c10_cancel.run_section(res, random.Random(0), "quick", only=[inp["cancel_history"]])
        return res
    evaluate(res, [dict(consumers=inp["consumers"], cbsusp=inp.get("cbsusp", 0), route=inp.get("route", "get"), conn=bool(inp.get("conn")),
                        events=inp.get("requested") or inp["events"], same=inp.get("same"))])
    return res

"""Implementation-side helpers shared by the C02 / C03 harnesses: the real frame classes
(loaded through the code's own frame-type -> handler table), a fake transport, the
FrameWriter and producer paths, and the real FrameReader returning frame objects."""
import asyncio
import importlib
import json
import os

from common import VERIF, use_repo
import framegen as fg
import vloop

use_repo()
from pyplumio.const import DeviceType, FrameType  # noqa: E402
from pyplumio.exceptions import FrameDataError, ProtocolError  # noqa: E402
from pyplumio.frames import Frame, get_frame_handler  # noqa: E402
from pyplumio.protocol import AsyncProtocol  # noqa: E402
from pyplumio.stream import FrameReader, FrameWriter  # noqa: E402


def tables():
    with open(os.path.join(VERIF, "build", "tables.json")) as f:
        return json.load(f)


# the protocol's kind -> code table (the same literal is pinned against the source by
# C02.frame_codes_pinned); frames are judged against THESE codes
PINNED_KINDS = [
    ("REQUEST_STOP_MASTER", 24), ("REQUEST_START_MASTER", 25), ("REQUEST_CHECK_DEVICE", 48),
    ("REQUEST_ECOMAX_PARAMETERS", 49), ("REQUEST_MIXER_PARAMETERS", 50), ("REQUEST_SET_ECOMAX_PARAMETER", 51),
    ("REQUEST_SET_MIXER_PARAMETER", 52), ("REQUEST_SCHEDULES", 54), ("REQUEST_SET_SCHEDULE", 55),
    ("REQUEST_UID", 57), ("REQUEST_PASSWORD", 58), ("REQUEST_ECOMAX_CONTROL", 59),
    ("REQUEST_ALERTS", 61), ("REQUEST_PROGRAM_VERSION", 64), ("REQUEST_REGULATOR_DATA_SCHEMA", 85),
    ("REQUEST_THERMOSTAT_PARAMETERS", 92), ("REQUEST_SET_THERMOSTAT_PARAMETER", 93), ("RESPONSE_DEVICE_AVAILABLE", 176),
    ("RESPONSE_ECOMAX_PARAMETERS", 177), ("RESPONSE_MIXER_PARAMETERS", 178), ("RESPONSE_SET_ECOMAX_PARAMETER", 179),
    ("RESPONSE_SET_MIXER_PARAMETER", 180), ("RESPONSE_SCHEDULES", 182), ("RESPONSE_UID", 185),
    ("RESPONSE_PASSWORD", 186), ("RESPONSE_ECOMAX_CONTROL", 187), ("RESPONSE_ALERTS", 189),
    ("RESPONSE_PROGRAM_VERSION", 192), ("RESPONSE_REGULATOR_DATA_SCHEMA", 213), ("RESPONSE_THERMOSTAT_PARAMETERS", 220),
    ("RESPONSE_SET_THERMOSTAT_PARAMETER", 221), ("MESSAGE_REGULATOR_DATA", 8), ("MESSAGE_SENSOR_DATA", 53),
]
# schedule kinds in wire-index order (pinned against the source by C02.schedule_names_pinned)
PINNED_SCHEDULES = [
    "heating", "water_heater", "circulation_pump", "boiler_work", "boiler_clean",
    "hear_exchanger_clean", "mixer_1", "mixer_2", "mixer_3", "mixer_4",
    "mixer_5", "mixer_6", "mixer_7", "mixer_8", "mixer_9",
    "mixer_10", "thermostat_1", "thermostat_2", "thermostat_3", "circuit_1",
    "circuit_2", "circuit_3", "circuit_4", "circuit_5", "circuit_6",
    "circuit_7", "panel_1", "panel_2", "panel_3", "panel_4",
    "panel_5", "panel_6", "panel_7", "main_heater_solar", "heating_circulation",
    "internal_thermostat", "heater", "water_heater_2", "intake", "intake_summer",
]
_NAME_OF = {c: n for n, c in PINNED_KINDS}
_CLASSES = {}


def frame_class(code):
    """the class the library itself instantiates for the kind that the protocol numbers `code`"""
    if code not in _CLASSES:
        path = get_frame_handler(int(FrameType[_NAME_OF[code]]))
        mod, name = path.rsplit(".", 1)
        _CLASSES[code] = getattr(importlib.import_module("pyplumio." + mod), name)
    return _CLASSES[code]


def kinds():
    """[(code, FrameType name)] of the protocol"""
    return [(c, n) for n, c in PINNED_KINDS]


def addr(v):
    """an address argument the way callers pass it: the enum member when there is one"""
    try:
        return DeviceType(v)
    except ValueError:
        return v


def err_class(e):
    """exceptions at the granularity the property speaks about"""
    if isinstance(e, FrameDataError):
        return "frameData"
    if isinstance(e, OverflowError):
        return "overflow"
    if isinstance(e, ValueError):
        return "value"
    return "X:" + type(e).__name__


class FakeTransport(asyncio.Transport):
    def __init__(self):
        super().__init__()
        self.chunks = []
        self._closing = False

    def write(self, data):
        self.chunks.append(bytes(data))

    def is_closing(self):
        return self._closing

    def close(self):
        self._closing = True

    def get_extra_info(self, name, default=None):
        return default


def _stream_pair():
    loop = asyncio.get_running_loop()
    tr = FakeTransport()
    rd = asyncio.StreamReader()
    sp = asyncio.StreamReaderProtocol(rd)
    sp.connection_made(tr)
    return tr, rd, asyncio.StreamWriter(tr, sp, rd, loop)


async def _via_writer(frames):
    tr, _, w = _stream_pair()
    fw = FrameWriter(w)
    out = []
    for f in frames:
        n = len(tr.chunks)
        try:
            await fw.write(f)
            out.append(b"".join(tr.chunks[n:]))
        except Exception as e:  # noqa: BLE001
            out.append(e)
    return out


def via_writer(frames):
    """bytes that reach the transport through FrameWriter.write, one entry per frame"""
    return vloop.run(_via_writer(list(frames)))


async def _via_producer(frames):
    tr, rd, w = _stream_pair()
    p = AsyncProtocol(consumers_count=1)
    p.connection_established(rd, w)
    for f in frames:
        p._queues.write.put_nowait(f)
    # the producer sends one queued frame per received frame: feed frames addressed to
    # somebody else (read() returns None for them, nothing reaches a consumer)
    foreign = fg.mk(0x19, b"", rcpt=0x45, sender=0x56)
    for _ in range(len(frames) + 1):
        rd.feed_data(foreign)
        for _ in range(12):
            await asyncio.sleep(0)
        guard = 0
        while len(rd._buffer) and guard < 1000:
            await asyncio.sleep(0)
            guard += 1
    p.cancel_tasks()
    return list(tr.chunks)


def via_producer(frames):
    """chunks written by a running AsyncProtocol.frame_producer: first its own
    StartMasterRequest, then the queued frames in order"""
    return vloop.run(_via_producer(list(frames)))


async def _read_frames(stream, max_calls):
    sr = asyncio.StreamReader()
    sr.feed_data(stream)
    sr.feed_eof()
    fr = FrameReader(sr)
    out = []
    before = len(stream)
    for _ in range(max_calls):
        try:
            f = await fr.read()
            n = before - len(sr._buffer)
            before = len(sr._buffer)
            out.append(("I", n) if f is None else ("D", f, n))
        except ProtocolError as e:
            n = before - len(sr._buffer)
            before = len(sr._buffer)
            out.append(("E", type(e).__name__, n))
        except OSError:
            out.append(("L", before - len(sr._buffer)))
            break
        except Exception as e:  # noqa: BLE001
            out.append(("X", type(e).__name__, before - len(sr._buffer)))
            break
    return out


async def _read_many(streams, max_calls):
    return [await _read_frames(s, max_calls or len(s) + 2) for s in streams]


def read_many(streams, max_calls=None):
    """read_frames for many streams under one virtual loop"""
    return vloop.run(_read_many([bytes(s) for s in streams], max_calls))


def read_frames(stream, max_calls=None):
    """run the real FrameReader over `stream` (then EOF); delivered entries carry the frame object"""
    return vloop.run(_read_frames(bytes(stream), max_calls or len(stream) + 2))


def fields_of(f):
    try:
        m = bytes(f.message)
    except Exception as e:  # noqa: BLE001 -- reading the payload of a delivered frame must not raise
        m = ("!" + type(e).__name__).encode()
    return (int(f.frame_type), int(f.recipient), int(f.sender), int(f.econet_type), int(f.econet_version), m)

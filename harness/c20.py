"""C20 correspondence: the real filter objects of pyplumio/filters.py, called with generated value
sequences under a patched `time.monotonic`, versus the Lean Mealy machines (`c20`), and the Lean
judge `C20.spec` (`c20judge`) evaluated on what the implementation delivered.

Case text (also the corpus / replay format):
    <filter> <t0> <shared|fresh> <call>*
    filter : oc | db:<n> | th:<ticks> | de | ag:<ticks> | cu:always|never|ge:<k>|notnum | A>B
    call   : <t>@<val>[i]      t in ticks (1/16 s); trailing i = pass the number as a Python int
    val    : n<k> (the number k/16) | s<hex utf-8 or -> | l<ints or -> | p<v>,<min>,<max>,<pending> | b0 | b1 (False / True) | N (None)
`shared`: one Parameter object is updated in place between calls (as the device code does).
`inplace`: ONE container object owned by the caller is changed in place (clear / append / del / item assignment, also on
its inner containers) to the next content and passed again as the same object (EcoMAX dispatches its `mixers` /
`thermostats` dicts like that).  Extra value forms of this mode (python side only; the model sees a value with the same
equality / membership structure): L<inner>/<inner>.. list of integer lists (inner `e` = empty; model: list of the inner
lists' injective codes), D<k>=<v>,.. dict of integers, E<k>=<i.i>,.. dict of integer lists (model: an opaque value with
structural equality and no subtraction, carried as the string of the key-sorted text).  The model treats every call's value
as an immutable snapshot: what was delivered is compared with the content AT THE TIME OF THE CALL.
"""
import random
import time

from common import Result, driver_batch, load_corpus, use_repo
import vloop

use_repo()
from pyplumio import filters  # noqa: E402
from pyplumio.helpers.parameter import Number, NumberDescription, ParameterValues  # noqa: E402

TICK = 16  # ticks per second; numbers are k/16 as well
BASES = ["oc", "db", "th", "de", "ag", "cu"]


class HParam(Number):
    """A real Number parameter whose `pending_update` flag is set by the harness."""

    _h_pending = False

    @property
    def pending_update(self):
        return self._h_pending


class Clock:
    t = 0.0


# ---------------------------------------------------------------- case text <-> python values
def parse_case(text):
    w = text.split()
    flt, t0, mode = w[0], int(w[1]), w[2]
    calls = []
    for c in w[3:]:
        t, v = c.split("@")
        as_int = v.endswith("i")
        calls.append((int(t), v[:-1] if as_int else v, as_int))
    return flt, t0, mode, calls


def case_text(flt, t0, mode, calls):
    return " ".join([flt, str(t0), mode] + [f"{t}@{v}{'i' if i else ''}" for t, v, i in calls])


def inner_code(xs):
    """injective code of a list of small non-negative integers"""
    c = 0
    for x in reversed(xs):
        assert 0 <= x < 98
        c = c * 99 + x + 1
    return c


def parse_container(v):
    """L / D / E value text -> python content (fresh objects)"""
    k, body = v[0], v[1:]
    if k == "L":
        return [] if body == "-" else [[] if it == "e" else [int(x) for x in it.split(",")] for it in body.split("/")]
    if k == "D":
        return {} if body == "-" else {int(a): int(b) for a, b in (it.split("=") for it in body.split(","))}
    if k == "E":
        return {} if body == "-" else {int(a): ([] if b == "e" else [int(x) for x in b.split(".")]) for a, b in (it.split("=") for it in body.split(","))}
    raise ValueError(v)


def container_text(x, nested):
    if isinstance(x, list):
        if not nested:
            return "l" + (",".join(map(str, x)) or "-")
        return "L" + ("/".join(",".join(map(str, i)) or "e" for i in x) or "-")
    if not nested:
        return "D" + (",".join(f"{k}={v}" for k, v in x.items()) or "-")
    return "E" + (",".join(f"{k}={'.'.join(map(str, v)) or 'e'}" for k, v in x.items()) or "-")


def dict_model(d):
    canon = ",".join(f"{k}={'.'.join(map(str, v)) if isinstance(v, list) else v}" for k, v in sorted(d.items()))
    return "s" + ("{" + canon + "}").encode().hex()


def model_val(v):
    """value text of a case -> value text of the Lean model"""
    if v[0] == "L":
        return "l" + (",".join(str(inner_code(i)) for i in parse_container(v)) or "-")
    if v[0] in "DE":
        return dict_model(parse_container(v))
    return v


def lean_filter(flt, t0):
    return ">".join(f"{b}:{t0}" if b.startswith("ag:") else b for b in flt.split(">"))


def lean_line(flt, t0, calls):
    return " ".join(["c20", lean_filter(flt, t0)] + [f"{t}@{model_val(v)}" for t, v, _ in calls])


def mutate_list(owner, target, rng):
    """bring the list object `owner` to the content `target` by in-place operations only"""
    if owner[: len(target)] == target[: len(owner)] and len(target) >= len(owner) and rng.random() < 0.7:
        for x in target[len(owner):]:
            owner.append(x)
    elif not target:
        owner.clear()
    elif rng.random() < 0.5:
        owner.clear()
        owner.extend(target)
    else:
        owner[:] = target


INNER_MUTATED = set()   # case texts in which an inner container object was kept and changed in place


def mutate_to(owner, target, rng, note=None):
    """change the container `owner` (and the inner containers it keeps) in place until it equals `target`"""
    if note is not None:
        kept = list(zip(owner, target)) if isinstance(owner, list) else [(owner[k], target[k]) for k in owner if k in target]
        if any(isinstance(a, list) and a != b for a, b in kept):
            INNER_MUTATED.add(note)
    if isinstance(owner, list):
        if target and isinstance(target[0], list) or (owner and isinstance(owner[0], list)):
            if not target:
                owner.clear()
                return
            while len(owner) > len(target):
                del owner[rng.randrange(len(owner)) if rng.random() < 0.3 else -1]
            for i, t in enumerate(target):
                if i < len(owner):
                    mutate_list(owner[i], t, rng)        # the inner object stays, its content changes
                else:
                    owner.append(list(t))
        else:
            mutate_list(owner, target, rng)
        return
    if not target:
        owner.clear()
        return
    for k in [k for k in owner if k not in target]:
        del owner[k]
    for k, t in target.items():
        if k in owner and isinstance(owner[k], list) and isinstance(t, list):
            mutate_list(owner[k], t, rng)
        elif k not in owner or owner[k] != t:
            owner[k] = list(t) if isinstance(t, list) else t


def py_value(v, as_int, shared):
    k, body = v[0], v[1:]
    if shared is not None and shared[0] == "inplace":
        target = ([] if body == "-" else [int(x) for x in body.split(",")]) if k == "l" else parse_container(v)
        if shared[2] is None:
            shared[2] = target
        else:
            mutate_to(shared[2], target, shared[1], shared[3])
            assert shared[2] == target, (shared[2], target)
        return shared[2]
    if k == "n":
        n = int(body)
        if as_int:
            assert n % 16 == 0
            return n // 16
        return n / 16
    if k == "s":
        return "" if body == "-" else bytes.fromhex(body).decode()
    if k == "l":
        return [] if body == "-" else [int(x) for x in body.split(",")]
    if k == "b":
        return body == "1"
    if k == "N":
        return None
    if k == "p":
        val, mn, mx, pend = (int(x) for x in body.split(","))
        if shared is not None and shared[0] is not None:
            p = shared[0]
            if shared[1].random() < 0.5:
                p.update(ParameterValues(val, mn, mx))
            else:  # Parameter.set() writes into the existing record
                p.values.value, p.values.min_value, p.values.max_value = val, mn, mx
        else:
            p = HParam(None, NumberDescription("x"), ParameterValues(val, mn, mx))
            if shared is not None:
                shared[0] = p
        p._h_pending = bool(pend)
        return p
    raise ValueError(v)


def enc_value(x):
    """canonical text of something that reached the callback"""
    if x is None:
        return "N"
    if isinstance(x, bool):
        return "b1" if x else "b0"
    if isinstance(x, HParam):
        return f"p{x.values.value},{x.values.min_value},{x.values.max_value},{1 if x.pending_update else 0}"
    if isinstance(x, (int, float)):
        k = x * 16
        if k != int(k) or abs(k) > 10**12:
            return f"?{x!r}"
        return f"n{int(k)}"
    if isinstance(x, str):
        return "s" + (x.encode().hex() or "-")
    if isinstance(x, list) and all(isinstance(e, int) and not isinstance(e, bool) for e in x):
        return "l" + (",".join(str(e) for e in x) or "-")
    if isinstance(x, list) and all(isinstance(e, list) and all(type(i) is int for i in e) for e in x):
        return "l" + ",".join(str(inner_code(e)) for e in x)          # model language: codes of the inner lists
    if isinstance(x, dict) and all(type(k) is int for k in x):
        return dict_model(x)
    return "?" + repr(x)[:40]


def make_filter(base, cb):
    w = base.split(":")
    if w[0] == "oc":
        return filters.on_change(cb)
    if w[0] == "db":
        return filters.debounce(cb, int(w[1]))
    if w[0] == "th":
        return filters.throttle(cb, int(w[1]) / TICK)
    if w[0] == "de":
        return filters.delta(cb)
    if w[0] == "ag":
        return filters.aggregate(cb, int(w[1]) / TICK)
    if w[0] == "cu":
        if w[1] == "always":
            return filters.custom(cb, lambda v: True)
        if w[1] == "never":
            return filters.custom(cb, lambda v: False)
        if w[1] == "notnum":
            return filters.custom(cb, lambda v: not isinstance(v, (int, float)))
        k = int(w[2])
        return filters.custom(cb, lambda v: isinstance(v, (int, float)) and v * 16 >= k)
    raise ValueError(base)


async def run_impl(flt, t0, mode, calls, rng):
    """-> (stage outcomes [[...] per stage], anomalies)"""
    stages = flt.split(">")
    logs = [[] for _ in stages]  # per stage: entries (call index, clock, value text)
    cur = [None]
    anomalies = []

    passthrough = ("oc", "db", "th", "cu")
    cur_obj = [None]

    def recorder(k, nxt):
        async def cb(v):
            logs[k].append((cur[0], Clock.t, enc_value(v)))
            # "passed on unmodified": behind pass-through filters the callback gets the very object the filter was called with
            if all(st.split(":")[0] in passthrough for st in stages[: k + 1]) and v is not cur_obj[0]:
                anomalies.append(f"stage {k} call {cur[0]}: the delivered object is not the object the filter was called with")
            if nxt is not None:
                return await nxt(v)
            return None

        return cb

    Clock.t = t0 / TICK
    # innermost first; every filter object is built at clock t0
    nxt = None
    for k in range(len(stages) - 1, -1, -1):
        nxt = make_filter(stages[k], recorder(k, nxt))
    f = nxt
    shared = [None, random.Random(case_text(flt, t0, mode, calls))] if mode == "shared" else None
    if mode == "inplace":
        shared = ["inplace", random.Random(case_text(flt, t0, mode, calls)), None, case_text(flt, t0, mode, calls)]
    raised = {}
    for i, (t, v, as_int) in enumerate(calls):
        Clock.t = t / TICK
        cur[0] = i
        x = py_value(v, as_int, shared)
        cur_obj[0] = x
        try:
            await f(x)
        except Exception as e:  # noqa: BLE001
            raised[i] = e
    outs = []
    for k in range(len(stages)):
        per = {}
        for (i, clk, txt) in logs[k]:
            if clk != calls[i][0] / TICK:
                anomalies.append(f"stage {k} call {i}: delivered at clock {clk}")
            if i in per:
                anomalies.append(f"stage {k} call {i}: callback awaited twice")
            per[i] = txt
        outs.append(per)
    res = []
    for k in range(len(stages)):
        row = []
        for i in range(len(calls)):
            if i in outs[k]:
                row.append("d" + outs[k][i])
            elif i in raised and (k == 0 or i in outs[k - 1]):
                e = raised[i]
                if isinstance(e, ValueError):
                    row.append("!")
                elif isinstance(e, (AttributeError, TypeError)) and "de" in stages:
                    row.append("!F4")
                else:
                    row.append("!" + type(e).__name__)
            else:
                row.append("-")
        res.append(row)
    # in a chain the last stage's row is the chain's outcome: a raise in an earlier stage shows there too
    for k in range(1, len(stages)):
        for i in range(len(calls)):
            if res[k - 1][i].startswith("!"):
                res[k][i] = res[k - 1][i]
    return res, anomalies


# ---------------------------------------------------------------- generators
STRS = ["undefined", "", "a", "b", "on", "off", "é", "undefined ", "Undefined"]


def gen_times(rng, n, t0):
    t = t0 + rng.choice([0, 0, 1, 16, 40])
    steps = rng.choice([[0, 1, 8, 16], [15, 16, 17, 31, 32, 33], [0, 16, 32, 80, 160], [79, 80, 81, 5], [0]])
    out = []
    for _ in range(n):
        out.append(t)
        t += rng.choice(steps)
    return out


def gen_nums(rng, n):
    mode = rng.random()
    base = rng.choice([0, 0, 16, -16, 5, 320, -320, 16 * 999_999, -16 * 999_999, rng.randrange(-4000, 4000)])
    if base % 16 and rng.random() < 0.3:
        base -= base % 16
    if mode < 0.35:
        steps = [0, 0, 1, -1, 1, -1, 2, -2]          # drifts below / at the tolerance boundary
    elif mode < 0.7:
        steps = [0, 1, -1, 2, -2, 3, -3, 5, -7, 16, -16, 160]
    elif mode < 0.85:
        steps = [0, 16, -16, 32, 48, -160]           # integers
    else:
        steps = None                                   # sign changes / jumps
    v = base
    out = []
    for _ in range(n):
        out.append(v)
        if steps is None:
            v = rng.choice([-v, v, v + 1, v - 2, rng.randrange(-100, 100)])
        else:
            v += rng.choice(steps)
        if abs(v) >= 16 * 10**6:
            v = base
    ptype = rng.choice(["float", "float", "int", "mixed"])
    res = []
    for k in out:
        if ptype == "int":
            k -= k % 16
        as_int = (k % 16 == 0) and (ptype == "int" or (ptype == "mixed" and rng.random() < 0.5))
        res.append((f"n{k}", as_int))
    return res, "num-" + ptype


def gen_strs(rng, n):
    pool = rng.sample(STRS, rng.randint(1, 4))
    return [("s" + (rng.choice(pool).encode().hex() or "-"), False) for _ in range(n)], "str"


def gen_lists(rng, n):
    out = []
    cur = []
    for _ in range(n):
        r = rng.random()
        if r < 0.3:
            pass
        elif r < 0.6:
            cur = cur + [rng.randrange(6)]
        elif r < 0.8 and cur:
            cur = cur[1:]
        else:
            cur = [rng.randrange(6) for _ in range(rng.randint(0, 4))]
        out.append(("l" + (",".join(map(str, cur)) or "-"), False))
    return out, "list"


def gen_params(rng, n):
    v, mn, mx = rng.randrange(4), rng.randrange(2), rng.randrange(3, 6)
    out = []
    for _ in range(n):
        r = rng.random()
        if r < 0.4:
            pass
        elif r < 0.75:
            v = rng.randrange(4)
        elif r < 0.87:
            mn = rng.randrange(2)
        else:
            mx = rng.randrange(3, 6)
        out.append((f"p{v},{mn},{mx},{1 if rng.random() < 0.2 else 0}", False))
    return out, "param"


def gen_bools(rng, n):
    """True / False among the numbers they compare equal or close to (1, 1.0, 0, 0.0, 0.0625, 1.0625, 1.125)"""
    pool = [("b1", False), ("b0", False), ("n16", False), ("n16", True), ("n0", False), ("n0", True),
            ("n1", False), ("n17", False), ("n18", False), ("n-16", True)]
    return [rng.choice(pool) for _ in range(n)], "bool"


FALSY = [("n0", False), ("n0", True), ("b0", False), ("s-", False), ("l-", False), ("N", False)]


def gen_falsy(rng, n):
    """truthiness traps: 0, 0.0, False, '', [] and None as VALUES, among a few truthy ones"""
    pool = FALSY + [("n16", False), ("b1", False), ("s61", False), ("l0", False)]
    return [rng.choice(FALSY) if rng.random() < 0.7 else rng.choice(pool) for _ in range(n)], "falsy"


def gen_param_mixed(rng, n):
    """Parameter objects among the plain values Parameter.__eq__ normalises: numbers around the parameter's value (v, v + 0.5,
    v + 1, as float / int), True / False, 'on' / 'off', and a few it cannot (other strings, lists, None)"""
    v, mn, mx = rng.randrange(3), 0, rng.randrange(3, 6)
    out = []
    for _ in range(n):
        r = rng.random()
        if r < 0.4:
            if rng.random() < 0.5:
                v = rng.randrange(4)
            out.append((f"p{v},{mn},{mx},{1 if rng.random() < 0.15 else 0}", False))
        elif r < 0.75:
            k = (v + rng.choice([0, 0, 1, -1])) * 16 + rng.choice([0, 0, 8, 15, -8])
            out.append((f"n{k}", k % 16 == 0 and rng.random() < 0.5))
        elif r < 0.85:
            out.append((rng.choice(["b0", "b1"]), False))
        elif r < 0.95:
            out.append((rng.choice(["s6f6e", "s6f6666", "s61"]), False))
        else:
            out.append((rng.choice(["l-", "l1", "N"]), False))
    return out, "param-mixed"


def gen_mixed(rng, n):
    out = []
    for _ in range(n):
        g = rng.choice([gen_nums, gen_strs, gen_lists, gen_bools, gen_falsy])
        out.append(g(rng, 1)[0][0])
    return out, "mixed"


def gen_base(rng, kind=None):
    kind = kind or rng.choice(BASES)
    if kind == "db":
        return f"db:{rng.choice([0, 1, 1, 2, 2, 3, 4])}"
    if kind in ("th", "ag"):
        return f"{kind}:{rng.choice([0, 16, 16, 32, 32, 80])}"
    if kind == "cu":
        return rng.choice(["cu:always", "cu:never", "cu:notnum", f"cu:ge:{rng.choice([-16, 0, 5, 320])}"])
    return kind


def gen_case(rng, flt):
    n = rng.choice([0, 1, 2, 3, 5, 8, 12, 20, 30]) if rng.random() < 0.5 else rng.randint(2, 14)
    first = flt.split(">")[0]
    r = rng.random()
    if first.startswith("ag"):
        g = gen_nums if r < 0.75 else gen_bools if r < 0.85 else gen_falsy if r < 0.9 else gen_mixed
    elif r < 0.08:
        g = gen_bools
    elif r < 0.16:
        g = gen_falsy
    elif r < 0.55:
        g = gen_nums
    elif r < 0.67:
        g = gen_strs
    elif r < 0.79:
        g = gen_lists
    elif r < 0.88:
        g = gen_params
    elif r < 0.94:
        g = gen_param_mixed
    else:
        g = gen_mixed
    vals, vkind = g(rng, n)
    t0 = rng.choice([0, 0, 16000])
    times = gen_times(rng, n, t0)
    mode = rng.choice(["shared", "fresh"]) if vkind == "param" else "fresh"
    return (flt, t0, mode, [(t, v, i) for t, (v, i) in zip(times, vals)]), vkind


def gen_inplace(rng):
    """one container object owned by the caller: empty when first delivered (or cleared later), then changed in place and
    passed again as the same object; flat and nested lists / dicts"""
    shape = rng.choice(["l", "l", "L", "L", "D", "E"])
    nested = shape in "LE"
    is_list = shape in "lL"

    def elem():
        if not nested:
            return rng.randrange(6)
        return [rng.randrange(6) for _ in range(rng.choice([0, 1, 1, 2]))]

    r = rng.random()
    n0 = 0 if r < 0.55 else 1 if r < 0.8 else rng.randint(2, 3)
    cur = [elem() for _ in range(n0)] if is_list else {k: elem() for k in rng.sample(range(5), n0)}
    out = []
    for _ in range(rng.randint(2, 9)):
        out.append(container_text(cur, nested))
        r = rng.random()
        cur = [list(x) if nested else x for x in cur] if is_list else {k: (list(v) if nested else v) for k, v in cur.items()}
        if r < 0.22:
            pass                                              # dispatched again unchanged
        elif r < 0.5 or not cur:
            if is_list:
                cur.append(elem())
            else:
                cur[rng.randrange(5)] = elem()
        elif r < 0.62:
            cur.clear()
        elif nested and r < 0.85:                             # only an INNER container changes
            k = rng.randrange(len(cur)) if is_list else rng.choice(sorted(cur))
            if cur[k] and rng.random() < 0.3:
                cur[k].pop()
            else:
                cur[k].append(rng.randrange(6))
        elif r < 0.9:
            if is_list:
                del cur[0]
            else:
                del cur[rng.choice(sorted(cur))]
        else:
            if is_list:
                cur[rng.randrange(len(cur))] = elem()
            else:
                cur[rng.choice(sorted(cur))] = elem()
    r = rng.random()
    first = gen_base(rng, rng.choice(["oc", "oc", "db", "db", "de", "de", "th", "cu", "ag"]))
    flt = first if r < 0.7 else first + ">" + gen_base(rng, rng.choice(["oc", "db", "de", "th", "cu"]))
    t0 = 0
    times = gen_times(rng, len(out), t0)
    return (flt, t0, "inplace", [(t, v, False) for t, v in zip(times, out)]), "inplace-" + {"l": "list", "L": "nested-list", "D": "dict", "E": "nested-dict"}[shape]


def gen_cases(rng, tier, budget=None):
    quick = tier == "quick"
    per_base = 1500 if quick else 12000
    per_chain = 60 if quick else 800
    for kind in BASES:
        for _ in range(per_base):
            yield gen_case(rng, gen_base(rng, kind))
    for a in BASES:
        for b in BASES:
            for _ in range(per_chain):
                yield gen_case(rng, gen_base(rng, a) + ">" + gen_base(rng, b))
    for _ in range(2500 if quick else 30000):
        yield gen_inplace(rng)


# ---------------------------------------------------------------- checking
def f4_applies(flt, model):
    """the model says a delta stage raises (two differing Parameter values reached it): open finding F4"""
    stages = flt.split(">")
    if stages[0] == "de" and "!" in model[0]:
        return True
    if len(stages) == 2 and stages[1] == "de":
        return any(a.startswith("d") and b == "!" for a, b in zip(model[0], model[1]))
    return False


def stage_inputs(calls, prev_row):
    """the calls a later stage received: (time, value) of what the previous stage delivered"""
    return [(t, o[1:], False) for (t, _, _), o in zip(calls, prev_row) if o.startswith("d")]


def stage_local(row, prev_row):
    """outcomes of a later stage, one per call it received"""
    return [o for o, p in zip(row, prev_row) if p.startswith("d")]


def check_cases(res, cases, rng):
    """cases: list of ((flt,t0,mode,calls), label)"""
    clock_patch = time.monotonic
    time.monotonic = lambda: Clock.t
    try:
        async def all_impl():
            out = []
            for (flt, t0, mode, calls), _ in cases:
                out.append(await run_impl(flt, t0, mode, calls, rng))
            return out

        impl = vloop.run(all_impl())
    finally:
        time.monotonic = clock_patch
    answers = driver_batch(lean_line(c[0], c[1], c[3]) for c, _ in cases)
    judge_reqs, judge_idx = [], []
    for ci, (((flt, t0, mode, calls), label), (rows, anomalies)) in enumerate(zip(cases, impl)):
        stages = flt.split(">")
        for k, st in enumerate(stages):
            if k == 0:
                cs, os_ = calls, rows[0]
            else:
                cs, os_ = stage_inputs(calls, rows[0]), stage_local(rows[1], rows[0])
            os_ = ["!" if o == "!F4" else o for o in os_]
            if any(o.startswith("!") and o != "!" or o.startswith("d?") for o in os_):
                judge_reqs.append("c20judge-unparsable")
            else:
                judge_reqs.append(" ".join(["c20judge", lean_filter(st, t0)] + [f"{t}@{model_val(v)}" for t, v, _ in cs] + ["|"] + os_))
            judge_idx.append((ci, k))
    verdicts = driver_batch(judge_reqs)
    bad_judge = {}
    for (ci, k), v in zip(judge_idx, verdicts):
        if v != "pass":
            bad_judge.setdefault(ci, []).append((k, v))
    for ci, (((flt, t0, mode, calls), label), (rows, anomalies), ans) in enumerate(zip(cases, impl, answers)):
        text = case_text(flt, t0, mode, calls)
        stages = flt.split(">")
        inp = dict(case=text, label=label)
        if "|" in ans:
            model = [a.split(";") if a != "." else [] for a in ans.split("|")]
        else:
            model = [ans.split(";") if ans != "." else []]
        flat_model = model[-1]
        nontrivial = len(calls) >= 2 and (("-" in flat_model and any(o.startswith("d") for o in flat_model)) or "!" in flat_model)
        res.case(text, nontrivial)
        for st in stages:
            res.count("filter:" + st.split(":")[0])
        res.count("stages:%d" % len(stages))
        res.count("values:" + label)
        res.count("calls:" + ("0" if not calls else "1-3" if len(calls) <= 3 else "4-12" if len(calls) <= 12 else "13-30"))
        for o in rows[-1]:
            res.count("outcome:" + ("deliver" if o.startswith("d") else "raise" if o.startswith("!") else "skip"))
        f4 = f4_applies(flt, model)
        if f4:
            res.count("F4-input")
            if any(o == "!F4" for r in rows for o in r):
                if res.dist["F4-reproduced"] < 3:
                    res.fail("spec", inp, "delta delivers a difference (or nothing); it does not raise",
                             dict(outcomes=rows), "delta over Parameter objects raises AttributeError", finding="F4")
                res.count("F4-reproduced")
                obs = [["!" if o == "!F4" else o for o in r] for r in rows]
            else:
                if res.dist["F4-not-reproduced"] < 3:
                    res.notes.append("F4 no longer reproduces on: " + text)
                res.count("F4-not-reproduced")
                continue  # the implementation is better than the model here: accepted
        else:
            obs = rows
        if anomalies:
            res.fail("spec", inp, "each delivery happens once, at the clock reading of its call", anomalies,
                     "delivery time / multiplicity / the delivered object is the object passed in")
        if text in INNER_MUTATED and (ci in bad_judge or obs != model):
            # open finding F10: the remembered value is a SHALLOW copy, a change inside an inner container is not seen
            res.count("F10-reproduced")
            if res.dist["F10-reproduced"] <= 3:
                res.fail("spec", inp, dict(model=model), dict(outcomes=obs, judge=bad_judge.get(ci)),
                         "a change made in place to an INNER container of a dispatched list / dict is not delivered", finding="F10")
        elif ci in bad_judge:
            res.fail("spec", inp, dict(model=model), dict(outcomes=obs, judge=bad_judge[ci]),
                     "C20.spec fails on what the implementation delivered (stage, verdict): %s" % bad_judge[ci])
        elif obs != model:
            res.fail("corr", inp, model, obs, "filter machine and filters.py differ")
        if len(res.samples) < 6 and nontrivial and not any(s["filter"].split(":")[0] == flt.split(":")[0] for s in res.samples):
            res.sample(dict(filter=flt, case=text, delivered=obs[-1]))


def boundary_probe(res):
    """The exact tolerance boundary (outside the sixteenths grid of the Lean model): pairs of binary64 numbers whose
    difference is computed exactly by float subtraction and is the tolerance itself, or one ulp below / above it.
    Oracle from the statement: a value is a change iff it differs from the last delivered one by MORE than the
    tolerance (exact rational comparison; for these magnitudes the relative tolerance of isclose is far smaller)."""
    import asyncio
    import math
    from fractions import Fraction

    from pyplumio import filters

    tol = Fraction(filters.TOLERANCE)
    below, above = math.nextafter(filters.TOLERANCE, 0.0), math.nextafter(filters.TOLERANCE, 1.0)
    pairs = []
    for a in (0.0, 0.1, -0.05, 1.0, 20.0, -3.5, 0.2):
        for d in (filters.TOLERANCE, below, above, 0.0, 2 * filters.TOLERANCE):
            for sign in (1, -1):
                b = a + sign * d
                if Fraction(b) - Fraction(a) == Fraction(b - a):       # the float subtraction is exact
                    pairs.append((a, b))

    async def drive(make, seq):
        got = []

        async def cb(v):
            got.append(v)

        f = make(cb)
        for v in seq:
            await f(v)
        return got

    for a, b in pairs:
        changed = abs(Fraction(b) - Fraction(a)) > tol
        res.case(("boundary", a, b), True)
        res.count("boundary:" + ("changed" if changed else "within-tolerance"))
        for name, make, want in (
            ("on_change", filters.on_change, [a] + ([b] if changed else [])),
            ("delta", filters.delta, ([b - a] if changed else [])),
            ("debounce1", lambda cb: filters.debounce(cb, 1), [a] + ([b] if changed else [])),
        ):
            got = asyncio.run(drive(make, [a, b]))
            if got != want:
                res.fail("spec", dict(t="boundary", filter=name, values=[a.hex(), b.hex()], exact_difference=str(abs(Fraction(b) - Fraction(a))),
                                      tolerance=str(tol)), [x.hex() for x in want], [x.hex() if isinstance(x, float) else repr(x) for x in got],
                         f"{name}: a value that differs from the last delivered one by "
                         + ("more than" if changed else "no more than") + " the tolerance is " + ("not delivered" if changed else "delivered"))


# ---------------------------------------------------------------- several filter objects around ONE callback
def build_chain(flt, cb):
    nxt = cb
    for st in reversed(flt.split(">")):
        nxt = make_filter(st, nxt)
    return nxt


async def run_instances(flt, t0, n_inst, icalls):
    """the same factory expression evaluated n_inst times around the SAME callback object (one logger subscribed to
    several events); icalls: (inst, t, val, as_int).  -> outcome text per call"""
    got = {}
    cur = [None]

    async def cb(v):
        got.setdefault(cur[0], []).append(enc_value(v))

    Clock.t = t0 / TICK
    insts = [build_chain(flt, cb) for _ in range(n_inst)]
    outs = []
    for i, (k, t, v, as_int) in enumerate(icalls):
        Clock.t = t / TICK
        cur[0] = i
        try:
            await insts[k](py_value(v, as_int, None))
            d = got.get(i, [])
            outs.append("-" if not d else "d" + d[0] if len(d) == 1 else "dd")
        except ValueError:
            outs.append("!")
        except Exception as e:  # noqa: BLE001
            outs.append("!" + type(e).__name__)
    return outs


def gen_instances(rng):
    flt = gen_base(rng, rng.choice(["oc", "oc", "db", "th", "de", "ag", "cu"]))
    if rng.random() < 0.35:
        flt = flt + ">" + gen_base(rng, rng.choice(["oc", "th", "db", "cu"]))
    n_inst = rng.choice([2, 2, 3])
    t0 = 0
    n = rng.randint(3, 14)
    # coinciding streams: the instances see (nearly) the same values, in turn
    base, _ = (gen_nums if rng.random() < 0.7 else gen_falsy if rng.random() < 0.5 else gen_strs)(rng, n)
    if flt.startswith("ag") or ">ag" in flt:
        base, _ = gen_nums(rng, n)
    times = gen_times(rng, n, t0)
    icalls = []
    for (v, as_int), t in zip(base, times):
        order_ = list(range(n_inst))
        rng.shuffle(order_)
        for k in order_:
            if rng.random() < 0.85:
                icalls.append((k, t, v, as_int))
    return flt, t0, n_inst, icalls


def instances_text(flt, t0, n_inst, icalls):
    return " ".join(["instances", flt, str(t0), str(n_inst)] + [f"{k}={t}@{v}{'i' if a else ''}" for k, t, v, a in icalls])


def parse_instances(text):
    w = text.split()
    icalls = []
    for c in w[4:]:
        k, rest = c.split("=")
        t, v = rest.split("@")
        a = v.endswith("i")
        icalls.append((int(k), int(t), v[:-1] if a else v, a))
    return w[1], int(w[2]), int(w[3]), icalls


def check_instances(res, cases):
    clock_patch = time.monotonic
    time.monotonic = lambda: Clock.t
    try:
        async def all_impl():
            return [await run_instances(*c) for c in cases]

        impl = vloop.run(all_impl())
    finally:
        time.monotonic = clock_patch
    answers = driver_batch(" ".join(["c20m", lean_filter(c[0], c[1])] + [f"{k}={t}@{v}" for k, t, v, _ in c[3]]) for c in cases)
    judge_reqs, judge_idx = [], []
    for ci, (c, outs) in enumerate(zip(cases, impl)):
        flt, t0, n_inst, icalls = c
        if ">" in flt:
            continue
        for k in range(n_inst):
            cs = [(t, v) for (kk, t, v, _) in icalls if kk == k]
            os_ = [o for (kk, _, _, _), o in zip(icalls, outs) if kk == k]
            if any(o.startswith("!") and o != "!" or o.startswith("d?") or o == "dd" for o in os_):
                judge_reqs.append("c20judge-unparsable")
            else:
                judge_reqs.append(" ".join(["c20judge", lean_filter(flt, t0)] + [f"{t}@{v}" for t, v in cs] + ["|"] + os_))
            judge_idx.append((ci, k))
    verdicts = driver_batch(judge_reqs)
    bad = {}
    for (ci, k), v in zip(judge_idx, verdicts):
        if v != "pass":
            bad.setdefault(ci, []).append((k, v))
    for ci, (c, outs, ans) in enumerate(zip(cases, impl, answers)):
        text = instances_text(*c)
        model = [] if ans == "." else ans.split(";")
        res.case(text, len(c[3]) >= 4 and "-" in model and any(o.startswith("d") for o in model))
        res.count("label:instances")
        res.count("instances:%d" % c[2])
        for st in c[0].split(">"):
            res.count("filter:" + st.split(":")[0])
        inp = dict(case=text, label="instances")
        if ci in bad:
            res.fail("spec", inp, dict(model=model), dict(outcomes=outs, judge=bad[ci]),
                     "a filter object does not filter its own calls as a fresh filter would (instance, verdict): %s" % bad[ci])
        elif outs != model:
            res.fail("corr", inp, model, outs, "independent filter machines and filters.py differ")



# ---------------------------------------------------------------- numbers as binary64 (no grid): Model/FiltersF64.lean
def _ratio(x):
    n, d = float(x).as_integer_ratio()
    return f"{n}/{d}"


def gen_f64_seq(rng):
    """a sequence of finite doubles as the library meets them: decimal tenths / hundredths (the nearest doubles), values
    ACCUMULATED in float arithmetic (v += 0.1), neighbours exactly the tolerance / one ulp around it apart, large magnitudes where
    isclose's relative tolerance governs, tiny ones; some integral values passed as Python ints"""
    import math

    tol = filters.TOLERANCE
    mode = rng.choice(["tenths", "tenths", "hundredths", "accumulated", "ulp", "large", "large", "tiny", "mixed"])
    n = rng.randint(2, 12)
    if mode in ("tenths", "hundredths", "mixed"):
        p = 10 if mode == "tenths" else 100
        k = rng.choice([0, 1, 2, 3, 200, 201, -5, 999, rng.randrange(-600, 12000)]) * (p // 10)
        ks = []
        for _ in range(n):
            ks.append(k)
            k += rng.choice([0, 1, -1, 1, -1, 2, -2, 10, -10, 5, -5, 11, 9]) * (p // 10 if rng.random() < 0.7 else 1)
        vals = [k / p for k in ks]
        if mode == "mixed":
            vals = [v if rng.random() < 0.6 else math.nextafter(v, rng.choice([-math.inf, math.inf])) for v in vals]
    elif mode == "accumulated":
        v = rng.choice([0.0, 0.3, 20.0, -1.0, 0.7])
        vals = []
        for _ in range(n):
            vals.append(v)
            v = v + rng.choice([0.1, -0.1, 0.1, 0.05, -0.05, 0.2, 0.0, tol, 0.30000000000000004 - 0.2])
    elif mode == "ulp":
        a = rng.choice([0.0, 0.1, 1.0, 20.0, -3.5, 0.2, 64.0, 1e-3, rng.randrange(-500, 500) / 10])
        vals = [a]
        for _ in range(n - 1):
            d = rng.choice([tol, math.nextafter(tol, 0.0), math.nextafter(tol, 1.0), 2 * tol, 0.0, tol / 2])
            b = vals[-1] + rng.choice([1, -1]) * d
            if rng.random() < 0.3:
                b = math.nextafter(b, rng.choice([-math.inf, math.inf]))
            vals.append(b if rng.random() < 0.8 else a)
    elif mode == "large":
        a = rng.choice([1e6, 1e7, 1e8, 99999999.0, 100000001.0, 2e8, 200000000.0, 1e9, 1e10, 123456789.5, 2.0 ** 40, 1e12, 2.0 ** 49, 2.0 ** 52, 2.0 ** 53, 1e15,
                        1e17, 2.0 ** 80, 1e22, 1e100, 2.0 ** 1000]) * rng.choice([1, 1, -1])
        vals = [a]
        for _ in range(n - 1):
            r = 1e-9 * abs(vals[-1])
            u = math.ulp(vals[-1])
            b = vals[-1] + rng.choice([1, -1]) * rng.choice([0.05, 0.1, 0.15, 0.15, 0.2, r, r * 0.99, r * 1.01, r / 2, 1.0, 2.0, 0.0, u, 2 * u, 3 * u])
            vals.append(b if rng.random() < 0.85 else rng.choice(vals))
    else:
        a = rng.choice([1e-12, -1e-12, 5e-324, 1e-300, 0.0, -0.0])
        vals = [a]
        for _ in range(n - 1):
            vals.append(rng.choice([a, -a, a * 2, 0.1, 0.1 + a, 0.0, tol - a, -tol]))
    out = []
    for v in vals:
        if v == int(v) and abs(v) < 2 ** 40 and rng.random() < 0.3:
            v = int(v)
        out.append(v)
    return mode, out


def parse_f64_line(ln):
    """corpus line `f64 <filter> <value>*`: a value is a float literal (decimal or float.hex) or, with a trailing `i`, a Python int"""
    w = ln.split()
    vals = []
    for t in w[2:]:
        if t.endswith("i"):
            vals.append(int(t[:-1]))
        elif t.lstrip("-").startswith("0x"):
            vals.append(float.fromhex(t))
        else:
            vals.append(float(t))
    return (w[1], "corpus", vals)


def f64_section(res, rng, tier, only=None, extra=()):
    """on_change / debounce / delta over sequences of arbitrary finite doubles: implementation vs the exact binary64 model
    (`c20f`: math.isclose as CPython computes it with the tolerances the translator read from filters.py, rounded subtraction),
    and vs the STATEMENT read on the exact values ("differs by MORE than the tolerance") wherever the float subtraction of the two
    compared values is exact — at every magnitude (theorem C20F.changed_is_differs_of_exact)."""
    import asyncio
    from fractions import Fraction

    tol = Fraction(filters.TOLERANCE)
    cases = []
    if only is not None:
        cases = [only]
    else:
        cases.extend(extra)
        for _ in range(1500 if tier == "quick" else 40000):
            mode, vals = gen_f64_seq(rng)
            flt = rng.choice(["oc", "oc", "db:1", "db:2", "db:3", "de"])
            cases.append((flt, mode, vals))

    async def drive(flt, vals):
        got = {}
        cur = [None]

        async def cb(v):
            got.setdefault(cur[0], []).append(v)

        f = make_filter(flt, cb)
        errs = {}
        for i, v in enumerate(vals):
            cur[0] = i
            try:
                await f(v)
            except Exception as e:  # noqa: BLE001
                errs[i] = type(e).__name__
        return got, errs

    loop = asyncio.new_event_loop()
    try:
        impl = [loop.run_until_complete(drive(flt, vals)) for flt, _, vals in cases]
    finally:
        loop.close()
    answers = driver_batch(" ".join(["c20f", flt] + [_ratio(v) for v in vals]) for flt, _, vals in cases)
    for (flt, mode, vals), (got, errs), ans in zip(cases, impl, answers):
        inp = dict(t="f64", filter=flt, values=[(v.hex() if isinstance(v, float) else repr(v)) for v in vals], mode=mode)
        model = [] if ans == "." else ans.split(";")
        obs = []
        for i in range(len(vals)):
            if i in errs:
                obs.append("!" + errs[i])
            elif i not in got:
                obs.append("-")
            elif len(got[i]) > 1:
                obs.append("dd")
            else:
                obs.append("d" + str(Fraction(got[i][0])))
        mod = ["-" if m == "-" else "d" + str(Fraction(m[1:])) for m in model]
        nontrivial = len(set(o[0] for o in obs)) > 1
        res.case(("f64", flt, tuple(inp["values"])), nontrivial)
        res.count("binary64 numbers: " + mode)
        res.count("binary64 filter: " + flt.split(":")[0])
        # the statement on the exact values, wherever the float subtraction of the two compared values is exact (any magnitude)
        in_region = True
        kind = flt.split(":")[0]
        n = int(flt.split(":")[1]) if ":" in flt else None
        last, streak, want = None, 0, []
        for v in vals:
            if last is None:
                want.append("-" if kind == "de" else "d" + str(Fraction(v)))
                last = v
                continue
            exact = Fraction(v) - Fraction(last)
            try:
                fdiff = Fraction(float(v) - float(last))
            except (OverflowError, ValueError):
                fdiff = None
            if fdiff != exact:
                in_region = False
                break
            differs = abs(exact) > tol
            if kind == "db":
                streak = streak + 1 if differs else 0
                deliver = streak >= n
            else:
                deliver = differs
            if deliver:
                want.append("d" + str(exact if kind == "de" else Fraction(v)))
                last, streak = v, 0
            else:
                want.append("-")
        big = any(abs(v) >= 10 ** 6 for v in vals)
        if in_region:
            res.count("binary64: judged by the statement on the exact values" + (" (|x| >= 10^6)" if big else ""))
            if obs != want:
                res.fail("spec", inp, want, obs, f"{flt}: over these doubles (every compared pair has an exact float difference) a value is a change iff it "
                         "differs from the last delivered one (delta: the reference) by MORE than the tolerance")
                continue
        else:
            res.count("binary64: outside the exact reading (a float subtraction rounds): model only")
        if obs != mod:
            res.fail("corr", inp, mod, obs, "exact binary64 model of math.isclose / the float difference and filters.py differ")


# ---------------------------------------------------------------- a live Parameter changed through its own API between deliveries
def gen_setapi(rng):
    """`setapi <filter> <op>*`: ONE real Number parameter on a stub device (a queue), filtered; ops:
    R<v>,<min>,<max>  the controller reports the parameter: Parameter.update(values), then the filter is called with the object
                      (what create_or_update + dispatch do);
    S<v>[/<retries>]  the client calls Parameter.set(v) (the REAL coroutine, run as a task up to its first sleep: the value is written
                      into the live ParameterValues, pending_update is set, a request goes to the stub queue); no filter call;
    W                 one time-out period passes (set() retries / gives up);   D  the same object is dispatched again."""
    flt = rng.choice(["oc", "oc", "db:1", "db:2", "db:3", "cu:always", "db:0"])
    v = rng.choice([50, 1, 0, 99])
    mn, mx = 0, 100
    ops = [f"R{v},{mn},{mx}"]
    for _ in range(rng.randint(2, 9)):
        u = rng.random()
        if u < 0.35:
            nv = rng.choice([v + 10, v + 1, v - 1, v, 60, 55, 0, 100, 101])
            ops.append(f"S{nv}" + rng.choice(["", "", "/1", "/2"]))
            if rng.random() < 0.75:
                # the confirming report (sometimes a stale one first, sometimes moved bounds)
                if rng.random() < 0.25:
                    ops.append(f"R{v},{mn},{mx}")
                if rng.random() < 0.15:
                    mx = rng.choice([100, 120, 80])
                if mn <= nv <= mx:
                    v = nv
                ops.append(f"R{v},{mn},{mx}")
        elif u < 0.7:
            if rng.random() < 0.4:
                v = max(mn, min(mx, v + rng.choice([-5, 5, 1, -1, 10])))
            ops.append(f"R{v},{mn},{mx}")
        elif u < 0.85:
            ops.append("W")
        else:
            ops.append("D")
    return flt, ops


def setapi_section(res, rng, tier, only=None, extra=()):
    """a Parameter passed through on_change / debounce / custom while the client changes it with Parameter.set() between the
    controller's reports: what reaches the callback vs the filter machine run on the parameter states OBSERVED at each call (the model
    sees a Parameter value as the record (value, min, max, pending) at call time), and the judge C20.spec on the same."""
    import asyncio
    import logging

    class StubDevice:
        address = 0x45

        def __init__(self):
            self.queue = asyncio.Queue()

    class SParam(Number):
        async def create_request(self):
            return ("set", self.values.value)

        async def create_refresh_request(self):
            return ("refresh",)

    def enc(p):
        return f"p{p.values.value},{p.values.min_value},{p.values.max_value},{1 if p.pending_update else 0}"

    cases = [only] if only is not None else list(extra) + [gen_setapi(rng) for _ in range(400 if tier == "quick" else 8000)]

    async def drive(flt, ops):
        dev = StubDevice()
        box = dict(p=None, cur=None)
        calls, got, raised, notes, tasks = [], {}, {}, [], []

        async def cb(v):
            got.setdefault(box["cur"], []).append(enc(v) if isinstance(v, SParam) else "?" + repr(v)[:30])
            if v is not box["p"]:
                notes.append(f"call {box['cur']}: the delivered object is not the object the filter was called with")

        f = make_filter(flt, cb)

        async def call():
            i = len(calls)
            calls.append(enc(box["p"]))
            box["cur"] = i
            try:
                await f(box["p"])
            except Exception as e:  # noqa: BLE001
                raised[i] = type(e).__name__

        for op in ops:
            if op[0] == "R":
                vals = ParameterValues(*(int(x) for x in op[1:].split(",")))
                if box["p"] is None:
                    box["p"] = SParam(dev, NumberDescription("x"), vals)
                else:
                    box["p"].update(vals)
                await call()
            elif op[0] == "S" and box["p"] is not None:
                val, _, r = op[1:].partition("/")
                t = asyncio.get_running_loop().create_task(box["p"].set(int(val), retries=int(r or 5), timeout=1.0))
                t.add_done_callback(lambda t_: t_.cancelled() or t_.exception())
                tasks.append(t)
                for _ in range(4):
                    await asyncio.sleep(0)
            elif op[0] == "W":
                await asyncio.sleep(1.0)
            elif op[0] == "D" and box["p"] is not None:
                await call()
        for t in tasks:
            t.cancel()
        await asyncio.gather(*tasks, return_exceptions=True)
        return calls, got, raised, notes

    logging.disable(logging.CRITICAL)
    try:
        async def all_impl():
            return [await drive(flt, ops) for flt, ops in cases]

        impl = vloop.run(all_impl())
    finally:
        logging.disable(logging.NOTSET)
    lines, judges = [], []
    rows = []
    for (flt, ops), (calls, got, raised, notes) in zip(cases, impl):
        cl = [(i * TICK, c, False) for i, c in enumerate(calls)]
        row = []
        for i in range(len(calls)):
            if i in raised:
                row.append("!" + raised[i])
            elif i not in got:
                row.append("-")
            elif len(got[i]) > 1:
                row.append("dd")
            else:
                row.append("d" + got[i][0])
        rows.append(row)
        lines.append(lean_line(flt, 0, cl))
        judges.append("c20judge-unparsable" if any(o.startswith(("!", "d?", "dd")) for o in row) else
                      " ".join(["c20judge", lean_filter(flt, 0)] + [f"{t}@{v}" for t, v, _ in cl] + ["|"] + row))
    answers = driver_batch(lines)
    verdicts = driver_batch(judges)
    for (flt, ops), (calls, got, raised, notes), row, ans, verdict in zip(cases, impl, rows, answers, verdicts):
        text = " ".join(["setapi", flt] + list(ops))
        inp = dict(case=text, label="setapi", parameter_states_at_the_calls=calls)
        model = ans.split(";") if ans != "." else []
        res.case(text, len(calls) >= 2 and "-" in row and any(o.startswith("d") for o in row))
        res.count("Parameter.set() between deliveries: " + flt.split(":")[0])
        if any(o[0] == "S" for o in ops):
            k = next(i for i, o in enumerate(ops) if o[0] == "S")
            if any(o[0] in "RD" for o in ops[k + 1:]):
                res.count("Parameter.set() between deliveries: histories with a set() followed by a report / dispatch")
        if notes:
            res.fail("spec", inp, "the delivered object is the object passed in", notes, "delivered values are passed on unmodified")
        if verdict != "pass":
            res.fail("spec", inp, dict(model=model), dict(outcomes=row, judge=verdict),
                     "C20.spec fails on what the implementation delivered for a Parameter changed by Parameter.set() between the calls "
                     "(the values that differ from the last delivered one are the ones the callback must see)")
        elif row != model:
            res.fail("corr", inp, model, row, "filter machine and filters.py differ on a Parameter changed by Parameter.set() between the calls")


def eq_probe(res):
    """Filter.__eq__ / __hash__ for the object of every factory and every chain of two: against filters around the same / an
    equal (bound method) / another callback, raw callables, non-callables; list membership and list.remove as unsubscribe uses
    them; vs `c20eq` (Model/FiltersEq.lean)"""
    class Holder:
        async def meth(self, v):
            return None

    async def f0(v):
        return None

    async def f1(v):
        return None

    h = Holder()
    # callback classes: 0 = f0, 1 = f1, 2 = h.meth (a new, equal object per access)
    def cb(i):
        return [f0, f1, None][i] if i < 2 else h.meth

    specs = BASES + [a + ">" + b for a in BASES for b in BASES]
    defaults = dict(oc="oc", db="db:2", th="th:16", de="de", ag="ag:16", cu="cu:always")

    def build(spec, i):
        return build_chain(">".join(defaults[x] for x in spec.split(">")), cb(i))

    Clock.t = 0.0
    lines, expect = [], []
    for sa in specs:
        for ia in range(3):
            a = build(sa, ia)
            ops, words = [], []
            for sb in BASES + ["cu>oc"]:
                for ib in range(3):
                    ops.append(build(sb, ib))
                    words.append(f"f{ib}")
            for ib in range(3):
                ops.append(cb(ib))
                words.append(f"c{ib}")
            for x in (0, None, "cb", 1.5, ()):
                ops.append(x)
                words.append("x")
            got = "".join("1" if (a == x) is True else "0" if (a == x) is False else "?" for x in ops)
            refl = "".join("1" if (x == a) is True else "0" if (x == a) is False else "?" for x in ops)
            try:
                idx = str(ops.index(cb(ia)))
            except ValueError:
                idx = "-"
            try:
                hash(a)
                hashable = True
            except TypeError:
                hashable = False
            lines.append(" ".join(["c20eq", f"f{ia}"] + words))
            expect.append((sa, ia, got, refl, idx, hashable))
    answers = driver_batch(lines)
    for (sa, ia, got, refl, idx, hashable), ans in zip(expect, answers):
        res.case(("eq", sa, ia), True)
        res.count("Filter.__eq__ probe: " + ("chain" if ">" in sa else "base"))
        inp = dict(t="eq", filter=sa, callback=ia)
        if hashable:
            res.fail("corr", inp, "unhashable (Gen.filterFactories)", "hash(filter) works", "Filter defines __eq__ and no __hash__: filter objects are unhashable")
        if f"{got}|{idx}" != ans or refl != got:
            res.fail("corr", inp, ans, f"{got}|{idx} reflected {refl}",
                     "Filter.__eq__: a filter equals exactly the filters around an equal callback and the callables equal to its callback")


def run(ctx):
    rng = random.Random(ctx["seed"] * 7919 + 20)
    res = Result("C20")
    res.rule = ("call sequences (0..30 calls, non-decreasing clock readings with steps around the intervals) for each of "
                "on_change, debounce(0..4), throttle, delta, aggregate, custom(4 predicates) and every ordered pair chained; "
                "values: numbers k/16 (sub-tolerance drifts, steps of exactly 1 and 2 sixteenths, sign changes, |x| up to 10^6, "
                "as float / int / mixed), True / False among 0, 1, 1.0625, 1.125, the falsy values 0, 0.0, False, '', [], None as values, strings (incl. 'undefined'), integer lists, Parameter objects (fresh, or one object "
                "updated in place), Parameter objects MIXED with the plain values Parameter.__eq__ normalises (numbers around the value, True / False, 'on' / 'off') and some it cannot, mixed kinds. distinct = distinct case text; non-trivial = >= 2 calls with both a delivery "
                "and a non-delivery (or a raise)")
    cases = []
    for fn, ln in load_corpus("C20"):
        if not ln.startswith(("instances ", "f64 ", "setapi ")):
            cases.append((parse_case(ln), "corpus"))
    cases.extend(gen_cases(rng, ctx["tier"]))
    if ctx.get("max_cases"):
        cases = cases[: ctx["max_cases"]]
    check_cases(res, cases, rng)
    if not ctx.get("max_cases"):
        inst_cases = [parse_instances(ln) for _, ln in load_corpus("C20") if ln.startswith("instances ")]
        inst_cases += [gen_instances(rng) for _ in range(600 if ctx["tier"] == "quick" else 12000)]
        check_instances(res, inst_cases)
    boundary_probe(res)
    if not ctx.get("max_cases"):
        f64_section(res, rng, ctx["tier"], extra=[parse_f64_line(ln) for _, ln in load_corpus("C20") if ln.startswith("f64 ")])
        eq_probe(res)
        setapi_section(res, rng, ctx["tier"], extra=[(ln.split()[1], ln.split()[2:]) for _, ln in load_corpus("C20") if ln.startswith("setapi ")])
    res.notes.append("numbers: (a) all filters, chains and value kinds on multiples of 1/16 below 10^6 (every float operation exact: the sums of delta / "
                     "aggregate are exact there); (b) on_change / debounce / delta over ARBITRARY finite doubles (decimal tenths / hundredths, accumulated "
                     "floats, values exactly the tolerance or one ulp around it apart, magnitudes from 1e-324 to 2^1000) against the exact binary64 model of "
                     "math.isclose and the rounded difference (Model/FiltersF64.lean with the rel_tol / abs_tol the translator reads from the call in filters.py, "
                     "theorems Props/C20F64.lean, C20F64Pin.lean), and against the STATEMENT on the exact values wherever the float subtraction of the two compared "
                     "values is exact — at every magnitude up to 2^1000 (theorem changed_is_differs_of_exact).  What remains outside the literal reading: pairs whose "
                     "float difference rounds (an exact difference above 0.1 by less than half an ulp compares as unchanged: C20F.rounding_witness) — those are judged "
                     "against the model.  Excluded: NaN / infinities; ints beyond 2^53; the exact-sum laws of delta / aggregate outside the grid of (a) (float sums round)")
    res.notes.append("Parameter objects: (a) HParam objects whose record / pending flag the harness writes directly (modes fresh / shared); (b) section setapi: ONE real Number parameter "
                     "changed through Parameter.update() (controller report) and the real Parameter.set() coroutine (client) between the filter calls")
    return res


def replay(ctx):
    r = ctx["replay"]
    f = r.get("failure") or r.get("first_difference")
    res = Result("C20")
    res.rule = "replay of one recorded call sequence"
    if f["input"].get("t") == "boundary":
        boundary_probe(res)
        return res
    if f["input"].get("t") == "eq":
        eq_probe(res)
        return res
    if f["input"].get("t") == "f64":
        vals = [float.fromhex(v) if v.lstrip("-").startswith("0x") else int(v) for v in f["input"]["values"]]
        f64_section(res, random.Random(0), "quick", only=(f["input"]["filter"], f["input"].get("mode", "replay"), vals))
        return res
    if f["input"]["case"].startswith("instances "):
        check_instances(res, [parse_instances(f["input"]["case"])])
        return res
    if f["input"]["case"].startswith("setapi "):
        w = f["input"]["case"].split()
        setapi_section(res, random.Random(0), "quick", only=(w[1], w[2:]))
        return res
    check_cases(res, [(parse_case(f["input"]["case"]), f["input"].get("label", "replay"))], random.Random(0))
    return res

"""C09 correspondence: a real AsyncProtocol (real StreamReader, real queues, consumers_count 1..5)
on a fake transport under the virtual loop, fed with byte streams of enveloped frames in
batches; compared with the pool machine of Model/Pool.lean, and C09.spec judged by the Lean
driver on what the implementation showed.

Per frame the harness derives the model's INPUT (not an expectation) from the implementation
itself: class (data / program-version request / check-device request / other request), whether
the sender's device answers requests, and — with a twin frame object decoded against the same
device state — the data items the decoder yields or the bit "handling raises" (which payloads
raise is C05's business).  Frames whose decoding depends on device state (regulator data,
thermostat parameters) are always fed alone, so the twin sees the state the consumer sees.

Observed: every `dispatch(name, value)` task a consumer creates on a device (task factory of
the harness loop = the items handed to the device, attributed to frames by content), the
automatic replies among the frames written to the fake transport (the producer writes one
queued frame per read cycle; idle frames are fed at the end until the write queue is empty),
`queues.read._unfinished_tasks`, live consumer tasks, and whether `shutdown()` completes.
"""
import asyncio
import importlib
import json
import random
import re
import socket

from common import Result, driver_batch, load_corpus, use_repo
import framegen as fg
import pipefake
import producer
import fanout
import strshapes
import watchdog
import c09_logging
import c09_inject
from c09_payloads import PAYLOADS

use_repo()
from pyplumio.const import DeviceType, EncryptionType  # noqa: E402
from pyplumio.devices import PhysicalDevice, get_device_handler  # noqa: E402
from pyplumio.frames import Request, get_frame_handler  # noqa: E402
from pyplumio.protocol import AsyncProtocol  # noqa: E402
from pyplumio.structures.network_info import EthernetParameters, NetworkInfo, WirelessParameters  # noqa: E402

JUNK = 9999           # id reported for a delivered item that is no frame's content
PV_REQ, CD_REQ, PV_RESP, DA_RESP = 64, 48, 192, 176
PASSWORD, UID = 186, 185
OTHER_REQUESTS = [57, 58, 49, 50, 85, 61, 54, 92, 25, 24]
STATEFUL = {8, 220}   # decoding reads the device's state
DATA_KINDS = sorted(PAYLOADS)
ECOMAX, ECOSTER, ECONET, ALL = 69, 81, 86, 0

NETS = [
    None,
    dict(eth=dict(ip="192.168.1.2", netmask="255.255.255.0", gateway="192.168.1.1", status=True)),
    dict(wlan=dict(ip="10.0.0.5", netmask="255.0.0.0", gateway="10.0.0.1", status=True, ssid="tests", encryption=4, signal_quality=63)),
    dict(eth=dict(ip="172.16.3.4", netmask="255.255.0.0", gateway="172.16.0.1", status=True),
         wlan=dict(ip="192.168.9.9", netmask="255.255.255.128", gateway="192.168.9.1", status=False, ssid="zażółć", encryption=2, signal_quality=100)),
]


def net_objects(net):
    if not net:
        return None, None
    eth = EthernetParameters(**net["eth"]) if "eth" in net else None
    w = net.get("wlan")
    wlan = WirelessParameters(**{**w, "encryption": EncryptionType(w["encryption"])}) if w else None
    return eth, wlan


def net_payload(net):
    """DeviceAvailableResponse payload by the wire layout (independent of NetworkInfoStructure.encode)"""
    net = net or {}
    eth = dict(ip="0.0.0.0", netmask="255.255.255.0", gateway="0.0.0.0", status=False)
    eth.update(net.get("eth", {}))
    wlan = dict(ip="0.0.0.0", netmask="255.255.255.0", gateway="0.0.0.0", status=False, ssid="", encryption=1, signal_quality=100)
    wlan.update(net.get("wlan", {}))
    ip = socket.inet_aton
    ssid = wlan["ssid"].encode()
    return (b"\x01" + ip(eth["ip"]) + ip(eth["netmask"]) + ip(eth["gateway"]) + bytes([int(eth["status"])])
            + ip(wlan["ip"]) + ip(wlan["netmask"]) + ip(wlan["gateway"])
            + bytes([1, int(wlan["encryption"]), int(wlan["signal_quality"]), int(wlan["status"])])
            + b"\0" * 4 + bytes([len(ssid)]) + ssid)


def net_word(case):
    """the configured network information as the model takes it: the payload of a device-available
    response, built by the wire layout here and decoded by the Lean network decoder in the driver"""
    net = NETS[case["net"]] if isinstance(case["net"], int) else case["net"]
    return net_payload(net).hex()


def _ver_word():
    """the code's `VersionInfo()` defaults (incl. SOFTWARE_VERSION), read from the implementation"""
    from pyplumio.structures.program_version import VersionInfo
    v = VersionInfo()
    a, b, c = (int(x) for x in v.software.split(".", 2))
    return f"{a}.{b}.{c}.{bytes(v.struct_tag).hex() or '-'}.{int(v.struct_version)}.{bytes(v.device_id).hex() or '-'}.{bytes(v.processor_signature).hex() or '-'}"


try:
    VER_WORD = _ver_word()
except Exception:  # noqa: BLE001  (e.g. a version string with a non-numeric component: the model then has no version to encode)
    VER_WORD = "70000.0.0.ffff.5.7a00.000000"


# ------------------------------------------------------------------ frames

def wire(fr):
    """frame spec -> bytes.  env: ok | foreign | badcrc | unknownkind | unknownsender"""
    kind, sender, payload = fr["kind"], fr["sender"], bytes.fromhex(fr["payload"])
    env = fr.get("env", "ok")
    if env == "foreign":
        return fg.mk(kind, payload, rcpt=fr.get("rcpt", 1), sender=sender)
    if env == "unknownsender":
        return fg.mk(kind, payload, rcpt=86, sender=7)
    if env == "unknownkind":
        return fg.mk(99, payload, rcpt=86, sender=sender)
    b = bytearray(fg.mk(kind, payload, rcpt=fr.get("rcpt", 86), sender=sender))
    if env == "badcrc":
        b[-2] ^= 0x5A
    return bytes(b)


IDLE = fg.mk(PASSWORD, b"\x04idle", rcpt=1, sender=ECOMAX)  # not for us: one producer cycle, nothing enqueued

_ADDR = re.compile(r" at 0x[0-9a-fA-F]+")


def canon_value(v):
    r = _ADDR.sub("", repr(v))
    return r if len(r) <= 200 else r[:120] + f"…{len(r)}#{hash(r) & 0xFFFFFF:x}"


def frame_class(kind):
    path = get_frame_handler(kind)
    mod, cls = path.rsplit(".", 1)
    return getattr(importlib.import_module("pyplumio." + mod), cls)


def device_class(sender):
    path = get_device_handler(sender)
    mod, cls = path.rsplit(".", 1)
    return getattr(importlib.import_module("pyplumio." + mod), cls)


def exc_family(e):
    """the class of a decoder's exception at the granularity the pipeline distinguishes: the producer loop has
    handlers for ProtocolError, (OSError, TimeoutError) and Exception; the consumer for Exception"""
    from pyplumio.exceptions import ProtocolError
    fam = ("ProtocolError" if isinstance(e, ProtocolError) else "TimeoutError" if isinstance(e, asyncio.TimeoutError)
           else "OSError" if isinstance(e, OSError) else "other")
    return f"{fam}/{type(e).__name__}"


def classify(fr, proto):
    """-> dict(word, items, raises) : the model's input for this frame, derived from the implementation"""
    if fr.get("env", "ok") != "ok":
        return dict(word="s", items=[], raises=False, skip=True)
    kind, sender = fr["kind"], fr["sender"]
    fcls = frame_class(kind)
    cls = "p" if kind == PV_REQ else "c" if kind == CD_REQ else "o" if issubclass(fcls, Request) else "d"
    controller = int(sender == ECOMAX)
    items, raises, exc = [], False, None
    try:
        dcls = device_class(sender)
    except Exception as e:  # noqa: BLE001  no device class for this address: get_device_entry raises
        dcls, raises, exc = None, True, "entry:" + type(e).__name__
    if dcls is not None:
        name = DeviceType(sender).name.lower()
        dev = proto.data.get(name)
        if dev is None:
            dev = dcls(asyncio.Queue(), NetworkInfo())  # the state a freshly created entry has
        twin = fcls(recipient=DeviceType(fr.get("rcpt", 86)), sender=DeviceType(sender), message=bytearray(bytes.fromhex(fr["payload"])))
        twin.assign_to(dev)
        try:
            data = twin.data
            if data is not None:
                items = [(str(k), canon_value(v)) for k, v in data.items()]
        except Exception as e:  # noqa: BLE001
            raises, exc = True, exc_family(e)
    return dict(word=f"{cls}:{sender}:{controller}:{len(items)}:{int(raises)}", items=items, raises=raises, skip=False,
                sender=sender, exc=exc)


# ------------------------------------------------------------------ one case

def run_case(case):
    """the run under the case's logging configuration (dimension `log`, see c09_logging)"""
    with c09_logging.Logging(case.get("log") or "default"):
        return _run_case(case)


def _run_case(case):
    """case = dict(consumers, net (index into NETS or dict), batches=[[frame spec…]…])
    -> dict(words per batch, snapshots, final observation, extra)"""
    net = NETS[case["net"]] if isinstance(case["net"], int) else case["net"]
    n = case["consumers"]
    log = []  # (device, name, canon value) for every dispatch task created by a protocol task on a device
    with pipefake.Driven(hold_devices=bool(case.get("hold"))) as loop:
        eth, wlan = net_objects(net)
        proto = AsyncProtocol(ethernet_parameters=eth, wireless_parameters=wlan, consumers_count=n)

        def factory(lp, coro, **kw):
            task = asyncio.Task(coro, loop=lp, **kw)
            try:
                code = getattr(coro, "cr_code", None)
                if code is not None and code.co_name == "dispatch":
                    loc = coro.cr_frame.f_locals
                    owner = loc.get("self")
                    creator = asyncio.current_task(lp)
                    if isinstance(owner, PhysicalDevice) and creator is not None and creator in proto.tasks \
                            and loc.get("name") not in ("connected", "frame_errors", "loaded"):   # link state, set-up outcome (C16)
                        log.append((owner, str(loc.get("name")), canon_value(loc.get("value"))))
            except Exception as e:  # noqa: BLE001
                log.append((None, "harness-error", repr(e)))
            return task

        loop.set_task_factory(factory)
        reader = asyncio.StreamReader()
        writer = pipefake.FakeWriter()
        loop.call_soon(proto.connection_established, reader, writer)
        loop.settle()

        def consumers_alive():
            return sum(1 for t in proto.tasks if t.get_name().startswith("frame_consumer") and not t.done())

        frames, words, snaps = [], [], []   # frames: classification per position in the whole sequence
        delivered, pos, nextf = [], 0, 0
        delivered_dev = []                  # (frame id, device object that got its items) for the composed machine

        def attribute():
            """consume new log entries, attribute them to frames by content"""
            nonlocal pos, nextf
            cands = [(i, f) for i, f in enumerate(frames) if not f["skip"] and not f["raises"] and f["items"]]

            def matches(i, f, at):
                its = f["items"]
                if at + len(its) > len(log):
                    return False
                # "its device" = a device object for the sender's address (that there is only one such object is C10)
                return all(int(getattr(log[at + k][0], "address", -1)) == f["sender"] and log[at + k][1:] == its[k]
                           for k in range(len(its)))

            while pos < len(log):
                order = [c for c in cands if c[0] >= nextf] + [c for c in cands if c[0] < nextf]
                hit = next((c for c in order if matches(c[0], c[1], pos)), None)
                if hit is None:
                    delivered.append(JUNK)
                    pos += 1
                else:
                    delivered.append(hit[0])
                    delivered_dev.append((hit[0], log[pos][0]))
                    pos += len(hit[1]["items"])
                    nextf = max(nextf, hit[0] + 1)

        for bi, batch in enumerate(case["batches"]):
            held = bi == 0 and bool(case.get("hold"))
            # one step = the frames of this batch are received and the loop runs until nothing more can happen.  The step
            # (the twin decoding of classify() included: it is the same decoder) runs under a CPU watchdog: a frame whose
            # handling does not come back is "a received frame that stalls the pipeline", not a harness timeout
            with watchdog.Watchdog(watchdog.bound(len(batch))) as dog:
                loop.dog = dog
                cl = [classify(fr, proto) for fr in batch]
                frames.extend(cl)
                words.append((["H"] if held else []) + [c["word"] for c in cl])
                reader.feed_data(b"".join(wire(fr) for fr in batch))
                loop.settle()
                attribute()
            loop.dog = None
            if dog.fired:
                return dict(stalled=dict(batch=bi, cpu_s=dog.cpu_s))
            snaps.append(dict(delivered=list(delivered), unfinished=proto._queues.read._unfinished_tasks, alive=consumers_alive()))
            if held:
                # the class loading completes (for every address that asked): an empty batch for the model
                loop.hold_devices = False
                guard = 0
                while loop.held and guard < 50:
                    loop.release(0)
                    loop.settle()
                    guard += 1
                attribute()
                words.append([])
                snaps.append(dict(delivered=list(delivered), unfinished=proto._queues.read._unfinished_tasks, alive=consumers_alive()))
        # let every queued frame reach the transport: one frame is written per read cycle
        cycles = 0
        while not proto._queues.write.empty() and cycles < 600:
            reader.feed_data(IDLE)
            loop.settle()
            cycles += 1
        attribute()
        responses = []
        for b in writer.frames:
            if len(b) >= 10 and b[7] in (PV_RESP, DA_RESP):
                payload = b[8:-2]
                responses.append((b[7], b[3], b[4], b[5], b[6], payload.hex() or "-"))
        final = dict(delivered=list(delivered), unfinished=proto._queues.read._unfinished_tasks, alive=consumers_alive(),
                     responses=responses)
        t0 = loop.time()
        sd = loop.create_task(proto.shutdown())
        loop.settle()
        if not sd.done():
            loop.settle(until=loop.time() + 120.0)
        final["shutdown"] = bool(sd.done() and not sd.cancelled() and sd.exception() is None)
        extra = dict(drain_cycles=cycles, write_queue_left=proto._queues.write.qsize(), shutdown_virtual_s=loop.time() - t0,
                     written=len(writer.frames), log_len=len(log),
                     harness_errors=[x for x in log if x[1] == "harness-error"][:3])
        if not sd.done():
            sd.cancel()
        by_addr = {}
        for owner, _, _ in log:
            if owner is not None:
                by_addr.setdefault(int(getattr(owner, "address", -1)), set()).add(id(owner))
        for d in proto.data.values():
            by_addr.setdefault(int(getattr(d, "address", -1)), set()).add(id(d))
        extra["several_devices_for_one_address"] = any(len(v) > 1 for v in by_addr.values())
        # which device got which frame: named by (address of the object, 0 = it is THE published entry of that address /
        # k >= 1 = another object)
        pairs = []
        for fid, owner in delivered_dev:
            addr = int(getattr(owner, "address", -1))
            try:
                entry = proto.data.get(DeviceType(addr).name.lower())
            except ValueError:
                entry = None
            pairs.append((fid, addr if owner is entry else 1000 + addr))
        extra["delivered_to"] = sorted(pairs)
        extra["device_map"] = sorted(int(getattr(d, "address", -1)) for d in proto.data.values())
    return dict(words=words, snaps=snaps, final=final, extra=extra, frames=frames)


def lst(xs):
    xs = list(xs)
    return ",".join(xs) if xs else "-"


def show_snap(o, responses=None):
    r = "-" if responses is None else lst(".".join(str(x) for x in resp) for resp in responses)
    return f"{lst(str(i) for i in o['delivered'])} {r} {o['unfinished']} {o['alive']}"


# ------------------------------------------------------------------ generators

def F(kind, payload=b"", sender=ECOMAX, env="ok", rcpt=86):
    d = dict(kind=kind, sender=sender, payload=bytes(payload).hex())
    if env != "ok":
        d["env"] = env
    if rcpt != 86:
        d["rcpt"] = rcpt
    return d


def marker(i):
    return F(PASSWORD, b"\x04" + b"%04d" % (i % 10000), rcpt=0 if i % 7 == 3 else 86)


def valid(kind, rng):
    return bytes.fromhex(rng.choice(PAYLOADS[kind])[1])


def alert_ts(year, month, day, h=0, m=0, s=0):
    return ((((year - 2000) * 12 + (month - 1)) * 31 + (day - 1)) * 24 + h) * 3600 + m * 60 + s


def out_of_table(rng):
    """payloads with ids / dates outside the tables"""
    r = rng.randrange(7)
    if r == 0:   # regulator data schema with a type id >= 17
        n = rng.choice([1, 2, 3, 4, 5])
        body = b"".join(bytes([rng.choice([17, 18, 40, 255]), rng.randrange(256), rng.randrange(4)]) for _ in range(n))
        return F(213, bytes([n, 0]) + body)
    if r == 1:   # alert dated Feb 31 / Apr 31 / Feb 30 (the controller's 31-day months)
        y, mo, d = rng.choice([(2024, 2, 31), (2023, 4, 31), (2025, 2, 30), (2021, 6, 31), (2022, 2, 29)])
        ts = alert_ts(y, mo, d, rng.randrange(24), rng.randrange(60), rng.randrange(60))
        to = rng.choice([0xFFFFFFFF, ts + 60, alert_ts(2024, 2, 30)])
        return F(189, bytes([1, 0, 1, rng.randrange(256)]) + ts.to_bytes(4, "little") + to.to_bytes(4, "little"))
    if r == 2:   # schedule index >= 40
        idx = rng.choice([40, 41, 100, 255])
        return F(182, bytes([0x10, 0, 1, idx, rng.randrange(2), 5, 0, 30]) + bytes(rng.randrange(256) for _ in range(42)))
    if r == 3:   # ecoMAX parameters: count beyond the payload / beyond the table
        cnt = rng.choice([200, 255, 140])
        return F(177, bytes([0, rng.choice([0, 100, 138, 250]), cnt]) + bytes(rng.randrange(256) for _ in range(rng.randint(0, 30))))
    if r == 4:   # UID with inconsistent string lengths
        return F(185, bytes([rng.randrange(256), rng.randrange(256), rng.choice([0, 11, 200, 255])]) + bytes(rng.randrange(256) for _ in range(rng.randint(0, 20))))
    if r == 5:   # mixer / thermostat parameter blocks with counts beyond the payload
        return F(rng.choice([178, 220]), bytes([0, rng.randrange(40), rng.choice([1, 12, 255]), rng.randrange(6)]) + bytes(rng.randrange(256) for _ in range(rng.randint(0, 12))))
    return F(8, bytes.fromhex("62640001") + bytes(rng.randrange(256) for _ in range(rng.randint(0, 12))))


def undecodable(rng, kinds=None):
    """a frame with a valid envelope and a probably undecodable payload"""
    r = rng.random()
    kind = rng.choice(kinds or DATA_KINDS)
    if r < 0.45:
        p = valid(kind, rng)
        return F(kind, p[:rng.randint(0, max(0, len(p) - 1))])
    if r < 0.8:
        return F(kind, bytes(rng.randrange(256) for _ in range(rng.choice([0, 1, 2, 3, 5, 8, 13, 21, 40, 64]))))
    return out_of_table(rng)


def request(rng):
    r = rng.random()
    if r < 0.4:
        return F(CD_REQ, rcpt=rng.choice([86, 86, 0]))      # addressed to the library, or broadcast
    if r < 0.8:
        return F(PV_REQ, rcpt=rng.choice([86, 86, 0]))
    if r < 0.88:
        return F(rng.choice([CD_REQ, PV_REQ]), sender=ECOSTER)          # not the controller: no reply
    if r < 0.94:
        return F(rng.choice([CD_REQ, PV_REQ]), sender=rng.choice([ECONET, ALL]))   # no device class: raises
    return F(rng.choice(OTHER_REQUESTS))                                  # request without automatic reply


def skipped(rng):
    return F(rng.choice(DATA_KINDS + [CD_REQ, PV_REQ]), bytes(rng.randrange(256) for _ in range(rng.randint(0, 6))),
             env=rng.choice(["foreign", "badcrc", "unknownkind", "unknownsender"]))


def rebatch(rng, frames, mode=None):
    """cut a frame sequence into batches; stateful kinds always alone"""
    mode = mode or rng.choice(["one", "single", "random", "random"])
    out, cur = [], []

    def flush():
        nonlocal cur
        if cur:
            out.append(cur)
            cur = []
    for fr in frames:
        if fr["kind"] in STATEFUL and fr.get("env", "ok") == "ok":
            flush()
            out.append([fr])
            continue
        cur.append(fr)
        if mode == "single" or (mode == "random" and rng.random() < 0.35):
            flush()
    flush()
    return out


def mixed_case(rng, n=None, length=None):
    n = n or rng.choice([1, 2, 3, 3, 4, 5])
    length = length or rng.randint(4, 20)
    frames, mk = [], 0
    if rng.random() < 0.6:
        frames.append(marker(mk)); mk += 1
    if rng.random() < 0.4:
        frames.append(F(UID, valid(UID, rng)))
    while len(frames) < length:
        r = rng.random()
        if r < 0.40:
            burst = rng.choice([1, 1, 2, n, n + 1, 2 * n + 1])           # more raising frames than consumers
            frames.extend(undecodable(rng) for _ in range(burst))
        elif r < 0.60:
            frames.append(request(rng))
        elif r < 0.75:
            frames.append(marker(mk)); mk += 1
        elif r < 0.88:
            k = rng.choice(DATA_KINDS)
            frames.append(F(k, valid(k, rng), sender=rng.choice([ECOMAX] * 8 + [ECOSTER, ECONET])))
        else:
            frames.append(skipped(rng))
    frames.append(marker(mk))
    frames.append(rng.choice([F(CD_REQ), F(PV_REQ)]))
    case = dict(consumers=n, net=rng.randrange(len(NETS)), batches=rebatch(rng, frames))
    if rng.random() < 0.3:
        case["hold"] = True   # the first batch arrives while the device class is still being loaded
    return case


def truncation_cases(rng, points):
    """every decodable kind x truncation points of its payload, each surrounded by markers and requests,
    in bursts larger than the consumer pool"""
    todo = []
    for kind in DATA_KINDS:
        for label, h in PAYLOADS[kind]:
            p = bytes.fromhex(h)
            cuts = range(len(p) + 1) if points == "all" else sorted(set(
                [0, 1, 2, 3, len(p) // 2, max(0, len(p) - 2), max(0, len(p) - 1), len(p)] + [rng.randint(0, len(p)) for _ in range(points)]))
            todo.extend(F(kind, p[:c]) for c in cuts if c <= len(p))
    rng.shuffle(todo)
    i, cid = 0, 0
    while i < len(todo):
        n = 1 + cid % 5
        take = rng.choice([n + 1, 2 * n + 1, 7])
        chunk = todo[i:i + take]
        i += take
        frames = [marker(0), F(UID, valid(UID, rng))] if cid % 2 == 0 else []
        for j, fr in enumerate(chunk):
            frames.append(fr)
            if j % 3 == 1:
                frames.append(rng.choice([F(CD_REQ), F(PV_REQ)]))
        frames += [marker(1), F(CD_REQ), F(PV_REQ), marker(2)]
        yield dict(consumers=n, net=cid % len(NETS), batches=rebatch(rng, frames, mode=["one", "random", "single"][cid % 3]),
                   hold=(cid % 4 == 1))
        cid += 1


def big_frame(rng, valid_payload=True, embed=None):
    """a frame of the maximum length (1000 bytes = 990 payload bytes) whose payload carries, near its tail,
    header-shaped bytes: a complete small frame for us (a reader that rejected the big frame after its
    header would resynchronise inside the payload and hand THAT out).  valid: a password response whose
    text is ASCII (decodes, one data item); otherwise a regulator-data-schema response with garbage."""
    # (for the decodable variant every byte must be ASCII: request kinds 48 / 64 are, their XOR checksum then is too)
    inner = embed if embed is not None else rng.choice(
        [fg.mk(CD_REQ, b"", rcpt=86, sender=ECOMAX), fg.mk(PV_REQ, b"", rcpt=86, sender=ECOMAX)]
        + ([] if valid_payload else [fg.mk(PASSWORD, b"\x04evil", rcpt=86, sender=ECOMAX)]))
    tail = bytes(rng.choice(b"abcxyz0189") for _ in range(rng.randint(0, 12)))
    if valid_payload:
        n_fill = 990 - 1 - len(inner) - len(tail)
        body = b"\x04" + bytes(rng.choice(b"ABCDEFGHJKLMNPQRSTUVWXYZ23456789") for _ in range(n_fill)) + inner + tail
        assert len(body) == 990 and all(b < 0x80 for b in body)
        return F(PASSWORD, body)
    n_fill = 990 - 2 - len(inner) - len(tail)
    body = b"\xff\x7f" + bytes(rng.randrange(256) for _ in range(n_fill)) + inner + tail
    return F(213, body)


def big_cases(rng, k):
    """maximum-length frames between markers and controller requests"""
    for i in range(k):
        frames = [marker(0), big_frame(rng, True), marker(1), F(CD_REQ), big_frame(rng, False), marker(2), F(PV_REQ)]
        if i % 3 == 2:
            frames.insert(2, big_frame(rng, True))
        yield dict(consumers=1 + i % 5, net=i % len(NETS), batches=rebatch(rng, frames, mode=["one", "single", "random"][i % 3]))


def burst_cases(rng, sizes):
    """a burst of many frames in ONE chunk while every consumer is held up (the first batch arrives while the
    controller's device class is still being loaded): every received frame is queued — the read queue is not a
    place where frames get lost, however many pile up in front of the consumers"""
    for i, size in enumerate(sizes):
        frames, mk = [], 0
        while len(frames) < size:
            r = rng.random()
            if r < 0.78:
                frames.append(marker(mk)); mk += 1
            elif r < 0.90:
                frames.append(rng.choice([F(CD_REQ), F(PV_REQ)]))
            elif r < 0.96:
                frames.append(undecodable(rng, kinds=[k for k in DATA_KINDS if k not in STATEFUL]))
            else:
                frames.append(skipped(rng))
        tail = [marker(mk), F(CD_REQ), marker(mk + 1)]
        yield dict(consumers=1 + i % 5, net=i % len(NETS), batches=[frames, tail], hold=True)


# ---- string-bearing payloads drawn from shapes (strshapes.py) ----

UID_HEAD = bytes.fromhex(PAYLOADS[185][0][1])[:19]          # type, id, uid (length-prefixed), logo, image: up to the model-name length byte
NET_HEAD = bytes.fromhex(PAYLOADS[176][0][1])[:-6]          # device-available payload up to the SSID length byte
STRING_PLACES = ["uid-model", "password", "ssid", "regdata-string", "uid-uid"]


def string_frames(rng, place=None, family=None):
    """-> (label, [frame spec…]) : one received message whose payload carries a text of a shape family, at lengths up to
    the wire limit of the field"""
    place = place or rng.choice(STRING_PLACES)
    if place == "uid-model":
        fam, t = strshapes.shape(rng, 255, family)
        return f"{place}:{fam}", [F(UID, UID_HEAD + bytes([len(t)]) + t)]
    if place == "uid-uid":     # the length-prefixed uid bytes in front of the model name
        fam, t = strshapes.shape(rng, 255, family)
        name = b"EM350P2-ZF"
        return f"{place}:{fam}", [F(UID, UID_HEAD[:3] + bytes([len(t)]) + t + UID_HEAD[15:19] + bytes([len(name)]) + name)]
    if place == "password":
        fam, t = strshapes.shape(rng, rng.choice([255, 600, 989]), family)
        return f"{place}:{fam}", [F(PASSWORD, bytes([len(t) & 0xFF]) + t)]
    if place == "ssid":
        fam, t = strshapes.shape(rng, 255, family)
        return f"{place}:{fam}", [F(DA_RESP, NET_HEAD + bytes([len(t)]) + t)]
    # null-terminated strings of regulator data: a schema of 1..3 string entries (type ids 11 / 12), then the data message
    k = rng.randint(1, 3)
    texts, fams = [], []
    for _ in range(k):
        fam, t = strshapes.shape(rng, 300, family)
        texts.append(t.replace(b"\0", b"?"))
        fams.append(fam)
    schema = bytes([k, 0]) + b"".join(bytes([rng.choice([11, 12]), 100 + i, 0]) for i in range(k))
    body = bytes.fromhex("62640001") + b"\0" + b"".join(t + b"\0" for t in texts)
    if rng.random() < 0.3:
        body = body[:-1]                                       # the last terminator is missing
    return f"{place}:{fams[0]}", [F(213, schema), F(8, body)]


def string_cases(rng, k):
    """string-bearing frames between markers and controller requests; every place x every shape family comes up"""
    combos = [(p, f) for p in STRING_PLACES for f in strshapes.FAMILIES]
    rng.shuffle(combos)
    for i in range(k):
        n = 1 + i % 5
        frames = [marker(0)]
        labels = []
        for j in range(rng.choice([1, 1, 2, 3])):
            place, fam = combos[(i * 3 + j) % len(combos)] if j == 0 else (None, None)
            label, frs = string_frames(rng, place, fam)
            labels.append(label)
            frames.extend(frs)
            if rng.random() < 0.4:
                frames.append(rng.choice([F(CD_REQ), F(PV_REQ), marker(10 + j)]))
        frames += [marker(1), F(CD_REQ), F(PV_REQ), marker(2)]
        yield dict(consumers=n, net=i % len(NETS), batches=rebatch(rng, frames, mode=["single", "one", "random"][i % 3]),
                   hold=(i % 5 == 2), strings=labels)


def identical_cases(rng, k):
    """byte-identical consecutive frames (2..4 repeats): as the very first frames from the address (with the device class
    still loading, and not), and again later; data frames of several kinds, markers and controller requests.  Every one of
    them is a received frame: each is delivered / answered once"""
    for i in range(k):
        n = 1 + i % 5

        def pick():
            r = rng.random()
            if r < 0.4:
                return marker(rng.randrange(50))
            if r < 0.75:
                kind = rng.choice([x for x in DATA_KINDS if x not in STATEFUL])
                return F(kind, valid(kind, rng), sender=rng.choice([ECOMAX] * 6 + [ECOSTER]))
            if r < 0.9:
                return rng.choice([F(CD_REQ), F(PV_REQ)])
            return undecodable(rng, kinds=[x for x in DATA_KINDS if x not in STATEFUL])
        first = pick() if i % 4 else marker(7)
        frames = [dict(first) for _ in range(rng.randint(2, 4))]
        for _ in range(rng.randint(0, 3)):
            frames.append(pick())
        again = rng.choice([first, pick()])
        frames.extend(dict(again) for _ in range(rng.randint(2, 4)))
        if rng.random() < 0.5:
            frames.append(pick())
            frames.extend(dict(first) for _ in range(2))       # … and the first one again after something else
        frames += [F(CD_REQ), marker(99)]
        yield dict(consumers=n, net=i % len(NETS), batches=rebatch(rng, frames, mode=["one", "random", "single"][i % 3]),
                   hold=(i % 2 == 0), identical=True)


def decoder_class_cases(rng, k):
    """undecodable frames chosen by the CLASS of the exception their decoder raises: a device-available response cut at
    every point (cuts inside an IPv4 field make socket.inet_ntoa raise OSError -- the class the producer loop takes for a
    lost connection when it comes from the READER), regulator data with an IPv4 entry cut short, and the other kinds;
    each under every logging configuration, between markers and controller requests"""
    p176 = bytes.fromhex(PAYLOADS[DA_RESP][0][1])
    schema_ip = F(213, bytes([1, 0, 16, 100, 0]))          # one entry of type id 16 (IPv4)
    todo = [[F(DA_RESP, p176[:c])] for c in range(0, len(p176))]
    todo += [[schema_ip, F(8, bytes.fromhex("62640001") + b"\0" + bytes(rng.randrange(256) for _ in range(c)))] for c in range(0, 5)]
    for i in range(k):
        kind = rng.choice([x for x in DATA_KINDS if x not in STATEFUL])
        pl = valid(kind, rng)
        todo.append([F(kind, pl[:rng.randint(0, max(0, len(pl) - 1))])])
    for i, frs in enumerate(todo):
        for log in (c09_logging.MODES if i % 4 == 0 else ["debug", rng.choice(["default", "info", "debug-bare"])]):
            n = 1 + i % 5
            frames = [marker(0)] + [dict(f) for f in frs] * rng.choice([1, 1, n + 1]) + [marker(1), F(CD_REQ), F(PV_REQ), marker(2)]
            yield dict(consumers=n, net=i % len(NETS), batches=rebatch(rng, frames, mode=["one", "single", "random"][i % 3]),
                       hold=(i % 6 == 5), log=log)


def random_net(rng):
    def ip():
        return ".".join(str(rng.randrange(256)) for _ in range(4))
    net = {}
    if rng.random() < 0.7:
        net["eth"] = dict(ip=ip(), netmask=ip(), gateway=ip(), status=rng.random() < 0.8)
    if rng.random() < 0.7:
        net["wlan"] = dict(ip=ip(), netmask=ip(), gateway=ip(), status=rng.random() < 0.8,
                           ssid="".join(rng.choice("abcXYZ 09-_éł") for _ in range(rng.randint(0, 12))),
                           encryption=rng.randrange(5), signal_quality=rng.randrange(101))
    return net or None


# ------------------------------------------------------------------ evaluation

MAX_STALLS = 3   # every stalled step costs its whole CPU bound: after this many the run stops looking for more
STALL = dict(count=0, payloads=set())


def probe_stall(consumers, net, fr, after=None):
    """ONE frame through a real AsyncProtocol (no twin decoding): a marker first (the device exists), then the frame,
    the loop run to quiescence under the watchdog.  -> dict(stalled, cpu_s, later_delivered, later_answered)"""
    after = after or [marker(1), F(CD_REQ)]
    seen = []
    with pipefake.Driven() as loop:
        eth, wlan = net_objects(NETS[net] if isinstance(net, int) else net)
        proto = AsyncProtocol(ethernet_parameters=eth, wireless_parameters=wlan, consumers_count=consumers)
        reader, writer = asyncio.StreamReader(), pipefake.FakeWriter()
        loop.call_soon(proto.connection_established, reader, writer)
        loop.settle()
        reader.feed_data(wire(marker(0)))
        loop.settle()
        dev = proto.data.get("ecomax")
        if dev is not None:
            async def on_password(v):
                seen.append(v)
            dev.subscribe("password", on_password)
        with watchdog.Watchdog(watchdog.bound(1 + len(after))) as dog:
            loop.dog = dog
            reader.feed_data(wire(fr) + b"".join(wire(x) for x in after))
            loop.settle()
            for _ in range(4):
                reader.feed_data(IDLE)
                loop.settle()
        loop.dog = None
        answered = sum(1 for b in writer.frames if len(b) >= 10 and b[7] == DA_RESP)
        return dict(stalled=dog.fired, cpu_s=dog.cpu_s, later_delivered=len(seen), later_answered=answered)


def report_stall(res, case, r):
    """a step of the run did not come back within its CPU bound: find the frame, record the failing input"""
    STALL["count"] += 1
    bi = r["stalled"]["batch"]
    batch = case["batches"][bi]
    n, net = case["consumers"], case["net"]
    res.count("stalled-steps")
    for fr in batch:
        if fr.get("env", "ok") != "ok":
            continue
        key = (fr["kind"], fr["payload"])
        p = probe_stall(n, net, fr)
        if p["stalled"]:
            STALL["payloads"].add(key)
            res.fail("spec", dict(via="stall", consumers=n, net=net, frame=fr, cpu_bound_s=p["cpu_s"]),
                     "the frame is handled (delivered, or dropped when it cannot be decoded) and the pipeline goes on: the marker and "
                     "the check-device request received right after it are delivered / answered",
                     dict(handling_came_back=False, cpu_s_used_before_the_harness_cut_it=p["cpu_s"],
                          later_marker_delivered=p["later_delivered"], later_request_answered=p["later_answered"],
                          text=bytes.fromhex(fr["payload"])[-60:].decode("latin-1")),
                     f"a received frame (kind {fr['kind']}) stalls the pipeline: its handling monopolised the event loop for more than "
                     f"{p['cpu_s']:.0f} s of CPU (normal cost: milliseconds); nothing is delivered or answered meanwhile")
            return
    # no single frame of the step stalls on its own: the sequence up to the step is the failing input
    inp = dict(consumers=n, net=net, batches=case["batches"][:bi + 1], hold=bool(case.get("hold")))
    res.fail("spec", inp, "every step (frames received, loop run to quiescence) ends", r["stalled"],
             f"a step of the run did not come back within {r['stalled']['cpu_s']:.0f} s of CPU: received frames stall the pipeline")


def _creatable():
    out = []
    for a in (ECOMAX, ECOSTER, ECONET, ALL):
        try:
            device_class(a)
            out.append(a)
        except Exception:  # noqa: BLE001
            pass
    return out


CR_WORD = ",".join(map(str, _creatable())) or "-"


def evaluate(res, cases):
    runs, kept = [], []
    for c in cases:
        if STALL["count"] >= MAX_STALLS:
            res.count("not-run:after-%d-stalled-steps" % MAX_STALLS)
            continue
        if STALL["payloads"] and any((fr["kind"], fr["payload"]) in STALL["payloads"] for b in c["batches"] for fr in b):
            res.count("not-run:contains-a-frame-already-reported-as-stalling")
            continue
        r = run_case(c)
        if r.get("stalled"):
            res.case(("stall", json.dumps(c["batches"][r["stalled"]["batch"]], sort_keys=True)), nontrivial=True)
            report_stall(res, c, r)
            continue
        kept.append(c)
        runs.append(r)
    cases = kept
    model = driver_batch(
        f"c09 1 {c['consumers']} {net_word(c)} {VER_WORD} " + " | ".join(" ".join(ws) for ws in r["words"]) for c, r in zip(cases, runs))
    judge = driver_batch(
        f"c09judge {c['consumers']} {net_word(c)} " + " ".join(w for ws in r["words"] for w in ws if w != "H") + " | "
        + show_snap(r["final"], r["final"]["responses"]) + f" {int(r['final']['shutdown'])}" for c, r in zip(cases, runs))
    pipe = driver_batch(
        f"c09pipe {c['consumers']} {net_word(c)} {VER_WORD} {CR_WORD} " + " | ".join(" ".join(ws) for ws in r["words"]) for c, r in zip(cases, runs))
    for case, r, m, v, pm in zip(cases, runs, model, judge, pipe):
        frames = r["frames"]
        nrais = sum(1 for f in frames if f["raises"])
        nreq = sum(1 for f in frames if f["word"][0] in "pc" and f["word"].split(":")[2] == "1")
        nval = sum(1 for f in frames if not f["skip"] and not f["raises"] and f["items"])
        sig = (case["consumers"], json.dumps(case["net"], sort_keys=True), tuple(tuple(ws) for ws in r["words"]),
               tuple(fr["payload"] for b in case["batches"] for fr in b))
        res.case(sig, nontrivial=nrais > 0 and (nval > 0 or nreq > 0))
        res.count(f"consumers:{case['consumers']}")
        res.count("raising-frames:" + ("0" if nrais == 0 else "1..n" if nrais <= case["consumers"] else ">n"))
        res.count(f"batches:{min(len(case['batches']), 6)}{'+' if len(case['batches']) > 6 else ''}")
        for f, fr in zip(frames, (fr for b in case["batches"] for fr in b)):
            cls = "skip:" + fr.get("env", "") if f["skip"] else ("raises" if f["raises"] else "ok")
            res.count(f"frame:{fr['kind']}:{cls}")
        res.count(f"controller-requests:{min(nreq, 5)}")
        inp = dict(consumers=case["consumers"], net=case["net"], batches=case["batches"], hold=bool(case.get("hold")))
        if case.get("log"):
            inp["log"] = case["log"]
        res.count(f"first-batch-held:{int(bool(case.get('hold')))}")
        res.count("logging:" + (case.get("log") or "default"))
        for f in frames:
            if f.get("exc"):
                res.count("decoding-raises:" + f["exc"] + (" [DEBUG logging, formatted in the reader]" if case.get("log") == "debug" else ""))
        for lab in case.get("strings", []):
            res.count("string:" + lab.split(":")[0])
            res.count("string-shape:" + lab.split(":")[1])
        if case.get("identical"):
            res.count("identical-consecutive-frames" + (":first-frames-while-class-loading" if case.get("hold") else ""))
        if case.get("hold") and r["snaps"] and r["snaps"][0]["unfinished"] > case["consumers"]:
            res.count("held-with-more-frames-than-consumers")
        obs_final = show_snap(r["final"], r["final"]["responses"])
        if r["extra"]["several_devices_for_one_address"]:
            # frames landed on more than one device object for one address: that is C10's violation, and the twin
            # decoding (device state) is ambiguous then -- not judged here
            # … but WHERE each valid frame went is observed directly, without the twin: "delivered to its device" means the
            # device entry the connection has for the sender's address (Pipe machine: C09Pipe.handled_by_the_device)
            res.count("several-device-objects-for-one-address")
            astray = [tuple(p) for p in r["extra"]["delivered_to"] if p[0] != JUNK and p[1] >= 1000
                      and (case["batches"] and [fr for b in case["batches"] for fr in b][p[0]]["kind"] not in STATEFUL)]
            if astray:
                res.fail("spec", inp, "every valid frame is delivered to ITS device: the one device entry the connection holds for the "
                         "sender's address (C09Pipe.handled_by_the_device)",
                         dict(delivered_to_an_object_that_is_not_the_entry=astray[:8], device_map=r["extra"]["device_map"], words=r["words"]),
                         f"{len(astray)} valid frame(s) were handed to a device object that is not the connection's entry for the sender's "
                         "address: their data never reaches the device the application holds")
            continue
        if r["extra"]["harness_errors"]:
            raise RuntimeError(f"task-factory tap failed: {r['extra']['harness_errors']}")
        if v != "pass":
            if not any(f["kind"] == "spec" for f in res.failures):
                small = shrink(case)
                if small["batches"] != case["batches"]:
                    evaluate(res, [small])   # records the minimised failing input first
                    if any(f["kind"] == "spec" for f in res.failures):
                        res.extra["shrunk_from_frames"] = sum(len(b) for b in case["batches"])
            res.fail("spec", inp, "every decodable frame delivered once, every controller request answered once (kind, recipient, "
                     "network info), unfinished=0, consumers alive, shutdown completes (C09.spec)",
                     dict(final=obs_final, shutdown=r["final"]["shutdown"], judge=v, words=r["words"],
                          extra=r["extra"]),
                     "C09.spec fails on what the implementation showed: " + v)
        if m == "bad-op":
            res.fail("corr", inp, "model answer", "bad-op", "driver rejected the request")
            continue
        msnaps = m.split(" ; ")
        # intermediate snapshots: the replies still sit in the write queue, compare them at the end only
        exp = [" ".join(s.split(" ")[:1] + ["-"] + s.split(" ")[2:]) for s in msnaps[:-1]] + msnaps[-1:]
        got = [show_snap(s) for s in r["snaps"][:-1]] + [obs_final]
        # the drain at the end adds no deliveries; the model's last snapshot is after the last batch
        # the statement (and the theorems: a permutation) say WHICH frames are delivered, once each, not in which
        # order frames of different consumers / addresses reach their devices: compare the delivered ids as a multiset

        def canon_order(line):
            w = line.split(" ")
            if w[0] != "-":
                w[0] = ",".join(sorted(w[0].split(","), key=int))
            return " ".join(w)

        if [canon_order(x) for x in exp] != [canon_order(x) for x in got]:
            k = next((i for i, (a, b) in enumerate(zip(exp, got)) if canon_order(a) != canon_order(b)), min(len(exp), len(got)))
            res.fail("corr", inp, exp, got, f"pool machine and AsyncProtocol differ at batch {k}", words=r["words"])
        # the composed machine (Model/Pipe.lean): every delivered frame went to THE entry of its sender's address, the device
        # map holds one object per address that delivered or raised after creation, nothing is left in the write queue
        if pm != "bad-op":
            pw = pm.split(" ")
            exp_pairs = sorted((int(a), int(b)) for a, b in (x.split(".") for x in pw[0].split(","))) if pw[0] != "-" else []
            exp_map = sorted(int(x.split(".")[0]) for x in pw[1].split(",")) if pw[1] != "-" else []
            got_pairs = [tuple(p) for p in r["extra"]["delivered_to"] if p[0] != JUNK]
            if exp_pairs != got_pairs:
                res.fail("spec" if any(b >= 1000 for _, b in got_pairs) else "corr", inp, exp_pairs, got_pairs,
                         "composed pipeline: a delivered frame was not handled by THE device entry of its sender's address "
                         "(Pipe machine: C09Pipe.handled_by_the_device)")
            elif exp_map != r["extra"]["device_map"]:
                res.fail("corr", inp, exp_map, r["extra"]["device_map"], "composed pipeline: the device map differs from the Pipe machine's")
            res.count("composed-pipeline-compared")
        else:
            res.fail("corr", inp, "model answer", "bad-op", "driver rejected the c09pipe request")
        if not r["final"]["shutdown"] and v == "pass":
            res.fail("spec", inp, "shutdown completes", r["extra"], "shutdown() did not complete")
        if r["extra"]["write_queue_left"]:
            res.fail("corr", inp, 0, r["extra"], "write queue did not drain with one frame written per read cycle")
        if len(res.samples) < 6 and nrais > case["consumers"] and nreq and nval and len(frames) <= 14:
            res.sample(dict(consumers=case["consumers"], words=r["words"], final=obs_final, shutdown=r["final"]["shutdown"]))


def spec_fails(case):
    r = run_case(case)
    if r.get("stalled"):
        return False
    words = [w for ws in r["words"] for w in ws if w != "H"]
    if not words:
        return False
    v = driver_batch([f"c09judge {case['consumers']} {net_word(case)} " + " ".join(words) + " | "
                      + show_snap(r["final"], r["final"]["responses"]) + f" {int(r['final']['shutdown'])}"])[0]
    return v.startswith("fail")


def shrink(case, budget=120):
    """greedy one-frame-at-a-time reduction of a case on which C09.spec fails"""
    cur = dict(case, batches=[list(b) for b in case["batches"]])
    changed = True
    while changed and budget > 0:
        changed = False
        for bi in range(len(cur["batches"]) - 1, -1, -1):
            for fi in range(len(cur["batches"][bi]) - 1, -1, -1):
                if budget <= 0:
                    break
                trial = [list(b) for b in cur["batches"]]
                del trial[bi][fi]
                trial = [b for b in trial if b]
                if not trial:
                    continue
                budget -= 1
                t = dict(cur, batches=trial)
                try:
                    if spec_fails(t):
                        cur = t
                        changed = True
                        break
                except Exception:  # noqa: BLE001
                    pass
            if changed:
                break
    return cur


def loss_with_backlog(res):
    """The connection is lost while frames are pending behind consumers that are all held up in the first device
    creation; the class loading then completes: every consumer handles the frame it holds, finds `connected` cleared
    and ends.  JUDGED:
      * C09's own clause - the accounting stays balanced: unfinished = frames still queued (no consumer holds one),
        every frame was either handled once or is still queued, nothing lost or duplicated;
      * a backlog no larger than the pool is handled completely and shutdown() completes;
      * with MORE frames than consumers the rest stays in the read queue with no live consumer and nothing connected,
        and shutdown() waits in Queues.join for ever: exactly the state open finding F1 (filed under C12, the
        property about close() returning) describes - "a non-empty read queue and no live consumer".  The harness
        evaluates F1's match predicate on what it observed (shutdown suspended in Queues.join, read queue non-empty,
        no consumer task alive, `connected` cleared) and tags the failure finding="F12" (known_findings.json, property C09: the same root cause as F1) only then; a shutdown() that
        hangs in any other state is an untagged failure of C09's "a later shutdown can complete"."""
    import connrun

    for nframes, consumers in ((3, 3), (5, 3), (4, 1), (9, 2)):
        hist = (f"loss with backlog: consumers_count={consumers}, {nframes} marker frames in one chunk while the first device class is loading, "
                "end of stream, the class loading completes, shutdown()")
        with pipefake.Driven(hold_devices=True) as loop:
            proto = AsyncProtocol(consumers_count=consumers)
            handled = []
            orig = PhysicalDevice.handle_frame

            def spy(self, frame, _o=orig, _h=handled):
                _h.append(bytes(frame.message))
                return _o(self, frame)

            PhysicalDevice.handle_frame = spy
            try:
                reader, writer = asyncio.StreamReader(), pipefake.FakeWriter()
                loop.call_soon(proto.connection_established, reader, writer)
                loop.settle()
                reader.feed_data(b"".join(wire(marker(i)) for i in range(nframes)))
                loop.settle()
                reader.feed_eof()
                loop.settle()
                while loop.held:
                    loop.release(0)
                    loop.settle()
                queued = proto._queues.read.qsize()
                unfinished = proto._queues.read._unfinished_tasks
                alive = sum(1 for t in proto.tasks if t.get_name().startswith("frame_consumer") and not t.done())
                connected = proto.connected.is_set()
                sd = loop.create_task(proto.shutdown())
                loop.settle()
                loop.settle(until=loop.time() + 600.0)
                loop.settle()
                done = sd.done()
                chain = [] if done else connrun.coro_chain(sd)
                if not done:
                    sd.cancel()
                    loop.settle()
            finally:
                PhysicalDevice.handle_frame = orig
        res.case(hist, True)
        obs = dict(frames=nframes, consumers=consumers, handled=len(handled), left_in_read_queue=queued, unfinished=unfinished,
                   consumers_alive=alive, connected=connected, shutdown_completes=done, blocked_in=chain)
        res.extra.setdefault("loss_with_backlog", []).append(obs)
        expect_handled = [bytes.fromhex(marker(i)["payload"]) for i in range(nframes)]
        if unfinished != queued or len(handled) + queued != nframes or handled != expect_handled[:len(handled)] or len(set(handled)) != len(handled):
            res.fail("spec", dict(history=hist), "unfinished = frames still queued; handled ++ queued = received, each once, in order", obs,
                     "the accounting of received frames stays balanced (loss with a backlog)")
            continue
        if nframes <= consumers and (queued or not done):
            res.fail("spec", dict(history=hist), "a backlog no larger than the pool is handled and shutdown() completes", obs,
                     "a later shutdown can complete")
            continue
        if done:
            res.count("loss-with-backlog:shutdown-returned")
            if queued:
                res.notes.append(f"finding F1 (read-queue side, reached by C09's loss-with-backlog history {nframes}/{consumers}) no longer reproduces")
            continue
        f1 = "shutdown" in chain and "join" in chain and queued > 0 and alive == 0 and not connected
        res.count("loss-with-backlog:" + ("F1:stuck" if f1 else "stuck-other"))
        if f1:
            res.fail("spec", dict(history=hist), "a later shutdown can complete", obs, "a later shutdown can complete", finding="F12")
        else:
            res.fail("spec", dict(history=hist), "a later shutdown can complete", obs,
                     "a later shutdown can complete (shutdown() blocked, not the state of known finding F1)")


def parse_case(line):
    return json.loads(line)


def run(ctx):
    rng = random.Random(ctx["seed"] * 15485863 + 9)
    res = Result("C09")
    res.rule = ("sequence of enveloped frames in batches (consumers_count 1..5, frames addressed to the library or broadcast, 4 network configurations + random): captured payloads of every "
                "decodable kind cut at truncation points, random payloads, out-of-table ids (schema type >= 17, schedule >= 40, "
                "31-day-month alert dates, counts beyond the payload), controller requests 64/48 (and from ecoSTER / addresses "
                "without a device class), other requests, frames the reader rejects; bursts of undecodable frames larger than the "
                "consumer pool, followed by valid marker frames; string-bearing payloads (UID model name and uid, password, SSID of a device-available frame, null-terminated regulator-data strings) with texts drawn from shape families (runs of letters, words and repeated blanks, digits, letters+1..4 digits, repeated separators, two-character periods, multi-byte and invalid UTF-8) at lengths up to the wire limit of the field; byte-identical consecutive frames (2..4 repeats, as first frames and later); every case under a logging configuration of the application (disabled / INFO with a formatting handler / DEBUG with a formatting handler: the reader's 'Received frame' line decodes the frame in the producer / DEBUG without handler); undecodable frames by the class of their decoder's exception (device-available response cut at every point: OSError inside the IPv4 fields; regulator-data IPv4 entries); every step under a CPU watchdog (a step that does not come back = a frame that stalls the pipeline); maximum-length (1000-byte) frames, decodable and not, carrying a complete small frame near their tail; bursts of 35..2200 frames in one chunk while all consumers are held up in the first device creation. distinct = (consumers, network, classified sequence, payloads); "
                "non-trivial = at least one raising frame together with a valid frame or a controller request")
    cases = [parse_case(ln) for _, ln in load_corpus("C09")]
    ncorpus = len(cases)
    cases.extend(big_cases(random.Random(1000), 6))            # maximum-length frames (boundary of the reader's length gate)
    cases.extend(big_cases(rng, 30 if ctx["tier"] == "quick" else 300))
    cases.extend(burst_cases(rng, [40, 60, 130, 150, 1100] if ctx["tier"] == "quick" else [35, 40, 60, 110, 130, 150, 300, 700, 1100, 2200]))
    cases.extend(string_cases(rng, 180 if ctx["tier"] == "quick" else 3000))
    cases.extend(identical_cases(rng, 120 if ctx["tier"] == "quick" else 2000))
    if ctx["tier"] == "thorough":
        cases.extend(truncation_cases(rng, "all"))
        for _ in range(15000):
            c = mixed_case(rng)
            if rng.random() < 0.3:
                c["net"] = random_net(rng)
            cases.append(c)
        res.extra["truncation_points"] = "every prefix of every captured payload of every decodable kind"
    else:
        cases.extend(truncation_cases(rng, 3))
        for _ in range(900):
            c = mixed_case(rng)
            if rng.random() < 0.2:
                c["net"] = random_net(rng)
            cases.append(c)
    cases.extend(decoder_class_cases(rng, 20 if ctx["tier"] == "quick" else 400))
    # the logging configuration of the application is a dimension of every generated case (corpus lines say their own)
    for c in cases[ncorpus:]:
        if "log" not in c:
            c["log"] = rng.choice(["default", "default", "debug", "debug", "info", "debug-bare"])
    if ctx.get("max_cases"):
        cases = cases[:ctx["max_cases"]]
    evaluate(res, cases)
    # the producer stage against the producer machine (Model/Producer.lean): streams built from the same frames,
    # write-fault scripts, puts by other tasks, foreign disconnects, end of stream / silence
    streams = []
    for c in cases[:400]:
        frs = [fr for b in c["batches"] for fr in b]
        if frs:
            k = rng.randint(1, min(len(frs), 8))
            streams.append(b"".join(wire(fr) for fr in frs[:k]))
    loss_with_backlog(res)
    c09_inject.run_section(res, rng, ctx["tier"])
    fanout.run_section(res, rng, 150 if ctx["tier"] == "quick" else 4000, "C09")
    producer.run_section(res, rng, 400 if ctx["tier"] == "quick" else 6000, "C09", streams)
    res.rule += ("; producer stage: byte streams of such frames and noise x write-fault scripts (OSError / timeout at any cycle), "
                 "puts by other tasks at any cycle boundary, foreign disconnects, end of stream or silence, compared with the "
                 "producer machine at every quiescent point")
    # the same reader / connection in a process with HISTORY (calls abandoned at every suspension point of read(), the
    # Frame.create executor hop with its job pending included; each history in a fresh python process): harness/history.py
    import history
    history.evaluate(res, random.Random(ctx["seed"] * 7919 + 909), ctx["tier"], "C09", 12 if ctx["tier"] == "quick" else None)
    res.rule += ("; connections opened after an earlier one was ended (reader time-out / tasks cancelled / shutdown) while its producer "
                 "sat in Frame.create with the executor job pending, or whose tasks were cancelled while a consumer sat in PhysicalDevice.create with the device-class import pending, each history in a fresh process")
    return res


def replay(ctx):
    f = ctx["replay"].get("failure") or ctx["replay"].get("first_difference")
    inp = f["input"]
    res = Result("C09")
    if inp.get("via") == "history":
        import history
        res.rule = "replay of one recorded history of connections in a fresh process"
        history.replay_case(res, inp, "C09")
        res.case(str(inp["scenario"]))
        return res
    if inp.get("via") == "producer":
        res.rule = "replay of one recorded producer run"
        producer.replay_case(res, inp, "C09")
        res.case(inp["stream"])
        return res
    if inp.get("via") == "fanout":
        res.rule = "replay of one recorded sub-device fan-out run"
        fanout.replay_case(res, inp, "C09")
        res.case(json.dumps(inp["frames"]))
        return res
    if inp.get("via") == "inject":
        res.rule = "replay of one injected decoder / reader fault"
        c09_inject.replay_case(res, inp)
        return res
    if inp.get("via") == "stall":
        res.rule = "replay of one recorded frame that stalled the pipeline"
        res.case(json.dumps(inp["frame"], sort_keys=True))
        p = probe_stall(inp["consumers"], inp["net"], inp["frame"])
        if p["stalled"]:
            res.fail("spec", inp, "the frame is handled and the pipeline goes on", p,
                     f"a received frame (kind {inp['frame']['kind']}) stalls the pipeline: handling used more than {p['cpu_s']:.0f} s of CPU")
        return res
    res.rule = "replay of one recorded frame sequence"
    evaluate(res, [dict(consumers=inp["consumers"], net=inp["net"], batches=inp["batches"], hold=bool(inp.get("hold")), log=inp.get("log"))])
    return res

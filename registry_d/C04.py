from registry_common import COMMON_ASSUME

ENTRY = dict(
    title="Stream reassembly is fragmentation-independent; skipped frames never desync it",
    design_ref="DESIGN.md section 6 / C04",
    prop_modules=["C04", "TieFrame", "TieReader"],
    technique="Lean 4 theorems by induction over frame sequences (reader model) + correspondence under 5-6 chunkings incl. lazily fed chunks",
    level_text=(
        "Proof: `C04.one_frame` (any well-formed frame, any recipient/sender/kind/payload/last byte, followed by anything, is consumed exactly "
        "and classified by its own gates), `C04.stream` (induction: every finite back-to-back sequence is read as exactly those frames, once, "
        "in order, each call consuming its own bytes), `C04.delivered_exactly` (delivered sub-list = frames passing the three gates), "
        "`C04.prefix_determinism` (a non-EOF outcome is decided by the consumed bytes; later bytes untouched). Tie: generated frame sequences "
        "(foreign frames with checksum byte 0x68, delimiter-salted payloads) through the real FrameReader on a real StreamReader under 5-6 "
        "chunkings, compared with the statement-derived expectation and with the model."),
    level_note="Byte semantics proved; independence from chunking/arrival timing rests on asyncio.StreamReader (exercised with lazily fed chunks, not modelled).",
    clauses={
        "every frame sequence classified once and in order": "theorem (C04.stream, C04.delivered_exactly)",
        "skipped/rejected frames never desync": "theorem (C04.one_frame consumes exactly the frame)",
        "protocol level: the deliverable frames reach the device each once and in order for every chunking / arrival timing, bursts of any length":
            "theorem (C09Producer.wellformed_sequence_enqueued, burst_enqueued, burst_all_queued; C09.delivered_exactly_once) + correspondence (harness/c09_wire.py: real AsyncProtocol, 5 chunkings x held consumers x bursts of 300..1200 frames, delivery order at the device)",
        "independence from chunking and arrival timing": "theorem for the byte content (C04.prefix_determinism) + correspondence (StreamReader trusted)",
    },
    assumptions=COMMON_ASSUME,
)

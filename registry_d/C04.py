from registry_common import COMMON_ASSUME

ENTRY = dict(
    title="Stream reassembly is fragmentation-independent; skipped frames never desync it",
    design_ref="DESIGN.md section 6 / C04",
    prop_modules=["C04", "C04Chunks", "C04Sched", "TieFrame", "TieReader", "TieChunks"],
    technique="Lean 4 theorems by induction over frame sequences (reader model) + correspondence under 5-6 chunkings incl. lazily fed chunks + code tie (TieReader.read_eq) + resumable reader machine: chunk independence and every interleaving of arrival and reader progress as theorems (C04Chunks, C04Sched), implementation observed at every suspension",
    level_text=(
        "Proof: `C04.one_frame` (any well-formed frame, any recipient/sender/kind/payload/last byte, followed by anything, is consumed exactly "
        "and classified by its own gates), `C04.stream` (induction: every finite back-to-back sequence is read as exactly those frames, once, "
        "in order, each call consuming its own bytes), `C04.delivered_exactly` (delivered sub-list = frames passing the three gates), "
        "`C04.prefix_determinism` (a non-EOF outcome is decided by the consumed bytes; later bytes untouched). Tie: generated frame sequences "
        "(foreign frames with checksum byte 0x68, delimiter-salted payloads) through the real FrameReader on a real StreamReader under 5-6 "
        "chunkings, compared with the statement-derived expectation and with the model."),
    level_note="Byte semantics proved; independence from chunking/arrival timing proved for the resumable reader machine given the buffer contract of StreamReader.read(1)/readexactly(n) (that contract is trusted and exercised at every suspension). "
               "The resumable machine is hand-written: TieChunks.runScan_is_read1 / runHeader_is_readexactly / runBody_is_readexactly / resume_blocked_is_wait show that its three phases use exactly those buffer primitives "
               "and suspend exactly in their waits; the TRANSLATED FrameReader.read is run on the concatenation only (translated_read_chunked), its suspended form is tied to the machine by the harness's observation at every suspension, not by a theorem.",
    clauses={
        "a reader / a connection in a process with HISTORY -- earlier read() calls abandoned (READER_TIMEOUT through the real @timeout, a caller's wait_for, cancellation; a connection ended by reader time-out / cancel_tasks / shutdown() while its producer was reading) at EVERY suspension point of read(), the Frame.create executor hop with its job still pending included (the awaiting task is cancelled and asyncio cancels the awaited run_in_executor future with it; harness/vloop.py's executor is checked against the real thread-pool executor in this respect on every run): well-formed frames that arrive afterwards (same handler module and the other two; same reader and new readers) are each delivered once and in order":
            "theorem (C14.history_leaves_no_residue / next_call_after_history_is_read, Props/C14History.lean registered under C14: the rest of a session after ANY history is the session of a fresh reader on what arrived minus what was consumed, to which C04.stream applies) + correspondence (harness/history.py: reader histories in fresh python processes vs Model/ReaderSession.sessionX)",
        "every frame sequence classified once and in order": "theorem (C04.stream, C04.delivered_exactly)",
        "skipped/rejected frames never desync": "theorem (C04.one_frame consumes exactly the frame)",
        "protocol level: the deliverable frames reach the device each once and in order for every chunking / arrival timing, bursts of any length":
            "theorem (C09Producer.wellformed_sequence_enqueued, burst_enqueued, burst_all_queued; C09.delivered_exactly_once) + correspondence (harness/c09_wire.py: real AsyncProtocol, 5 chunkings x held consumers x bursts of 300..1200 frames, delivery order at the device)",
        "independence from chunking and arrival timing": "theorem: C04.chunk_independent (readChunks eager cs = readAll cs.flatten for ALL chunk lists and arrival schedules, over the resumable reader machine of Model/ReaderChunks that is suspended at its three await points), C04.call_chunk_independent, any_two_chunkings, resumption, stream_chunked; for ARBITRARY interleavings of arrivals and reader runs (small-step system Model/ReaderSched): C04.every_interleaving_prefix (at every moment the completed calls are a prefix of readAll on the concatenation), every_interleaving_complete, interleavings_agree, a_fair_schedule_reaches_the_end, stream_every_interleaving; C04.prefix_determinism for the byte content. Trusted is only the contract of StreamReader.read(1) / readexactly(n) on a buffer (stated in Model/ReaderChunks) + correspondence (implementation observed at every suspension under random arrival schedules against that machine)",
    },
    assumptions=COMMON_ASSUME,
)

from registry_common import COMMON_ASSUME

ENTRY = dict(
        title="Schedule edits touch exactly the addressed slots; commit sends the edited week",
        design_ref="DESIGN.md section 6 / C18",
        prop_modules=["C18", "C18Heap", "C18Unaligned", "TieSchedule", "C18Time", "TieStructSchedules"],
        technique="Lean 4 theorems over all days / bitmaps / edit sequences (model of set_state, the bitmap codec, the device's receive-edit-commit pipeline) + translator tables + correspondence with ScheduleDay.set_state and with a real EcoMAX device (handle_frame, Schedule objects, Schedule.commit) + code tie: the schedules decoder / encoder translated from their source text on each run (Props/TieSchedule, TieStructSchedules) + an exact specification of strptime %H:%M validated exhaustively against CPython (Props/C18Time)",
        level_text=(
            "Proof: `C18.set_exact` (a call succeeds iff state valid, times parse, end after start; the day afterwards differs exactly on slots lo..hi, "
            "all set to the state), `set_length`, `set_error_inert`, `set_error_iff`, `time_range_aligned` (aligned times address the statement's slots, "
            "00:00 end = slot 47) and `holds_set` (the statement's predicate C18.specSet holds of the model for every 48-slot day, state string and "
            "aligned pair); non-aligned minutes (Props/C18Unaligned.lean): `set_unaligned` / `set_exact_unaligned` (ANY parsed times: ok iff state valid and "
            "end after start on EXACT minutes with exactly 00:00 read as 23:30; the slots floor(start/30)..floor(end/30) take the state, the others "
            "keep theirs, 48 slots, never IndexError), `unaligned_eq_floored` (= the aligned call on the floored times outside two families), "
            "`unaligned_same_slot` (10:15-10:20 sets one slot, floored it is ValueError), `unaligned_early_end` (an end in 00:01..00:29 is minutes "
            "past midnight, floored it is the midnight end); `join_split`, `split_join`, `decode_encode`, `encode_decode`, `decode_shape` for the bitmap codec; `commit_payload` "
            "(after ANY edit sequence the payload is [1, index, switch, parameter] ++ encoding, Sunday first, of the received table with exactly the "
            "edits addressed to that schedule applied), `edit_rows`, `commit_unedited`, `slot_layout`/`holds_commit` (bit-level layout of the payload); "
            "`last_response_wins` (the same from ANY prior device state: the last response for a schedule replaces what was held), "
            "`edit_slot`/`edit_table_slots`/`holds_commit_slots` (for whole lists of aligned edits every transmitted slot is the RECEIVED slot with the "
            "edits applied, judged by the statement-level C18.specCommit/expectedSlot); the write queue: `commit_then_drain`, `commit_snapshot_partial` "
            "(responses and edits of other schedules between commit() and the write do not change what is sent), `commit_live_witness` and "
            "`commit_snapshot_full_false` (finding F6: the full statement 'the week at commit time is what is sent' is false, the request holds the "
            "live Schedule object); `set_never_index_error_48` / `set_partial_on_short_day` (errors are inert on 48-slot days; a shorter hand-made day is "
            "edited partially before IndexError); `schedule_table`, `schedule_parameter_names` re-prove the name tables read from today's source. The model is tied to the code by an "
            "exhaustive run over all 48x48 aligned pairs x 4 states x day patterns, malformed states/times, a sweep over every start minute x boundary end minutes (thorough: all 1440x1440 minute pairs) answered by the model a start at a time, unpadded / non-ASCII-digit spellings of every minute, and by feeding "
            "SchedulesResponse payloads to a real EcoMAX, editing through its Schedule objects and comparing the queued SetScheduleRequest payload."),
        level_note="Time strings (round 8): Model/TimeParse.lean `parseTime` specifies datetime.strptime(s, '%H:%M') on ASCII strings (un-padded spellings included; non-ASCII: declined), validated against CPython exhaustively over all digit strings d:d, d:dd, dd:d, dd:dd; Props/C18Time.lean: `parse_spellings` (all 24x60x4 spellings), `midnight_spellings`, `set_spelled`, `set_exact_str`, `set_error_inert_str`, `set_bad_time`; the harness judges aligned times by VALUE in every spelling. `_get_time_range` / `ScheduleDay.set_state` themselves are NOT translated (nested functions, lru_cache, datetime arithmetic are outside the translator's subset): model <-> code tie for them stays differential. Trusted: Lean kernel; strptime as specified above (the set_state model still receives CPython's (hour, minute) result or 'unparsable'); model <-> code tie is differential; asyncio dispatch exercised under the virtual loop.",
        clauses={
            "code tie of the schedule codec (round 8): the SOURCE TEXT of SchedulesStructure.encode / ._unpack_schedule / .decode and the SCHEDULES table, translated on every run, equals [1, idx, switch, parameter] ++ Sched.encodeWeek (days of any number and lengths; type a name of the table, switch / parameter ints 0..255 - bools, Parameter objects and text are not covered), Sched.decodeWeek, Sched.decodeResponse (every message, natural offsets, data None or a string-keyed dict), Gen.schedules; the payload of Sched.Device.commit is the translated encode of the collected data; a missing type key / unknown name is FrameDataError": "theorem (TieStructSchedules.schedules_encode_eq, encode_is_commit_payload, encode_missing_type, encode_unknown_type, unpack_schedule_eq, schedules_decode_eq, schedules_tbl) + translator validation (harness/pycode.py group schedule: encode / decode / _unpack_schedule vs CPython, value or exception class)",
            "set_state changes exactly the slots start..end (end 00:00 = last slot), sets them to the state, keeps 48 slots": "theorem",
            "times that are not half-hour aligned (legal '%H:%M' input the statement does not speak about): compared on exact minutes, exact-midnight rule, floored slot indexes; relation to the aligned call on the floored times": "theorem (set_exact_unaligned, unaligned_eq_floored, unaligned_same_slot, unaligned_early_end) + correspondence (minute sweep: all 1440 start minutes x boundary ends in quick, all 1440 x 1440 pairs in thorough, x 4 day/state combinations)",
            "invalid state / unparsable time / end not after start raises ValueError and changes nothing": "theorem (model) + correspondence (exception class of the implementation)",
            "join/split and decode/encode are mutually inverse; decoding and re-encoding an unedited schedule is the identity": "theorem",
            "commit payload = index, switch, parameter + 7x48 bitmap, Sunday first, = received bitmap with exactly the edits applied (serialised before any later edit; last response wins)": "theorem",
            "the payload is the week AT COMMIT TIME for every history between commit() and the write": "partial: theorem commit_snapshot_partial (no edit of that schedule in between); full statement refuted (commit_snapshot_full_false), open finding F6",
            "'changes nothing on error' for days of any length": "theorem for 48-slot days (set_never_index_error_48, set_error_inert); false for shorter hand-made days (set_partial_on_short_day), outside the statement",
            "commit() of a Schedule object kept across later responses sends THAT object (its received week + exactly the edits made to it), switch / parameter of the device": "theorem (heap machine: kept_content, handle_commit_then_drain; refines_sys ties it to the lookup-only machine)",
            "40 distinct schedule names, switch/parameter names at positions 2i / 2i+1, 42-byte bitmap": "table",
            "the accepted states and the states that switch a slot on are the source's get_args(ScheduleState) / ON_STATES / OFF_STATES": "table (C18.states_pinned against Generated/ScheduleStates.lean, rewritten by the translator on every run)",
            "parsing of '%H:%M' strings": "specification parseTime (Model/TimeParse.lean) + exhaustive correspondence with datetime.strptime on all digit strings of the four shapes; theorems C18Time.parse_spellings / midnight_spellings / set_spelled",
            "model = ScheduleDay / SchedulesStructure / EcoMAX._add_schedules / Schedule.commit": "correspondence",
            "every schedule a well-formed schedules response carries (any header bytes, any number of entries, the entry at any place) is decoded, in order, and offered by the device for editing and commit": "correspondence (wire layout)",
        },
        assumptions=COMMON_ASSUME + [
            "'an error changes nothing' is claimed for 48-slot days only (every day the decoder produces); on a shorter hand-made day list assignment raises IndexError after a partial edit -- modelled (set_partial_on_short_day) and compared with the implementation, not part of the statement",
            "`Sys` (Model/Schedule.lean) assumes edits go through device.data['schedules']; kept Schedule objects are covered by the heap machine (Model/ScheduleHeap.lean), which refines to `Sys` on histories without handles (theorem refines_sys)",
            "time arguments are strings (a non-string makes strptime raise TypeError, outside the property)",
        ],
        timeout={"quick": 300, "thorough": 1500},
    )

from registry_common import COMMON_ASSUME

ENTRY = dict(
    title="Frame codec round-trips and frame equality is structural",
    design_ref="DESIGN.md section 6 / C03",
    technique="Lean 4 theorems over all frames / streams / configurations (envelope model shared with C01, byte-level network-info and "
              "program-version codecs, PyFrame equality model) + correspondence with Frame.bytes -> FrameReader.read -> fields -> .bytes, "
              "X(data=d).message -> X(message=...).data, and Python ==/!= on generated frame pairs + code tie: network-info and program-version encode / decode and the frame object translated from their source text on each run with kernel-checked `translated = model` theorems and the round trips restated on the translated code (Props/TieNetInfo, TieNetInfoEnc, TieNetVersion, TieNetVersionEnc, TieFrameObjRun)",
    prop_modules=["C03", "C03Object", "TieFrameObj", "TieFrameObjRun", "TieNetVersion", "TieNetInfo", "TieNetInfoEnc", "TieNetVersionEnc"],
    level_text=(
        "Proof: `C03.read_encode` shows for ALL frames that pass the reader's gates (<= 1000 bytes, addressed to the library or broadcast, "
        "known sender and kind) and ALL trailing bytes that reading the serialised bytes delivers exactly the same kind, addressing, versions "
        "and payload and consumes exactly the frame (`read_encode_any`: every other frame of <= 1000 bytes is consumed exactly and classified; `read_encode_too_long`: the size bound is sharp, longer frames are rejected with a length error); "
        "`C03.reserialise` shows for ALL streams that a delivery whose consumed bytes end in 0x16 was read from noise ++ encode f, i.e. "
        "re-serialising reproduces the bytes. `C03.net_roundtrip` / `C03.version_roundtrip`: decode (encode x) = x for every address, mask, "
        "gateway, the three status flags independently, every signal byte, encryption 0..4 (`encOk_iff`), every SSID of <= 255 bytes; every "
        "version triple < 65536, version byte, 2/2/3-byte tag/id/signature. `C03.pyEq_iff`: the tuple comparison of Frame.__eq__ is structural "
        "equality (`pyEq_refl`, `pyEq_same_args`, `pyEq_differs`); `pyEq_fill`/`pyEq_fill_fresh` describe the lazily cached message/data, which "
        "are part of the compared state. Props/C03Object: `eq_fresh_iff` (fresh frames are equal iff constructed from the same class, addressing, versions, message, data), the precise statement of F5 "
        "(`eq_after_message_fill`, `eq_after_data_fill`: a frame stays equal to its earlier self iff nothing was cached; `F5_one_sided_fill`; `eq_preserved`), "
        "and `written_stream_read_back` / `written_stream_delivered`: frames serialised by frame objects and written by FrameWriter are read back by the reader "
        "model one by one, in order, unchanged (composition with the C04 stream theorem). The tie to the code is differential: real frames through a real StreamReader/FrameReader, real "
        "DeviceAvailableResponse/ProgramVersionResponse objects both ways (plus mutated, truncated and random messages through the decoders), "
        "and ==/!= on pairs that are identical or differ in exactly one of kind, recipient, sender, econet type, version, message, data."),
    level_note="CODE TIE (round 8): tools/py2lean_types.py translates the source text of the frame object (Frame.__init__, message / data getters and setters, length, __len__, header, bytes; "
               "create_message / decode_message / frame_type of the concrete kind are a parameter) and Props/TieFrameObj.lean proves `translated method = Obj.step` for ALL object states and codecs "
               "(`Frame_message_eq`, `Frame_data_eq`, `Frame_*_set_eq`, `Frame_length_eq`, `Frame_header_eq`, `Frame_bytes_eq`, `Frame_step_sim`: ONE operation from a well-formed state); Props/TieFrameObjRun.lean: `Frame_run_sim` over operation LISTS "
               "(= `Obj.run` up to and including the first raising operation; side condition: data values set are not `None`) and, on the translated code, `F5_one_sided_fill_code` (reading `bytes` with success leaves an instance different from the one before; `message` leaves the same instance as `bytes`) and "
               "`fresh_same_args_code` (the translated constructor stores exactly its arguments: two constructions of one kind agree iff `pyEq` of the model frames holds). `Frame.__eq__` itself and `assign_to` are NOT translated: C03's equality theorems (`eq_fresh_iff`, `eq_after_*_fill`, `eq_preserved`, `pyEq_iff`) stay theorems about the hand-written `pyEq`, tied to Python `==` by correspondence only. "
               "Props/TieNetVersion.lean + TieNetVersionEnc.lean + TieNetInfo.lean + TieNetInfoEnc.lean (round 8, W7c/W7d): the translated source text of all four structure methods equals the byte-level model — `ProgramVersionStructure_decode_eq` (= `Version.decode`: all messages, all offsets, no prior data dict), `ProgramVersionStructure_encode_eq` (= `Version.encode`: every data dict holding the `VersionInfo` instance of a model value — software text 'a.b.c' of any three naturals, tag / id / signature byte strings of any length, any structure version — and every natural sender; `int(str(n)) = n` and the `split('.', 2)` are proved, not assumed; a dict without the key: the defaults with SOFTWARE_VERSION as a PARAMETER 'a.b.c', the run-time value is only passed by the CPython validation), `NetworkInfoStructure_decode_eq` (= `Net.decodeAt`: all messages, all offsets >= 0, no prior data dict; which byte each status / encryption / signal / SSID field is read from, the returned offset, and the exception CLASS on every rejected message — `decodeErr`, `decodeErr_by_length`), `NetworkInfoStructure_encode_eq` / `_encode_default` (= `Net.encode`: every data dict holding the `NetworkInfo` instance of a model value with an SSID TEXT whose UTF-8 bytes are the model's, and the dict without the key). Composed on the translated code: `net_roundtrip_code`, `version_roundtrip_code` (C03: whatever the translated encode returns, the translated decode returns an equal instance; hypotheses: encryption kind in the table, resp. tag / id / signature of exactly 2 / 2 / 3 bytes), `net_layout_code`, `version_layout_code` (C02 offsets of the bytes the translated encode returns), `encode_ok_iff` (the network encoder succeeds iff the SSID has <= 255 bytes). Excluded: negative offsets; a prior `data` dict; SSID bytes that are not valid UTF-8 (both sides `unsupported`); field values of other Python types (signal outside 0..255, address texts other than inet_ntoa's, software texts that are not three decimal numbers, negative / non-int sender) — these inputs are covered by the CPython validation (group net) and the correspondence harness only. "
               "Excluded by the hypotheses: codecs that read anything of the instance but the sender (`frame.handler`: RegulatorData, ThermostatParameters), frame-type codes >= 256, non-empty `**kwargs` at construction, the state after a raised exception. soft mode: CODE-TIE-BROKEN. "
               "Trusted: Lean kernel; the remaining model <-> code ties are differential; text forms of IPv4 addresses, SSIDs (UTF-8) and 'a.b.c' are CPython's. "
               "Frame.__eq__ compares the lazy caches: a frame whose .bytes/.data was read differs from a fresh frame built from the same "
               "arguments (modelled; reported as an observation, not judged as a violation).",
    clauses={
        "serialise -> parse for EVERY serialisable frame, also those the library transmits itself (recipient 0x45) and any kind / sender / size up to the 16-bit length": "theorem (C03.parse_encode over the gate-free Model/ParseEnvelope.parseEnvelope; read_encode is the same behind the reader's gates)",
        "serialise -> read gives the same kind, addressing, versions, payload (all frames passing the gates, any trailing bytes)": "theorem + correspondence (reader model = FrameReader.read, shared with C01)",
        "read -> re-serialise reproduces the consumed bytes (all streams, last byte 0x16)": "theorem + correspondence",
        "network information data -> message -> data (all configurations, flags independent)": "theorem (C03.net_roundtrip on the model; TieNetInfoEnc.net_roundtrip_code on the translated NetworkInfoStructure.encode / decode: every instance `netV n (.str s)` with encryption kind 0..4, SSID text of <= 255 UTF-8 bytes, decode at offset 1 without a prior data dict) + correspondence",
        "program version data -> message -> data": "theorem (C03.version_roundtrip on the model; TieNetVersionEnc.version_roundtrip_code on the translated ProgramVersionStructure.encode / decode: software 'a.b.c' of three naturals < 65536, structure version < 256, natural sender < 256, tag / id / signature of exactly 2 / 2 / 3 bytes, any offset, no prior data dict) + correspondence",
        "encryption kinds accepted by the decoder are exactly 0..4": "table",
        "equality of used frame objects (known finding F5 stated exactly)": "theorem (C03Object) + correspondence",
        "object -> FrameWriter -> wire -> FrameReader for whole frame sequences": "theorem (written_stream_read_back) + correspondence (2-6 frames serialised one after the other, frames for other devices -- bodies with start delimiters, header-shaped runs, embedded whole frames -- in between, read back with the real FrameReader: exactly the frames addressed to the library / broadcast come back, in order, same class / bytes / ==)",
        "Frame.__eq__ is structural: equal iff same class, addressing, versions, message, data": "theorem about PyFrame.pyEq + correspondence (Python ==/!= equals that relation on generated pairs)",
    },
    assumptions=COMMON_ASSUME + [
        "IPv4 text forms, UTF-8 encoding/decoding of the SSID and the 'a.b.c' version text are CPython's (inet_aton/ntoa, str.encode/decode, int, split)",
        "dict equality of frame data is Python's; generated data dicts hold ints only (no NaN, no 1 == True == 1.0 aliasing)",
    ],
    trusted=["CPython struct (2s/3s pad-truncate, H/B range checks: modelled, exercised)"],
)

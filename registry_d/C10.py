from registry_common import COMMON_ASSUME

ENTRY = dict(
        title="One device object per controller address, for every arrival timing",
        prop_modules=["C10", "C10Cancel"],
        design_ref="DESIGN.md section 6 / C10",
        technique="Lean 4 interleaving machine for get_device_entry and its callers (consumers and user get() calls for any number of "
                  "addresses under the one lock, class loading that completes or raises), mutual-exclusion / one-entry-per-address "
                  "invariant proved for all schedules + trace inclusion against a real AsyncProtocol under a virtual loop with held "
                  "thread-pool imports + cancellation machine (C10Cancel: a cancelled creator does not block, single device with cancellations) "
                  "with cancelled get_device_entry callers / cancel_tasks() histories",
        level_text=(
            "Proof: `C10.per_address_single_device` shows for EVERY interleaving of any number of frame consumers and user get() callers "
            "for any number of addresses, with each class loading completing (or raising) at any point, that per address at most one "
            "device is created, its set-up started exactly once, the address announced at most once, every returned caller (consumer or "
            "get()) holds the entry of ITS address, every handled frame was handled by it, once, a frame is dropped only when its "
            "address has no device class; `addresses_do_not_interfere` (no object serves two addresses), `single_device`, "
            "`entry_is_stable` + `same_object_at_every_time` (an entry is never replaced; callers at two different moments agree), "
            "`always_handleable` (every unfinished consumer can finish within five moves from every reachable state), "
            "`unlocked_counterexample` (the same machine without the lock creates two devices for one address); "
            "`single_device_across_reconnects` / `reconnect_preserves_invariant` (the connection may be lost and re-established at any point "
            "of the timeline, also while a class loading is in flight: lock, device map and in-flight loads survive, every conclusion "
            "holds), `fresh_lock_counterexample` (a fresh lock per connection gives two devices). Replay: `replay_is_run` "
            "(every state of the driver's replay is a machine state under the recorded schedule, and quiescent), `holds` (every "
            "snapshot satisfies C10.snapOk) and `final_ok` (a COMPLETE schedule — accepted, every settle at a fixpoint, nothing held — "
            "ends in a snapshot satisfying C10.finalOk: every frame handled or, without a device class, dropped; every get() for an "
            "address with an entry returned). The machine is tied to protocol.py by trace inclusion: schedules of feed/release/get "
            "and reconnect events over the addresses 69, 81 and 86 (no device class) are run on a real AsyncProtocol (real StreamReader, real "
            "Lock/Queue/Event, held run_in_executor) and replayed by the driver; snapshots must be equal and C10.spec is judged by the "
            "driver on the implementation's snapshots."),
        level_note="Trusted: Lean kernel; asyncio.Lock is mutual exclusion with FIFO wake-up, Event/Queue as documented; the machine <-> protocol.py "
                   "tie is differential (thorough tier: every arrangement of feed groups of 1..4 frames x release position x 0..2 get() x 1..3 "
                   "consumers for one address, every sequence of 1..3 frames over three addresses x releases x get() positions).",
        clauses={
            "the task creating the entry is cancelled while the class loading is pending (a user's get_device_entry() under wait_for, protocol.cancel_tasks() + a second connection): the address is not blocked, later frames from it reach the one device object":
                "theorem (C10Cancel: cancelled_creator_does_not_block - at any point of any schedule of moves and cancellations the lock is free at once after the creator is cancelled and the next consumer for the address returns with the entry within three of its own moves, its frame handled by it; "
                "single_device_with_cancels / handled_by_the_entry_with_cancels - one object per address, created and set up once, every handled frame handled by the entry, for all schedules with cancellations (Proofs/EntryCancel.inv_cancel: the invariant survives the cancellation); "
                "unreleased_lock_blocks - contrast: a lock not released on cancellation blocks the address for ever) "
                "+ correspondence (harness/c10_cancel.py: the cancellation on a real AsyncProtocol with the import held, the executor job's future cancelled with its awaiter as run_in_executor's is, then 1..3 later frames on the same / a second connection; "
                "judged by the statement on the observation - one object, every due frame handled once by it, set-up once, get() callers, no consumer lost; AND compared: the snapshot after EVERY event (pending imports, objects created, set-ups, announcements, (frame, object) handled, get() results) equals the one of the cancel machine EntryCancel.replayC (driver op c10c <consumers> <cr> <events>; replayC_states_ok: every state that replay goes through satisfies the invariant))",
            "at most one create per address, all schedules, any number of addresses": "theorem (per_address_single_device)",
            "every caller (consumer, user get()) obtains the same object at every time": "theorem (per_address_single_device, single_device, entry_is_stable, same_object_at_every_time)",
            "the same object through EVERY public way to obtain the device (protocol.data[name], get_nowait, attribute access, a subscribed callback, get / wait_for + read, the consumer's own), at every time":
                "theorem (sees_the_entry, same_object_over_all_routes over Entry.Route; the theorem CONTENT is the routes `subscribed` (every announcement for the address announced its entry) and `returned j` (every returned caller, consumer or get(), holds the entry), each related to the reads at the same and every later moment) + "
                "by definition of `Entry.sees` (the three read routes protocol.data[name] / get_nowait / attribute access are the SAME expression `published a == some d` in the model — in the code all three read the one dict EventManager.data — so for them the theorem says no more than entry_is_stable) + "
                "correspondence (carries data / get_nowait / attribute: five user routes x every schedule; data / get_nowait / attribute / subscribed callbacks read after every event)",
            "addresses sharing the lock do not interfere; no object serves two addresses": "theorem (addresses_do_not_interfere)",
            "set-up started once": "theorem (per_address_single_device: setupsFor = createdFor <= 1, = 1 once the address has an entry)",
            "every frame is handled by that object": "theorem (per_address_single_device safety; progress: always_handleable (possibility) AND inevitability: real_moves_bounded (every schedule of N callers has at most 3N state-changing moves) + handled_when_nothing_moves (when none of them can move every frame caller is handled or dropped: no deadlock); final_ok: complete schedules leave no frame unhandled) + correspondence",
            "class loading that raises (no device class): frame dropped, lock released, nothing published": "theorem (per_address_single_device, always_handleable) + correspondence (frames from ECONET 86)",
            "the model distinguishes locked from unlocked code": "theorem (unlocked_counterexample)",
            "the theorems are about what the driver prints": "theorem (replay_snapshots_ok: every snapshot `Entry.replay` emits satisfies snapOk; replay_is_runEvs: while events are accepted the driver's list is the runEvs observations of the prefixes; replay_is_run)",
            "for the lifetime of the protocol object, across reconnects at any point of the timeline": "CORRESPONDENCE ONLY for the fact that a reconnect touches neither the lock object, nor the device map, nor the callers in flight (the machine's reconnect event with the code's effect is the identity: `code_reconnect_effect`; `single_device_across_reconnects` / `reconnect_preserves_invariant` are modelling statements, not theorems about reconnects); theorem `reconnect_effects_matter` / `fresh_lock_counterexample`: a fresh lock per connection or a device map emptied on loss would each give two objects for one address. Correspondence: (end of stream on the current reader, connection re-established from an on_connection_lost callback, at every position incl. while the import is held)",
            "the machine describes protocol.py / asyncio.Lock is mutual exclusion": "correspondence (trace inclusion on enumerated schedules)",
        },
        assumptions=COMMON_ASSUME + [
            "cancel machine: every creator starts its own class loading (helpers/factory._import_module calls run_in_executor on each call; no shared future) - carried by the c10_cancel correspondence, not by translation; a cancellation is modelled only while the creator awaits the class loading",
            "a consumer task handling several frames in turn is modelled as several non-overlapping callers; the machine allows every overlap, "
            "so the number of consumer tasks is over-approximated (theorems hold for any number)",
            "device-class loading is the only suspension inside the lock besides the dispatch callbacks; both are separate machine moves",
            "final_ok speaks about the driver's FIFO settle policy (passes until no caller can move); fairness of the real event loop is exercised, not proved",
        ],
        public_routes={
            "await protocol.get_device_entry(DeviceType) called by the user (and cancelled, as by asyncio.wait_for, while the class loading is pending)": "driven + judged (c10_cancel: U / XU events)",
            "protocol.cancel_tasks() (TaskManager) while a consumer awaits the class loading, then connection_established again": "driven + judged (c10_cancel: XT event; the frames in the cancelled consumers' hands are dropped by the cancellation and excused)",
            "AsyncProtocol.connection_established(reader, writer)": "driven + compared (every case; again on every reconnect event)",
            "AsyncProtocol.connection_lost() via end of stream -> on_connection_lost callbacks": "driven + compared (reconnect event at every position: plain callback AND Connection._reconnect of a Connection object owning the protocol, i.e. what open_tcp_connection / open_serial_connection(protocol=..., reconnect_on_failure=True) return)",
            "get(name)": "driven + compared (get() at every position; result object per call in every snapshot)",
            "get(name, timeout=...)": "driven + compared (an impatient get() that times out at every position next to a patient one)",
            "wait_for(name) + get_nowait(name) / attribute access protocol.<name>": "driven + compared (route dimension of every get() caller; get_nowait and attribute access also read at every instant and compared with the entry)",
            "subscribe(name, cb) on the protocol-level device event": "driven + compared (observer on 69/81/86, suspending or not: every announced value)",
            "subscribe_once(name, cb)": "driven + compared (must see exactly the one announced object)",
            "consumers_count": "driven: 1..5 (the machine over-approximates every count)",
            "frames from ecoSTER (81) / known addresses without a device class (86)": "driven + compared",
            "device object kept by the client across a reconnect": "driven + compared (same object from later get() calls, data of the last frame on it, set-up not restarted)",
            "reconnect with failed open attempts / a gap while disconnected": "not driven here (the atomic lost-and-re-established event only); C11 drives Connection with scripted open failures",
            "shutdown() and re-use of the protocol object afterwards": "outside the statement (lifetime of a connection); C12",
            "DummyProtocol": "not applicable: no device entries, no read queue (the reader alone is C01/C04/C14)",
            "a protocol-level subscriber that raises": "outside the quantifier (schedules, not callback faults); observed on /repo: the entry is not stored, the next frame creates another device + set-up task",
        },
        timeout={"quick": 300, "thorough": 1500},
    )

from registry_common import COMMON_ASSUME

ENTRY = dict(
        title="One device object per controller address, for every arrival timing",
        design_ref="DESIGN.md section 6 / C10",
        technique="Lean 4 interleaving machine for get_device_entry and its callers (consumers, user get()), four-phase mutual-exclusion "
                  "invariant proved for all schedules + trace inclusion against a real AsyncProtocol under a virtual loop with held thread-pool imports",
        level_text=(
            "Proof: `C10.single_device` shows for EVERY interleaving of any number of frame consumers and user get() callers, with the "
            "class loading completing at any point, that at most one device is created, set-up is started exactly once per created device, "
            "the name is dispatched at most once, every returned caller (consumer or get()) holds object 0 = the published entry, and every "
            "handled frame was handled by it, once; `same_object_at_every_time` compares callers at two different moments; "
            "`always_handleable` shows every unfinished consumer can finish within three moves from every reachable state; "
            "`unlocked_counterexample` shows the same machine without the lock creates two devices. `holds`/`replay_is_run` tie the "
            "driver's replay of a harness schedule to the machine. The machine is tied to protocol.py by trace inclusion: schedules of "
            "feed/release/get events are run on a real AsyncProtocol (real StreamReader, real Lock/Queue/Event, held run_in_executor) and "
            "replayed by the driver; snapshots must be equal and C10.spec is judged by the driver on the implementation's snapshots."),
        level_note="Trusted: Lean kernel; asyncio.Lock is mutual exclusion with FIFO wake-up, Event/Queue as documented; the machine <-> protocol.py "
                   "tie is differential (thorough tier: every arrangement of feed groups of 1..4 frames x release position x 0..2 get() x 1..3 consumers).",
        clauses={
            "at most one create per address, all schedules": "theorem (single_device)",
            "every caller (consumer, user get()) obtains the same object at every time": "theorem (single_device, same_object_at_every_time)",
            "set-up started once": "theorem (single_device: setups = created <= 1, = 1 once anyone holds the object)",
            "every frame is handled by that object": "theorem (single_device safety; always_handleable progress) + correspondence (final snapshot of complete runs)",
            "the model distinguishes locked from unlocked code": "theorem (unlocked_counterexample)",
            "the machine describes protocol.py / asyncio.Lock is mutual exclusion": "correspondence (trace inclusion on enumerated schedules)",
        },
        assumptions=COMMON_ASSUME + [
            "a consumer task handling several frames in turn is modelled as several non-overlapping callers; the machine allows every overlap, "
            "so the number of consumer tasks is over-approximated (theorems hold for any number)",
            "device-class loading is the only suspension inside the lock besides the dispatch callbacks; both are separate machine moves",
        ],
        timeout={"quick": 300, "thorough": 1500},
    )

from registry_common import COMMON_ASSUME

ENTRY = dict(
    title="Connection loss is detected, announced once, and fully recovered by reconnect",
    design_ref="DESIGN.md section 6 / C11",
    technique="Lean 4 state machine of protocol.py/connection.py (micro events: faults, timers, task resumptions) with inductive invariants over ALL event lists + correspondence with the real Connection/AsyncProtocol on fake transports under a virtual-time loop",
    level_text=(
        "Proof: for every configuration, open script and every list of micro events (all fault points, all schedules) the "
        "connection machine satisfies: `tasks_bounded` (protocol+connection tasks <= 1 + consumers_count, no growth over cycles), "
        "`read_error_detected` / `read_timeout_detected` / `write_error_detected` / `write_timeout_detected` (each failure ends the only "
        "producer and schedules one loss handling), `loss_announced_once` (flag cleared first, every device told connected=False exactly "
        "once), `loss_closes_and_reconnects_once` + `reconnect_after_close_timeout` (transport closed once, reconnect routine invoked once), "
        "`one_close_per_loss` / `closes_match_faults` (trace level: #faults = #closes + pending <= 1 for every history without close()), "
        "`loss_effects_only_from_loss_handling`, `failed_open_backs_off` / `open_timeout_backs_off` / `no_retry_during_backoff` / "
        "`backoff_end_retries` (retry every RECONNECT_TIMEOUT until success), `reestablished` / `start_master_sent_first` / "
        "`producer_sends_head` (start-master queued again, devices told True, consumers topped up), `device_map_stable` / "
        "`known_device_not_recreated`, `one_device_per_address`, `device_identity_stable`. Frame consumers and the read queue are in the "
        "machine (parked / holding a frame behind the entry lock or a suspended subscriber / exited after finishing a frame while "
        "disconnected): `consumers_bounded`, `consumers_topped_up` (connected => exactly consumers_count alive), `read_balance` "
        "(unfinished = queued + in hand), `frames_reach_same_device` (frames put = frames delivered to that address + pending, every "
        "shutdown-free run) with `frames_delivered_at_rest`; trace-level `one_announce_per_loss_per_device`, `one_reconnect_per_loss`; "
        "`start_master_sent_after_k_frames`; `retry_until_success` / `retry_until_success_hung`; `retry_exactly_after_backoff`. "
        "The machine is tied to the code by running identical histories on both (incl. gated histories and stalls at every cut point of a frame). "
        "Round 8: the connection object used AGAIN is a machine event (`reopen`: close() returned, then connect() / `async with` / close() on the same object) and a "
        "generator dimension; `reopen_forgets_close`, `session_after_reopen` (the later session is a reachable state: every theorem applies to it), "
        "`one_reconnect_per_loss_after_reopen`, `one_close_per_loss_after_reopen`; `consumers_default_eq` pins the consumers_count default; the live tasks are "
        "compared BY COROUTINE NAME after every event (`Conn.taskNames`)."),
    level_note="Partial by nature: real sockets/serial errors are replaced by scripted faults; the model<->code tie is differential (generated histories); asyncio primitives are exercised, not modelled.",
    clauses={
        "failure at any point (EOF, OSError, read/write timeout) is detected": "theorem (detection lemmas, all reachable states) + correspondence (faults injected through StreamReader.feed_eof/set_exception, a raising/hanging drain, silence until the real @timeout fires)",
        "marks itself disconnected, tells every device connected=False exactly once": "theorem",
        "closes the transport and invokes the reconnect routine exactly once per loss": "theorem (per step and over whole histories)",
        "a failing attempt is retried after the back-off interval until one succeeds": "theorem (per attempt: back-off deadline = failure time + RECONNECT_TIMEOUT, no call before it, one call at it); that the timer fires exactly then is the modelled scheduler + correspondence (virtual timestamps of _open_connection calls)",
        "after re-establishment start-master sent again, devices see True, same device objects": "theorem (queued behind older requests, FIFO) + correspondence (frames on successive fake transports, id() of device objects)",
        "number of background tasks does not grow": "theorem + correspondence (asyncio.all_tasks() classified after every event)",
        "loss while frame consumers are in the middle of a frame (they exit while disconnected and must be replaced)": "theorem (consumers_topped_up, consumers_bounded, read_balance, frames_reach_same_device) + correspondence: 'gated' histories (slow subscriber on the protocol's new-device event) are replayed by the Lean driver and compared state by state (consumer count, read queue length, deliveries), plus the statement-level oracle",
        "a (re)connect attempt that neither succeeds nor raises is abandoned after CONNECT_TIMEOUT and retried": "theorem (hung_open_times_out, open_timeout_backs_off, retry_until_success_hung) + correspondence on the library's own TcpConnection / SerialConnection (asyncio.open_connection / open_serial_connection replaced by a scripted network that answers ok / raises / never) as well as on the Connection extension point",
        "frames that cannot be delivered (undecodable payload, sender without device class) cost no consumer": "theorem (consumers_topped_up, frames_reach_same_device with the pseudo kind 0) + correspondence (F:u / F:o feeds)",
        "second use of the same connection object (connect after close, context manager twice, close twice, close before connect), then a loss": "theorem (session_after_reopen + the *_after_reopen corollaries) + correspondence (reopen histories: fault kind x failed attempts x context-manager route) + statement-level oracle per session",
        "a peer that stalls in the middle of a frame is detected": "correspondence (stall after k bytes for every cut point of a frame; the model's read timeout is per read() call) + statement-level oracle (loss handled within READER_TIMEOUT)",
    },
    assumptions=COMMON_ASSUME + [
        "I/O faults are scripted on fake transports (StreamReader.feed_eof/set_exception, FakeWriter.drain/wait_closed raising or hanging, scripted _open_connection); real socket / serial behaviour is not exercised",
        "module imports complete synchronously in the harness loop (import timing is C10's subject); a consumer is held mid-frame only by a slow subscriber of the protocol's device-name event (harness events G / R)",
    ],
    timeout={"quick": 600, "thorough": 3000},
)

from registry_common import COMMON_ASSUME

ENTRY = dict(
        title="Device set-up always completes and reports exactly what failed",
        design_ref="DESIGN.md section 6 / C16",
        technique="Lean 4 theorems over all event histories of the event-driven set-up machine (sensor data, responses of any kind at any time, clock advances, timer expiries) "
                  "+ correspondence with the real EcoMAX.async_setup (request / wait_for / retry path, gather, error list) under the virtual loop "
                  "+ Lean judge C16.spec on the implementation's observations",
        level_text=(
            "Proof: for EVERY history of sensor data, responses (any kinds, any order, any time, repeated or never), clock advances and timer expiries: "
            "`completes` (after the sensor data, `retries` timer expiries always end in 'loaded'), `loaded_within` (not later than sensors + retries x timeout), "
            "`errors_exact` (frame_errors = exactly the kinds whose data was not available at that moment, in table order; `loading_snapshot` pins the moment), "
            "`unanswered_listed`, `answered_not_listed` (product answered => no answered kind listed), `independent_answered_not_listed`, "
            "`failed_transmitted_R_times`, `transmitted_at_most_R_times`, `data_available` / `answered_data_available`, `failed_loaded_at_deadline`; `versions_before_setup_irrelevant` (frame-versions tables handled before / during / after set-up only add the versions handler's own requests: phase, load time, error list and the per-kind set-up transmissions are those of the history without them); `holds`: the executable statement C16.spec accepts the observation (`observe`) of every history of the machine, for every well-formed configuration (`ecomax_wf`); `ecomax_cfg` ties the configuration "
            "(8 requests, product first, 3 x 3 s, which handlers await product information) to the generated tables. "
            "The machine is tied to devices/__init__.py and devices/ecomax.py by running the real async_setup with answers injected through device.handle_frame(<response bytes>) "
            "at chosen virtual times: the 256 subsets, all 4^8 (subset x attempt) patterns in the thorough tier, a frame-versions table (every subset of the eight kinds) handled before the sensor data, variants and free-form histories; C16.spec is judged by the Lean driver "
            "on every implementation observation."),
        level_note="Trusted: Lean kernel; Setup machine <-> code tie is differential; asyncio (wait_for, gather, Event, timers) exercised, not modelled; "
                   "an answer never carries the same virtual timestamp as a timeout (quantised).",
        clauses={
            "set-up finishes within retries x timeout once sensor data has been seen": "theorem (completes, loaded_within)",
            "the machine's configuration is the source's: the device's own request table and order, the sensor-data gate, request defaults, loop test, retry class, error-list argument, which handlers wait for product information":
                "table (ecomax_cfg, setup_source_facts, product_waiters, request_loop_matches: decide lemmas over Generated/Pipeline.lean, read by the translator from inspect.signature / the ast of request, async_setup and the __init__ subscriptions)",
            "set-up over the wire: first frames back-to-back, the client's device from get(), requests counted on the transport, answers with an empty body":
                "correspondence (harness/c16proto.py: real AsyncProtocol against a scripted controller, judged by C16.spec and compared with the Setup machine)",
            "every unanswered kind is listed as failed": "theorem (errors_exact, unanswered_listed)",
            "no answered kind listed as long as product information was answered": "theorem (answered_not_listed)",
            "each unanswered request transmitted `retries` times": "theorem (failed_transmitted_R_times, transmitted_at_most_R_times); C16.spec also rejects a failed list with duplicate entries (proved of the machine in spec_loaded); NOT yet in spec: transmissions of an ANSWERED kind <= the attempt on which it (and, for dependent kinds, product information) was answered — compared by correspondence only (tx counts are part of the model <-> implementation comparison)",
            "data of every answered request available": "PARTIAL: theorem (data_available, answered_data_available) under the proviso `product information was among the answers` (for the kinds whose handler awaits it); the clause AS WRITTEN is refuted (`holds_full_false`; `full_fails_exactly_when`: it fails exactly on product unanswered + a dependent kind answered) — open finding F11, reproduced by the harness on the real EcoMAX (judge verdict `full-only`); for the model's availability; decoded content by correspondence (the name is in device.data AND the content of the answer given can be read back: named parameters, alerts, schedules, product model ...)",
            "8 requests, product first, 3 attempts x 3 s, handlers that await product information": "table (ecomax_cfg) + correspondence (which handlers block)",
            "the frame-versions handler's requests do not replace or disturb the set-up requests": "theorem (versions_before_setup_irrelevant) + correspondence (regulator-data message with a version table before / during / after set-up)",
            "the judge applied to the implementation accepts every run of the machine": "theorem (holds)",
            "all 2^8 subsets x attempt of each answer": "theorem (histories universally quantified) + exhaustive correspondence (65536 patterns, thorough tier)",
        },
        assumptions=COMMON_ASSUME + [
            "responses are well formed; minimal answers (empty alert log, no parameters, no schedules, empty password, no mixers, no thermostats) are exercised as answer variants; an EMPTY regulator-data schema provides no `regdata_schema` name and counts as unanswered",
            "kinds whose handler awaits product information: ecoMAX parameters always, mixer parameters when the response lists at least one mixer",
            "a response and a timeout never carry the same virtual timestamp",
        ],
        timeout={"quick": 300, "thorough": 1500},
    )

from registry_common import COMMON_ASSUME

ENTRY = dict(
    title="close() always terminates and leaves nothing running",
    design_ref="DESIGN.md section 6 / C12",
    prop_modules=["C12", "C12Clean"],
    technique="Lean 4 connection machine (C11's, with the write queue's unfinished count, device / sub-device task sets, close and shutdown) + correspondence: close() at every position of generated histories on the real Connection under a virtual-time loop, quiescent-deadlock detection + all-schedule invariant C12Clean.done_clean (after a returned close() nothing is left, unconditionally) + held-open / late-open sections at loop-iteration granularity",
    level_text=(
        "Proof (partial, see clauses): `close_partial` - from every reachable state at rest that drains (write queue empty, or connected to a "
        "controller that keeps sending on a working transport, no set-up request round in progress) close() under the modelled scheduler "
        "returns within (|writeQ|+1)*ioTimeout with the transport closed and tasks = 0 (producer, consumers, loss handler, reconnect task, set-up, "
        "device, mixer and thermostat tasks); `close_idle`, `close_draining` are its two cases; `subdevices_all_shut` (+ `union_misses_overlapping_mixer`: "
        "the pre-51898e9 dict merge leaves a mixer task), `devices_shut_when_disconnected` (fa07755), `close_during_setup` (device set-up request rounds in "
        "progress, responsive controller: returns within WRITER_TIMEOUT, tasks = 0 incl. the PhysicalDevice.request tasks), `stuck_read_queue` / "
        "`stuck_read_witness` (read-queue side of F1: frames left with no consumer, every schedule). `AtRest` = nothing runnable (internal? = none), "
        "no frame unfinished. The full statement is kept as `close_full : Prop`; "
        "`close_stuck_witness` proves its negation on the two F1 states (`stuck_without_traffic`: no frame-free schedule completes the join; "
        "`stuck_disconnected_forever`: no schedule at all). The harness replays close() at every point of generated histories on the implementation, "
        "compares with the model, and judges termination / leftovers / bound on what the implementation did. "
        "Round 8: `close_time_bound` (explicit virtual-time bound |writeQ|*READER_TIMEOUT + WRITER_TIMEOUT for the drains case; the harness measures EVERY returning close() "
        "against its generalisation), `taskNames_total` (live tasks by coroutine name, compared after every event), `version_known_queues_nothing` / `version_learned` "
        "(an unchanged frame-version table queues nothing: the queue cannot grow by re-queueing; harness clause: write queue strictly growing over identical announcements), "
        "`verKinds_eq`; the machine's `finishClose` cancels the connection's retry task (daf0ebe) and `reopen` lets close() be called twice / before connect() / after which "
        "the object is connected again; implementation-only section `held_open_variant`: close() while a retry attempt of the connection's own chain is in flight, the attempt "
        "succeeding at each loop iteration of close(). "
        "Round 8b (Props/C12Clean.lean): `done_clean` / `close_returned_clean` - the safety half for EVERY schedule: in every reachable state of the machine (any event list, "
        "close() called anywhere, anything happening while it waits) in which close() has returned, `Clean` holds (transport closed, writer reset, not connected, producers = consumers = "
        "lostTasks = connTasks = 0, set-up / request / device / sub-device tasks 0, recon idle, every per-name count 0); carried by three invariants over every step (Proofs/ConnClean.lean: "
        "J - an attempt in flight implies the old transport is gone, `attempt_in_flight_no_writer`; U - no user connect() once close() is called; Q - everything halted while close() is "
        "inside wait_closed(), `waiting_for_transport_halted`); `reopen_enabled` (the guard of `reopen` never bites), `closed_stays_clean`; `done_clean_open` extends it to schedules in which a "
        "pending `_open_connection` completes (ok / raises) at any moment (`Conn.openDone`, `Reach1`). Disclosed granularity: `shutdownRun` is one micro event; `late_open_window` is the "
        "machine's account of an establishment that falls inside it (NOT clean) and the harness section `late_open_variant` walks through it on the implementation - genuine defect "
        "W5b-defect-1 (residual of D25), report mode until /repo is repaired (LATE_OPEN_DEFAULT in harness/c12.py)."),
    level_note="Partial by construction: liveness is proved for the modelled scheduler and exercised on the real loop; F1 (unbounded Queues.join) is an open known finding.",
    clauses={
        "close() returns within (queued+1)*ioTimeout from states that drain": "theorem (close_partial, modelled scheduler) + correspondence (virtual time taken vs bound)",
        "from every state (full statement)": "stated (close_full), refuted on the F1 states (close_stuck_witness); reproduced on the implementation as KNOWN-FINDING F1",
        "transport closed": "theorem (Closed: wopen = false) + correspondence (closed flag of every fake transport)",
        "no protocol / connection / device / sub-device task left": "theorem (tasks = 0; for every schedule: done_clean, done_clean_open) + correspondence (asyncio.all_tasks() after close); an establishment inside shutdown()'s clean-up: late_open_window + harness late_open_variant (W5b-defect-1, open)",
        "mixers and thermostats with overlapping indexes": "theorem (subdevices_all_shut) + correspondence",
        "devices shut down when already disconnected": "theorem (devices_shut_when_disconnected) + correspondence",
        "controller stalled in the middle of a frame with requests queued; undecodable / class-less frames before close()": "correspondence (stall S:k before close(), then silence past READER_TIMEOUT and a sending controller; F:u / F:o feeds) + statement-level oracle; the F1 tag additionally requires that the silence was noticed (disconnected, or losses being handled)",
        "states in the middle of a device set-up request round": "theorem (close_during_setup: frames arrive before the next retry timer; request tasks are part of `tasks`) + correspondence (close() at every point of the three request rounds, fast / slow / silent controller; request task count compared with the model)",
        "states after a loss that caught the frame consumers mid-frame": "theorem (stuck_read_queue for the F1 side; AtRest.readIdle excludes them from close_partial) + correspondence (gated histories replayed by the model) + statement-level oracle; the F1 tag requires the F1 match (write queue non-empty without producer progress, or read queue non-empty with no consumer while disconnected)",
    },
    assumptions=COMMON_ASSUME + [
        "close() is called at quiescent points of a history (no library task about to run) and after connect() has returned",
        "liveness is shown for the modelled scheduler (library tasks run before timers, one external event at a time); the real event loop is exercised, not proved",
        "module imports complete synchronously in the harness loop (read queue always drained; the read-queue variant of F1 needs C10-style import timing and is not exercised)",
    ],
    timeout={"quick": 600, "thorough": 3000},
)

from registry_common import COMMON_ASSUME

ENTRY = dict(
        title="Frame-version announcements trigger exactly the needed refreshes",
        design_ref="DESIGN.md section 6 / C15",
        prop_modules=["C15", "C15Overlap", "C15Cancel", "C15Devices", "C15Tables"],
        technique="Lean 4 theorems about the announcement handler in ANY device state (hence over all announcement histories) "
                  "+ correspondence: sensor-data / regulator-data frames into a real EcoMAX via handle_frame, queue observed after quiescence "
                  "+ Lean judge C15.spec on what the implementation queued",
        level_text=(
            "Proof: `announce_exact` gives, for every state (any recorded versions, any unsupported set) and every announcement, the exact "
            "list of queued request kinds, the new record and whether the callback raised; `queued_iff`: a kind is queued iff the announcement "
            "carries a version for it, the library can build that request, the device supports it and the version differs from the record; "
            "`queued_nodup`: one request per kind; `queued_only_if` / `never_queues_unknown_or_unsupported`: nothing else is ever queued, in "
            "every history; `recorded_after`: the record then holds the last announced version, all other records unchanged; "
            "`repeat_queues_nothing`; `exact_refreshes` places this at every position of every history; `holds`: every model history passes the "
            "judge. Tables (`requestKinds_known`, `setup_kinds_are_request_kinds`) are re-proved against the source on every run: the set of "
            "request kinds is read by reflection (handler class derives from Request). Overlap (Props/C15Overlap.lean): `update_frame_versions` awaits Request.create between check and record; the interleaving machine with that suspension point gives `sequential_exact`, `requests_le_tasks`, `overlap_at_most_doubles`, `doubled_request_reachable`. Deviation from DESIGN: a known response/message code "
            "that needs a refresh makes Request.create raise TypeError inside the callback, ending it (later entries are not processed); the "
            "model describes exactly that (`raised`), the statement's quantifier (request kinds + unknown codes) excludes it (`NoForeign`)."),
        level_note="Trusted: Lean kernel; model <-> devices/__init__.py tie is differential (generated histories, every set of unsupported set-up kinds, "
                   "every code 0..255); asyncio task scheduling between one frame and quiescence is exercised, not modelled (one announcement at a time).",
        clauses={
            'tables: which kinds are request kinds with versions, which kinds frame_errors can name, attribute names, has_frame_version / request signatures': 'table (Gen.requestKinds, Gen.setupKinds, Gen.attrFrame*, Gen.hasFrameVersionParams, Gen.requestParams extracted by the translator; pinned by requestKinds_are_the_request_frame_types, setupKinds_pinned, attr_names_pinned, bookkeeping_signatures_pinned)',
            'version 0 is a version (presence, not truthiness)': 'theorem (version_zero_unchanged_queues_nothing, version_zero_first_announcement_refreshes; announce_exact has no hypothesis on the version) + correspondence (version 0 first / unchanged / after another version in every section)',
            'announcements that arrive while the set-up is running, before frame_errors is known': "theorem (before_frame_errors_every_request_kind_refreshes, after_frame_errors_reported_kinds_stay_quiet, frame_errors_keeps_the_record) + correspondence (section `setup`: the REAL EcoMAX.async_setup() with 0..4 of the answerable set-up kinds answered, announcements before / between the three request time-outs / after; the set-up's own requests and re-attempts are `request` events of the model, frame_errors is dispatched by the code itself)",
            "changed version of a supported request kind -> one refresh request queued, version recorded": "theorem (queued_iff, queued_nodup, recorded_after, announce_exact)",
            "queued TO THAT DEVICE": "theorem (Props/C15Devices.lean over the device-system model Sys = address -> St with ONE shared queue of (kind, recipient) frames: queued_to_announcing_device — in every history over any number of devices every frame queued by an event carries the address of the device the event happened at; device_state_is_own_history / device_frames_are_own_history — a device's record and its refreshes are those of the single-device machine on its own events; holdsSys) + correspondence (EcoMAX 0x45 and EcoSTER 0x51 in one process on one queue, the same kinds announced to both in turn, recipients observed; judge C15.specSys on the shared queue)",
            "the record after a whole history": "theorem (recorded_history: after ANY history of announcements and frame_errors dispatches the record of k is the version of the last announcement that carried k while it was a supported request kind — histRecord reads it off the history alone; recorded_is_last_announced)",
            "unchanged version queues nothing": "theorem (queued_iff, repeat_queues_nothing)",
            "unknown kinds queue nothing": "theorem (queued_only_if, never_queues_unknown_or_unsupported) + table (requestKinds_known)",
            "kinds the device did not answer during set-up queue nothing": "theorem (queued_iff, queued_only_if) + table (setup_kinds_are_request_kinds)",
            "over all announcement sequences": "theorem (exact_refreshes: every position of every history; the per-announcement theorems hold in every state)",
            "a code twice in one announcement": "theorem (dictOf_keys_nodup, dictOf_lookup: first position, last version)",
            "announcements via sensor data and via regulator data reach the same handler": "correspondence (both carriers generated; the frame object untouched, inspected before handling (repr / data / message / len / == / bytes — the lazily cached Frame.data), read from bytes by a real FrameReader, with DEBUG logging of the pyplumio loggers)",
            "whatever unrelated subscribers do": "correspondence (client subscribers on sensor names / frame_versions / sensors / regdata that raise, suspend briefly / over the next message / to the end, unsubscribe themselves, once-subscribers that raise; executor jobs of Request.create completing at once or only when the loop is idle, so that the handler is suspended while its sibling dispatches run); the oracle is the unchanged model and judge",
            "the new version is recorded (public readers)": "correspondence (has_frame_version(kind, version), has_frame_version(kind), supports_frame_type(kind) read after every event against the record the statement prescribes)",
            "known response/message code in an announcement": "outside the statement's quantifier; modelled exactly (callback raises, rest dropped) and tied by correspondence",
            "one device object shut down and used again (device.shutdown() cancels a refresh suspended in Request.create; a reconnect keeps the device)": "theorem (Props/C15Cancel over every history of "
                "announcements / frame_errors / task moves in any order / shutdowns at any point: recorded_has_request — a version is on record for a kind only if a request of that kind was queued; "
                "record_changes_le_requests; shutdown_keeps_records; nothing_moves_after_shutdown; cancelled_then_announced_again) + correspondence (overlap section, op `k`: the real device.shutdown() with executor jobs "
                "held, further announcements to the same object; machine `c15h` and the statement judges cancel_statement / overlap_statement on the observations)",
            "overlapping announcement dispatches (outside the statement's quantifier)": "theorem about the overlap machine (sequential_exact: no overlap = the sequential model; requests_le_tasks / overlap_at_most_doubles: at most one request per announcement in flight, one record update, final record = announced version; doubled_request_reachable) + correspondence with a HELD executor reproducing the doubled request on the implementation — recorded as an observation, not a violation",
        },
        public_routes=(
            "route audit: update_frame_versions (the subscribed callback) — driven through handle_frame with both carriers, through FrameReader -> handle_frame, and with "
            "client subscribers around it; supports_frame_type — driven (every subset of set-up kinds via frame_errors, read back for every known code); has_frame_version — "
            "driven with and without a version after every announcement; PhysicalDevice.request (failed) — driven; overlapping announcements — overlap machine (outside the statement)."),
        assumptions=COMMON_ASSUME + [
            "one announcement frame is handled to quiescence before the next arrives (histories, not overlapping dispatches)",
            "`frame_errors` holds FrameType members of request kinds (what async_setup dispatches)",
        ],
    )

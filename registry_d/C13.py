from registry_common import COMMON_ASSUME

ENTRY = dict(
        title="Event dispatch: ordered callbacks, consistent stored value, once means once",
        design_ref="DESIGN.md section 6 / C13",
        prop_modules=["C13", "C13Spec", "C13Filter", "C13Table", "C13Wake"],
        technique="Lean 4 interleaving machine (API calls, 'dispatch task i moves', 'waiter j moves', 'clock advances') with one inductive "
                  "invariant over ALL event lists and ALL callback scripts + trace-inclusion correspondence: a real EventManager with callbacks "
                  "suspended on harness-controlled futures under a virtual-time loop; the Lean driver replays the schedule the harness chose",
        level_text=(
            "Proof: for every callback script table and every event list (any interleaving of overlapping dispatch tasks, subscriptions, "
            "unsubscriptions, waits and clock moves): `dispatch_order_and_threading` — what a dispatch task awaited, in log order with the values "
            "passed, is the awaited part of its trail, the trail follows the snapshot taken at the task's first move (`snapshot_is_live_list`) in "
            "subscription order, skipping only once-wrappers already unsubscribed (`plain_entries_awaited`), each callback receives the value "
            "produced by those before it (None keeps it), the final value is the value after the whole snapshot; `finish_stores_and_wakes`; "
            "`once_at_most_once` — one subscribe_once registration is awaited at most once; `unsubscribed_not_called_by_later_dispatch` (+ the "
            "once-wrapper variant, + `removed_not_awaited_by_later_dispatch`) — a dispatch that starts after an unsubscribe never awaits that "
            "entry; `data_is_outcome_of_a_dispatch` — stored values and getter results are finals of finished dispatches; `get_returns_at_once`; "
            "`timed_wait_raises_at_deadline`, `deadline_fires`. `C13.holds` (Props/C13Spec.lean): the executable judge C13.spec over an observation (log with values, snapshots of data, get/wait results with virtual times) holds of every observation of the machine; the harness applies the same judge to the implementation. The machine models event_manager.py after fix ee9b4d5 (the once-wrapper awaits "
            "the callback only if unsubscribe returned True)."),
        level_note="Trusted: Lean kernel; machine <-> event_manager.py tie is differential (trace inclusion on generated histories with the harness "
                   "choosing the schedule); asyncio's ready-queue FIFO order, Event and wait_for are exercised, not modelled (the driver applies FIFO "
                   "order to the machine's nondeterministic moves; the theorems hold for every order).",
        clauses={
            "stores the final value and wakes EVERY waiter (over all histories of the event table)": "theorem (Props/C13Wake: waiters_hold_the_current_event — after every history of create_event / set_event / stores / loads / waits "
                "starting, resuming, timing out, cancelled, each suspended waiter holds the very Event object the table has under its name (rests on event_identity); store_wakes_every_waiter — a store for a name leaves no waiter of that name suspended)",
            'public API audit: everything EventManager defines is in one of the two machines': 'table (Gen.eventManagerApi by reflection; event_manager_api_pinned: a new / renamed public method or a changed default breaks it)',
            "create_event identity: one Event per name for the manager's lifetime, also after timed-out and cancelled waits": 'theorem (C13T.event_identity, step_keeps, create_event_returns_the_same_object over ALL histories of create_event / set_event / store / load / wait / resume / expire / cancel) + correspondence (section `table`: Event object identity and is_set observed through `events` after every op)',
            'data / get_nowait / attribute access never yield a value that was not an outcome of a dispatch or load': 'theorem (C13T.data_is_an_outcome, only_dispatch_and_load_store, load_is_stores) + correspondence (every public reader compared with data after every op; get() after a bare set_event raises KeyError). '
                'Reading: data_is_an_outcome holds by construction of the ghost `stores` (appended exactly where the model writes `data`); its content is event_manager_api_pinned (reflection: EventManager has no other public method that writes data). '
                'DISCLOSED: `data` is a public attribute and `events` returns the live dict; clients writing through them (em.data[k] = v, del em.events[k], ...) are outside `Op` and outside every C13T theorem. '
                'load_is_stores is definitional, and load = one store per item in order holds only for names WITHOUT subscribers (hypothesis carried by Op.load, stated in the docstring; with subscribers the stores happen in the order the gathered dispatches finish, which the machine expresses as separate store ops)',
            "callbacks awaited in subscription order, value threaded, None keeps it": "theorem (dispatch_order_and_threading, plain_entries_awaited, snapshot_is_live_list)",
            "the only entries a dispatch passes without awaiting are once-wrappers that had been unsubscribed": "theorem (skipped_entry_was_removed: under every schedule a skipped snapshot entry is a once-wrapper AND is recorded as removed from its live list — invariant InvK in Proofs/EventsK.lean; live_entry_awaited: in ANY state a dispatch that reaches a plain entry, or a once-wrapper still in the live list, awaits it with the current value; snapshot_entry_awaited_or_removed: a finished dispatch awaited every entry of its snapshot or the entry had been removed) — a machine that never awaits subscribe_once callbacks does not satisfy these",
            "then stores the final value and wakes every waiter": "theorem (finish_stores_and_wakes, dispatch_order_and_threading)",
            "a getter never returns a value that was not the outcome of some dispatch": "theorem (data_is_outcome_of_a_dispatch)",
            "returns immediately once a value exists": "theorem (get_returns_at_once)",
            "an unsatisfied timed wait raises at that time": "theorem (timed_wait_raises_at_deadline, deadline_fires) + correspondence (asyncio.wait_for / virtual clock)",
            "subscribe_once awaited at most once, every interleaving": "theorem (once_at_most_once)",
            "an unsubscribed callback is awaited by no later dispatch, every interleaving": "theorem (unsubscribed_not_called_by_later_dispatch, unsubscribed_once_not_called_by_later_dispatch)",
            "the statement as a judge over observations (C13.spec: threading, order, once, stored, getters)": "theorem (C13.holds: every observation of the machine, any scripts, any history of calls / releases / loop runs / clock moves, satisfies C13.spec; clause theorems threading_holds, order_holds, once_holds, stored_holds, getters_hold) + the same executable predicate judged by the Lean driver (c13judge) on every observation of the real EventManager",
            "subscribers registered through filter factories: each is handed the value returned by the previous one": "theorem (Props/C13Filter.lean over Model/FilterChain.lean: filter_result — for every filter expression (chains of any depth), every state and every wrapped callback a filter call returns the callback's result on what it delivered and None when it does not deliver; delivering_call_is_the_callback; passing_filter_is_transparent; skipping_call_keeps; dispatch_threading; passing_chain_is_plain_chain — behind pass-through filters that let the value through the stored value is that of the plain callbacks' chain) + correspondence (driver ops c13fr / c13chain vs real filter objects and a real EventManager: every factory, chains of two and three, callbacks returning None / value+c / falsy replacements, get() after every dispatch) + statement-level judge on the implementation's own log; custom_returns_result (custom() dropped the result before fix dfda3f3)",
            "the TIGHTENED judge C13.specT = spec + onceDue (a once registration nobody unsubscribed, followed by a finished dispatch of its name, is awaited) + orderT (the snapshot moment is no later than the loop run in which the dispatch is first seen started) + gettersT (a returned value is the outcome of a dispatch finished in the snapshot in which the getter is first seen returned)": "judged by the Lean driver on every observation of the real EventManager (c13judge) AND on the machine's own observation of every generated history (c13self: all pass); `decide` examples: specT rejects the three observations of audit item 4 that spec accepts; the all-histories theorem for the three added clauses (holds_tight_full) is STATED, NOT PROVED (holds_tight_partial = C13.holds for the spec conjunct) — missing: a ghost telling explicit unsubscribes from self-removals, the op index of a task's first run in MInv.started, per-snapshot done facts; and the driver's settle is fuel-bounded",
            "dispatches of one name that never suspend take effect in the order they were issued": "statement-level oracle in the harness (several such dispatches finishing in one loop run: the stored value is the outcome of the last one issued) — asyncio's FIFO ready queue is exercised, not modelled; closes seeded C13-m9 (dispatch_nowait storing synchronously when nobody is subscribed: a dispatch without a task is recorded as such instead of aborting the harness)",
            "event_manager.py behaves as the machine": "correspondence (trace inclusion: schedule accepted, same invocation log, data, task states, waiter results and virtual times)",
        },
        public_routes=(
            "route audit (public methods reaching the statement's behaviour; driven = the harness calls it): subscribe — driven (plain function, bound method, "
            "behind throttle(0) / debounce(0) and chains of the two in the interleaving histories; behind every factory incl. on_change, delta, aggregate, custom and "
            "chains in the sequential `chain` section); subscribe_once — driven (also behind pass-everything filters); unsubscribe — driven (raw callback, new equal "
            "bound method, NEW filter object around the callback i.e. Filter.__eq__ against functions and against other filters, the once-wrapper returned by "
            "subscribe_once); dispatch — driven (task awaiting it; awaited directly in the `chain` section); dispatch_nowait — driven; load / load_nowait — driven "
            "(1..3 names, one dispatch task per entry in dict order, identified through a task factory; for the machine: that many spawnDispatch events); get / wait_for "
            "— driven (no timeout, 0, 1..9 ticks); get_nowait (with and without default) and __getattr__ — driven at every snapshot against the stored value; "
            "create_event / set_event / events — reached through wait_for / dispatch only (calling them directly is outside the statement); Filter comparison "
            "operators: __eq__ driven through unsubscribe and list membership, there are no ordering operators."),
        assumptions=COMMON_ASSUME + [
            "a callback is identified as the event manager identifies it (==): a plain function, a bound method (a new but equal object at every attribute access) and the same callback behind a filter that lets every value through are ONE callback function of the machine; the harness subscribes all three flavours and unsubscribes by the raw callback or by a new filter object around it",
            "in the interleaving histories the filters in front of callbacks let every value through (throttle(0), debounce(0), chains of them; aggregate(cb, 0) is not such a filter once calls overlap: a second call adds to the sum while the first one's callback is suspended); value-dependent filters are driven with sequential dispatches (`chain` section)",
            "callbacks interact with the manager only by suspending and returning (they do not subscribe/dispatch themselves); values are naturals",
            "a timed wait that was woken is resumed before its deadline passes (the harness never lets the clock pass a deadline with a woken waiter pending)",
            "timeouts and event times are quantised so that a deadline never coincides with an arrival",
        ],
    )

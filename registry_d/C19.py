from registry_common import COMMON_ASSUME

ENTRY = dict(
        title="Primitive wire types pack, unpack and size consistently for every value",
        design_ref="DESIGN.md section 6 / C19",
        prop_modules=["C19", "C19Sweep", "TieTypes", "TieTypesB", "TieTypesC", "TieTypesD"],
        technique="Lean 4 theorems over all values / all trailing bytes (codec model of data_types.py) + translator table of the struct formats + correspondence with to_bytes/from_bytes/value/size and with the regulator-data consumer on a real EcoMAX device + code tie: every class of data_types.py translated from its source text on each run (tools/py2lean_types.py) with kernel-checked `translated = codec model` theorems (Props/TieTypes, TieTypesB, TieTypesC, TieTypesD)",
        level_text=(
            "Proof: `C19.int_lawful`, `float_lawful`, `double_lawful`, `ipv4_lawful`, `ipv6_lawful`, `string_lawful`, `var_lawful` show for "
            "EVERY representable value and EVERY trailing byte string that the packed form exists, the reported size equals its length and "
            "unpacking from the longer buffer returns the value and consumes exactly that many bytes (`Lawful`, Spec/C19.lean); "
            "`le_roundtrip`/`twos_roundtrip`/`int_ranges` give the arithmetic for the eight integer types, `fields_in_sequence` the positioning of a "
            "following field, `bit_value`/`bit_run_values`/`bit_run` the bit-array cursor protocol (DESIGN interpretation), "
            "`int_buffer_is_packed` / `int_pack_injective` / `bits_buffer_is_packed` / `addr_buffer_is_packed` (Props/C19Sweep.lean) the converse: EVERY buffer of at least size bytes "
            "unpacks to a representable value whose packed form is its first size bytes, so pack and unpack are mutually inverse bijections; "
            "`struct_formats_table` re-proves the struct formats read from today's source. The data type INSTANCE is in the model (value slot, size slot, "
            "bit position; construct / pack / unpack / size / value / next): `pack_reflects_last_value`, `size_is_packed_length`, `value_is_last_set`, "
            "`unpack_then_pack`, `observers_inert` hold for ALL operation sequences of canonical operations on one re-used instance (`good_step`/`good_run` "
            "invariant, `*_inst_lawful` per class); `var_truncated_witness` records the one non-canonical case where VarBytes/VarString pack a stale length "
            "prefix; `bit_position_unpack_commute`, `bit_inst_reports`, `bit_constructed_position` make position and content of a bit field independent. The model is tied to data_types.py by running both on "
            "boundary and random values of every type at random offsets with trailing bytes, non-ASCII strings, arbitrary buffers, all 256x8 bit "
            "fields, complete sweeps of the 8/16-bit integer classes (every byte pattern, every value) and of the bit field in both orders, and random field sequences decoded by RegulatorDataStructure."),
        level_note="Trusted: Lean kernel; struct float<->bits conversion, UTF-8 encode/decode and inet_* text forms are CPython's (round-tripped in the harness, not modelled). "
                   "CODE TIE (round 8): tools/py2lean_types.py translates the source text of every class of data_types.py (per concrete class: __init__, construction, from_bytes, "
                   "to_bytes, pack, unpack, value, size, __eq__, BitArray.next; DATA_TYPES) to Generated/PyCodeTypes.lean on every run; Props/TieTypes.lean proves for the eight integer "
                   "classes `translated method = intCodec / Inst.step (intInst t)` for ALL values, buffers, offsets and slot states (`*_code_lawful`, `IntClass.sim`, `sim_run`, `data_types_tbl`), Props/TieTypesB.lean `translated BitArray method = bitUnpack / bitValue / bitSize / bitNext / bitPack` (all buffers, raw bytes, indexes); "
                   "Props/TieTypesC.lean `translated String / VarString / VarBytes = stringCodec / varCodec / varInst.packI` (texts as Lean strings, wire form = UTF-8 bytes, sizes in BYTES; `decode_encode`; "
                   "`String_code_lawful`, `VarString_code_lawful`, `VarBytes_code_lawful`), Props/TieTypesD.lean `translated IPv4 / IPv6 / Float / Double / Undefined = addrCodec / bitsCodec` (`aton_ntoa`: the prelude's inet_aton inverts inet_ntoa on all 2^32 addresses; "
                   "`IPv4_code_lawful`, `IPv6_code_lawful`, `Float_code_lawful`, `Double_code_lawful`), the BitArray constructor (`BitArray_construct_sim` = BitInst.step construct) `DataType.__eq__` as seen from the 17 classes is TRANSLATED and VALIDATED AGAINST CPYTHON only (harness/pycode_types.py): there is no model tie for it — `*_eq_eq` = `eqModel` is a restatement in the same file used by no property theorem, and for Float / Double / IPv6 values and `X(v) == X()` both sides are `unsupported`; WHAT THE HYPOTHESES EXCLUDE: offsets and bit indexes are `Nat` (negative offsets / indexes: no theorem), slots hold `Option Int` / `Option UInt8` values of the class (`SignedChar('x')`, `BitArray(300)` outside); invalid UTF-8 is `unsupported` on BOTH sides of the String / VarString theorems (value AND size unproved for such buffers; Python returns U+FFFD text); `Float` / `Double` only for a slot holding the bit pattern of the class's own width (`Float(x)` of an ordinary double: `unsupported`); operation-SEQUENCE simulation (`sim_run`) exists for the eight integer classes only (String / Var* / IPv4 / IPv6 / Float / Double / BitArray are tied method by method); `IntClass.runOp` builds 'an exception leaves the instance unchanged' into the observer (not proved); "
                   "translator + PyPreludeTypes are validated against CPython by harness/pycode_types.py (result and instance slots afterwards).",
        clauses={
            "unpack(pack v) = v, every representable value (ints, float/double bit patterns, IPv4/IPv6 tuples, strings/bytes as byte lists)": "theorem",
            "reported size = number of packed bytes (sizing in bytes, non-ASCII included)": "theorem",
            "unpacking from a longer buffer consumes exactly size bytes; the following field is positioned by it": "theorem",
            "an arbitrary buffer of at least size bytes IS the packed form of one integer / float pattern / address followed by arbitrary bytes: unpacking returns that representable value and size, packing it gives back the buffer (pack / unpack are mutually inverse bijections)": "theorem (C19Sweep: int_buffer_is_packed, int_pack_injective, int_unpack_none_iff, bits_buffer_is_packed, addr_buffer_is_packed) + correspondence (judged against the wire layout)",
            "complete sweeps: all 256 / 65536 byte patterns and all representable values of SignedChar, UnsignedChar, Short, UnsignedShort, all 256 x 8 bit fields, each with trailing bytes / offsets": "theorem for all values and buffers (int_lawful, int_buffer_is_packed, bit_value, bit_value_injective) + correspondence, enumerated completely in both tiers",
            "bit array: value = bit index of the shared byte; a run of k bit fields advances ceil(k/8) bytes (interpretation of DESIGN section 6)": "theorem",
            "re-used instance: to_bytes = pack of the value constructed / unpacked last, size = its length, for every operation sequence": "theorem (canonical operations: representable values, buffers that start with a packed form)",
            "struct formats / sizes of the ten struct-backed classes": "table",
            "model codecs = data_types.py classes; float<->bits, UTF-8, inet text forms": "correspondence",
            "translated source of the eight integer classes = model codec / instance machine, all values / buffers / slot states, offsets in Nat (TieTypes)": "theorem (code tie; soft mode: CODE-TIE-BROKEN)",
            "translated source of String / VarString / VarBytes / IPv4 / IPv6 / Float / Double / Undefined / BitArray(...) = model codecs, method by method (TieTypesB-D): offsets / indexes in Nat, valid UTF-8 only (invalid: unsupported on both sides), floats as bit patterns of the class's width": "theorem (code tie; soft mode: CODE-TIE-BROKEN)",
            "translated DataType.__eq__ (17 classes)": "correspondence only (translated and validated against CPython; no model tie)",
        },
        assumptions=COMMON_ASSUME + [
            "strings are modelled as their UTF-8 byte strings, addresses as byte tuples, floats as IEEE bit patterns; the conversions are CPython's",
            "bit array: size == len(pack()) is NOT demanded of a single bit field (by design it reports 0 except at index 7); the size is judged at the cursor",
        ],
        timeout={"quick": 300, "thorough": 1500},
    )

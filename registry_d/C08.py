from registry_common import COMMON_ASSUME

ENTRY = dict(
        prop_modules=["C08", "C08Lifetime", "C08Routes"],
        title="Set/confirm/retry: requested value only, bounded attempts, truthful result",
        design_ref="DESIGN.md section 6 / C08",
        technique="Lean 4 theorems over all event histories of the set/confirm/retry machine SetM (call, report, clock advance, timer, executor answer) "
                  "+ correspondence with the real Parameter.set/update under the virtual loop (4 parameter kinds, versions tracked or not, executor synchronous or held, "
                  "set requests encoded when queued or late) + Lean judge C08.spec on the implementation's observations",
        level_text=(
            "Proof: for a set() issued in ANY idle state and followed by ANY history of reports, clock advances, timer expiries and executor answers, "
            "`tx_value` (every set request carries the requested value), `tx_count` (at most `retries`), `tx_spacing` / `tx_spacing_exact` "
            "(consecutive set requests >= timeout apart; exactly t0 + k*timeout when request construction does not suspend), `refresh_per_attempt` "
            "(the tracking flag is read once per attempt and may change during the call: a set request made while it is off is followed by exactly one re-read, "
            "one made while it is on by none), `refresh_iff_tracked` / `refresh_iff_untracked` (its corollaries for a constant flag), "
            "`true_sound` (True only after a report != previous value received while the call ran), `false_sound` (False only after exactly `retries` set requests "
            "and only stale reports), `nothing_after_return`; over the parameter's LIFETIME (machine SetL = every running call is a one-call machine stepping on the shared fields; any number of sequential or overlapping calls): `rejected_call_inert`, `tx_value_each_call`, `tx_count_each_call`, `only_running_calls_transmit`, `sequential_call_is_one_call`, `quiet_after_return`, `true_sound_each_call`, `false_sound_each_call`, `overlap_true_unsound` (what does not hold); and `holds`: the executable statement C08.spec (a monitor that sees only events and outputs) accepts every observation of the machine. The machine is tied to parameter.py and the four parameter subclasses by running both on generated histories "
            "(random; exhaustive words over {stale, confirming, third value, timer[, executor answer]} for retries 0..3; every public set route x argument form x parameter class) with reports entering through "
            "device.handle_frame(<parameters response bytes>), and C08.spec is evaluated by the Lean driver on every implementation observation."),
        level_note="Trusted: Lean kernel; SetM <-> parameter.py tie is differential (event histories under the virtual loop); asyncio (sleep, Queue, tasks) exercised, not modelled. "
                   "The display->raw front of set() is tied through the C17/C06 model: the rig calls set(<display value>) on scaled rows and the requested raw value is Lean's toRaw.",
        clauses={
            "LIFETIME, a rejected call (no-op / out of range) in any state, also while other calls run, transmits nothing and changes no state": "theorem (rejected_call_inert)",
            "LIFETIME, overlapping calls: every set request carries the value of the call that transmits it, at most its own `retries`, and only calls still in their loop transmit": "theorem (tx_value_each_call, tx_count_each_call, only_running_calls_transmit)",
            "LIFETIME, sequential calls: every one-call clause holds per call, with the value held before THAT call": "theorem (sequential_call_is_one_call + quiet_after_return reduce each call to the one-call machine; true_sound_each_call, false_sound_each_call)",
            "LIFETIME, overlapping calls: True/False soundness does NOT hold (shared previous value)": "theorem (overlap_true_unsound, a kernel-checked counterexample run); not judged for overlapping calls",
            "LIFETIME, judge of multi-call observations (C08L.specL)": "executable judge applied to the implementation; one-call segments are judged by C08.spec (holds proved), the lifetime wrapper itself is tied by correspondence only",
            "set requests carry the requested value and no other": "theorem (tx_value) + correspondence (incl. late encoding of queued requests)",
            "at most `retries` set requests": "theorem (tx_count)",
            "retries <= 0 (zero or NEGATIVE, outside the statement's 0..3): nothing transmitted, False in the call's own step": "theorem (exhausted_budget; the driver reads a negative budget through SetM.budgetOf) + correspondence (random histories with retries -3, -1, 4, 6, 7 and timeouts 0.1 s, 0.333 s, 1.1 s, 4.321 s; route sweep with (-2, 1.2 s) and (7, 0.1 s))",
            "one per `timeout` interval": "theorem (tx_spacing, tx_spacing_exact)",
            "each followed by a re-read request iff versions are not tracked": "theorem (refresh_per_attempt; refresh_iff_tracked, refresh_iff_untracked for a constant flag)",
            "the set request addresses the parameter it was called on (index, sub-device, thermostat offset, schedule number)": "correspondence (asserted by the rig on 20 parameter addresses)",
            "the call acts on the parameter the client holds: object kept across later reports, object fetched right before the call, Device.set by name": "correspondence (three routes, identical expectation; the object in device.data must stay the kept one)",
            "set(<display value>) transmits toRaw(display value)": "correspondence with the C17/C06 model's toRaw (display sweep over every scaled row, also with the held raw number equal to the requested display number, through Parameter.set and Device.set)",
            "returns True only after a report with a value different from the previous one": "theorem (true_sound)",
            "returns False only after `retries` unconfirmed transmissions": "theorem (false_sound)",
            "every interleaving of stale / confirming / unrelated reports with the retry timer": "theorem (histories are universally quantified); model <-> code by correspondence",
            "defaults retries=5, timeout=5.0": "table (defaults, from the translator)",
            "ROUTES: every public set route (Number/Switch set, set_nowait and the 8 subclasses, turn_on/off(+_nowait), Device.set/set_nowait on EcoMAX/Mixer/Thermostat, EcoMAX.turn_on/off(+_nowait)) x every argument form forwards (value, retries, timeout) unchanged to the set machine": "table (Gen.setRoutes: the translator CALLS each route on a probe whose Parameter.set records its arguments) + theorem (routes_probe_ok, routes_complete, route_forwards, route_tx) + correspondence (harness/setm.py ROUTES: each route x argument form x parameter class driven with non-default, mutually different retries/timeout; SetM run with the CALLER's arguments is the oracle)",
            "Device.set / set_nowait `timeout`": "is the time to wait for the parameter to exist (passed to Device.get), NOT the retry interval: the set machine then runs with the default interval (route table: owner 1 rows have timeout source 'constant 5000'; a device-level wait reaching the machine is refuted by routes_probe_ok)",
        },
        assumptions=COMMON_ASSUME + [
            "the tracking flag only changes between the machine's steps (a frame-versions announcement is one event)",
            "a timer expiry and another event never carry the same virtual timestamp (harness times are quantised)",
        ],
        timeout={"quick": 300, "thorough": 1500},
    )

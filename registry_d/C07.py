from registry_common import COMMON_ASSUME

ENTRY = dict(
    title="A write targets exactly the controller slot the parameter was read from",
    design_ref="DESIGN.md section 6 / C07",
    technique=("Lean 4 model of the parameter block decoders, the create_or_update handlers and the request builders; invariant proved by induction "
               "over ALL histories of responses and sets; table lemmas (unique names, reserved names, schedule naming) re-proved against the "
               "tables extracted from the source; correspondence with a real EcoMAX fed UID + parameter responses built from payload bytes, "
               "device.data and the payload of the request queued by set()"),
    level_text=(
        "Proof: `C07.index_preserved` (every named parameter of every device, after ANY history, records a position of its family's table whose "
        "description has that name), `C07.request_addresses` (the set request carries exactly that position: ecoMAX [i,v]; mixer [m,i,v]; thermostat "
        "[i+1+offset]++LE(v,size); control request [v]; profile -> thermostat slot 0; schedule -> set-schedule of schedule i/2 = the name without suffix), "
        "`C07.read_slot_ecomax` (the triple decoded from the slot of position p ends up under table[p].name with index p, created or updated), "
        "`names_unique_*`/`name_index_bijection`, `update_keeps_index`, `unknown_inert_*` (positions without description create/overwrite/re-index nothing). "
        "Thermostat offsets: `thermostat_offset_partial` for blocks without undefined holes; the full statement is refuted by the witness "
        "`thermostat_offset_full_false` (open finding F3)."),
    level_note=("Trusted: Lean kernel; the dataset model <-> devices/*.py, structures/*_parameters.py, schedules.py tie is differential (generated histories incl. "
                "truncated payloads); product type is fixed per device history; asyncio task ordering of dispatches is exercised, not modelled."),
    clauses={
        "names unique per table (name <-> index bijection)": "table (decide +kernel on the generated tables)",
        "index preserved over any history; request addressing per kind": "theorem",
        "value decoded from position p is held under table[p].name with index p": "theorem for the ecoMAX block (`read_slot_ecomax`); correspondence (predicate S1) for mixer/thermostat/schedule blocks",
        "position without description never creates/overwrites/re-indexes": "theorem (`unknown_inert_ecomax(_all)`, `_mixer`, `_thermostat`, `_schedule`)",
        "thermostat offset = t x parameters per thermostat": "partial: theorem without holes; F3 witness with a hole",
        "model = implementation": "correspondence",
    },
    assumptions=COMMON_ASSUME + [
        "one product type per device history (a UID response arrives before the parameter responses and does not change type later)",
        "'number of parameters per thermostat' = slots per thermostat in the decoded block, (start+count)//T - start",
    ],
    timeout={"quick": 600, "thorough": 1800},
)

from registry_common import COMMON_ASSUME

ENTRY = dict(
    prop_modules=["C07", "C07Products"],
    title="A write targets exactly the controller slot the parameter was read from",
    design_ref="DESIGN.md section 6 / C07",
    technique=("Lean 4 model of the parameter block decoders, the create_or_update handlers and the request builders; invariant proved by induction "
               "over ALL histories of responses and sets; table lemmas (unique names, reserved names, schedule naming) re-proved against the "
               "tables extracted from the source; correspondence with a real EcoMAX fed UID + parameter responses built from payload bytes, "
               "device.data and the payload of the request queued by set()"),
    level_text=(
        "Proof: the dataset model consumes C05's decoder model (P2.decodeEcomax/Mixer/Thermo/Sched). `C07.index_preserved` (every named "
        "parameter of every device, after ANY history, records a position of its family's table whose description has that name), "
        "`C07.request_addresses` (the set request carries exactly that position: ecoMAX [i,v]; mixer [m,i,v]; thermostat "
        "[i+1+offset]++LE(v,size); control request [v]; profile -> thermostat slot 0; schedule -> set-schedule of the schedule the name "
        "splits to), `C07.read_slot_ecomax/_mixer/_thermostat/_schedule` (the triple the decoder reports for position p of a block ends "
        "up under table[p].name of that (sub-)device with index p, created or updated), `C07.payload_to_request_ecomax/_mixer/_thermostat/"
        "_schedule` (END TO END: bytes produced by C05's encoders -> decoded list (C05.rt_params_*) -> dataset -> `set` -> the request "
        "addressing that slot), `C07.addressing_stable_thermostat` (no event ever changes index/offset/owner/width of an existing "
        "thermostat parameter: create then partial update), `names_unique_*`/`name_index_bijection`, `schedule_split_agrees` "
        "(name.split('_schedule_')[0] + SCHEDULES.index = position/2 for all 80 names), `update_keeps_index`, `unknown_inert_*`. "
        "Thermostat offsets: `thermostat_offset_partial` for responses without undefined holes (offset = t x slotsPer start count T); "
        "the full statement is refuted by `thermostat_offset_full_false` (open finding F3)."),
    level_note=("Trusted: Lean kernel; the dataset model <-> devices/*.py tie is differential (generated histories incl. truncated payloads; the "
                "decoders are C05's model, tied by C05's own correspondence too); product type is fixed per device history; asyncio task "
                "ordering of dispatches is exercised, not modelled."),
    clauses={
        "UID re-reports (same product type) at any time, before or after parameter responses": "theorem (`C07.same_product_is_run`, `index_preserved_rereports`: the history runs as the one-product machine, every C07 theorem applies); a re-report with ANOTHER product type is outside the quantifier and not supported by the code (`product_change_rereads_wrong_slot`, kernel-checked witness, replayed on the implementation: water_heater_target_temp keeps index 119 after P -> I)",
        "names unique per table (name <-> index bijection); schedule names split back to their schedule": "table (decide +kernel on the generated tables)",
        "index preserved over any history; request addressing per kind": "theorem",
        "value decoded from position p is held under table[p].name with index p": "theorem for all four block kinds (`read_slot_*`; schedule: entries naming distinct known schedules)",
        "payload bytes -> request addressing, end to end": "theorem (`payload_to_request_*`) for payloads produced by C05's encoders",
        "position without description never creates/overwrites/re-indexes": "theorem (`unknown_inert_ecomax(_all)`, `_mixer`, `_thermostat`, `_schedule`)",
        "existing parameters (any device) are never re-addressed by later responses / kept objects": "theorem (`addressing_stable_ecomax`, `_mixer`, `_thermostat`) + correspondence (kept-object histories, all capture and write routes)",
        "thermostat offset = t x parameters per thermostat": "partial: theorem without holes; F3 witness with a hole; F8 (candidate): parameter created by a partial response",
        "responses before the UID response (product type unknown)": "theorem (`waiting_kinds_inert_before_uid`, `delayed_application_uses_real_product`, `_mixer`) + correspondence (arrival-order histories, predicate S4)",
        "model = implementation": "correspondence",
    },
    assumptions=COMMON_ASSUME + [
        "one product type per device history (the UID response may arrive at any point, also after parameter responses; it does not change type later)",
        "'number of parameters per thermostat' = slots per thermostat in the decoded block, (start+count)//T - start",
    ],
    notes=[
        "PUBLIC ROUTES (round-4/5 audit).  How a parameter object reaches a client, all driven by harness/c07.py (capture routes of the "
        "'kept' / 'kept-served' histories): device.data[name]; device.get_nowait(name); attribute access device.<name>; await device.get(name); "
        "await device.wait_for(name) then data[name]; subscribe(name, cb) and subscribe_once(name, cb) callback argument; the callback argument "
        "behind every filter that hands values on unchanged and chains of them: on_change, debounce(1), debounce(2), throttle, custom, "
        "on_change(debounce), debounce(on_change), throttle(custom); copy.copy(parameter) and copy.deepcopy(parameter) (the operation the filters "
        "use for their snapshots; a copy that cannot transmit is not judged; a copy that can keeps its slot since fix 64e2017); the same on sub-devices reached through "
        "ecomax.data['mixers'][m] / ['thermostats'][t]. In the 'kept-served' histories the controller reports everything again after the client "
        "subscribed, so every subscription has delivered an object before the client writes. NOT driven: delta / aggregate (they deliver numbers, "
        "not the parameter: C20's subject).",
        "How a parameter is written, all driven (write routes, chosen per set): Parameter.set; Parameter.set_nowait; Device.set(name, v) on the "
        "owning device (controller, Mixer, Thermostat); Device.set_nowait; Switch.turn_on/turn_off; Switch.turn_on_nowait/turn_off_nowait; "
        "EcoMAX.turn_on/turn_off and their _nowait forms (ecomax_control); schedule switch/parameter set -> SetScheduleRequest; "
        "thermostat_profile -> SetThermostatParameterRequest slot 0. NOT driven here: Schedule.commit() (C18).",
        "Kept objects: the client keeps objects obtained by any capture route, the controller then reports the same blocks with another "
        "start / count / hole pattern / number of mixers / number of thermostats (the kept name at another place in the payload, or not "
        "reported), the profile slot becomes undefined and defined again, the state changes; then every kept object is written through "
        "every applicable route. Expected slot = the slot the parameter was created for (theorems addressing_stable_ecomax/_mixer/"
        "_thermostat: update() never re-addresses). A kept object that is no longer the one in device.data (only the thermostat profile "
        "after an undefined slot) is judged by the statement's predicate alone.",
        "Outside the model: a UID response that changes the product type of a device (see report: names shared by both tables keep the "
        "index of the first product).",
    ],
    timeout={"quick": 600, "thorough": 1800},
)

"""C17 registry entry + the extra kernel obligations (2-byte scaling combinations).

`lake` schedules hundreds of tiny independent modules badly (6.6 min for 256 chunk theorems);
16 parallel `lean` processes need ~80 s.  So the chunk theorems are generated and checked here,
outside the lake library, compiled to .olean files, and assembled (imported) by a generated
`C17Assemble.lean` that proves `PlumVerif.C17.inverse` / `accept_refuse` for ALL rows by
instantiating `inverse_of_combos` / `accept_refuse_of_combos` of Props/C17.lean.

Caching: a chunk directory is keyed by sha256(float model + scaling model + the combination's
numbers + lean version); the assembly by that plus every Lean source it imports.  An unchanged
tree is a no-op; any change to a row that produces a new combination, or to the model, re-proves.
"""
import concurrent.futures
import hashlib
import json
import os
import re
import shutil
import subprocess
import time

from registry_common import COMMON_ASSUME

ALLOWED = {"propext", "Classical.choice", "Quot.sound"}
TEMPLATE_VERSION = "4"
JOBS = 16


def _read(p):
    with open(p, "rb") as f:
        return f.read()


def _conv_lit(c):
    cls = ".scaledOff" if c[0] else ".scaled"
    return f"(⟨{cls}, {c[1]}, {c[2]}, {c[3]}, {c[4]}⟩ : Conv)"


def _combo_lit(c):
    return f"(⟨{'true' if c[0] else 'false'}, {c[1]}, {c[2]}, {c[3]}, {c[4]}, {c[5]}⟩ : Gen.Combo)"


def _lean_env(lean_dir):
    p = subprocess.run(["lake", "env", "printenv", "LEAN_PATH"], cwd=lean_dir, stdout=subprocess.PIPE, stderr=subprocess.PIPE, text=True)
    if p.returncode != 0:
        raise RuntimeError("lake env failed: " + p.stderr[-500:])
    return p.stdout.strip()


def _run_lean(args, env, cwd, timeout=900):
    p = subprocess.run(["lean"] + args, cwd=cwd, env=env, stdout=subprocess.PIPE, stderr=subprocess.STDOUT, text=True, timeout=timeout)
    return p.returncode, p.stdout


def extra_obligations(ctx):
    t0 = time.time()
    lean_dir = os.path.abspath(ctx["lean"])
    log = ctx.get("log", lambda *a: None)
    with open(os.path.join(os.path.abspath(ctx["verif"]), "build", "tables.json")) as f:
        combos = json.load(f)["scaling"]["combos"]
    model_src = b"".join(_read(os.path.join(lean_dir, "PlumVerif", "Model", n)) for n in ("F64.lean", "Scaling.lean"))
    version = subprocess.run(["lean", "--version"], stdout=subprocess.PIPE, text=True).stdout.strip()
    base = os.path.join(lean_dir, ".lake", "c17")
    os.makedirs(base, exist_ok=True)
    res = dict(ok=True, obligations=0, discharged=0, failed=[], cached_chunks=0, proved_chunks=0, theorems=[])
    wide = [c for c in combos if c[5] >= 2]
    for c in wide:
        if c[5] > 2:
            res["ok"] = False
            res["failed"].append(f"combination {c}: {c[5]}-byte values need 256^{c[5]-1} chunk theorems; not supported")
    if not res["ok"]:
        return res
    try:
        lean_path = _lean_env(lean_dir)
    except Exception as e:  # noqa: BLE001
        return dict(ok=False, obligations=1, discharged=0, failed=[str(e)])
    # the chunk files import Model/Scaling, the assembly imports Props/C17: make sure their .olean files are current
    pb = subprocess.run(["lake", "build", "PlumVerif.Props.C17"], cwd=lean_dir, stdout=subprocess.PIPE, stderr=subprocess.STDOUT, text=True)
    if pb.returncode != 0:
        pb2 = subprocess.run(["lake", "build", "PlumVerif.Model.Scaling"], cwd=lean_dir, stdout=subprocess.PIPE, stderr=subprocess.STDOUT, text=True)
        if pb2.returncode != 0:
            return dict(ok=False, obligations=1, discharged=0, failed=["scaling model does not build: " + pb2.stdout[-400:]])
    roots = {}
    keep = set()
    # ---------------------------------------------------------------- chunk theorems
    for c in wide:
        key = hashlib.sha256(model_src + json.dumps(c).encode() + version.encode() + TEMPLATE_VERSION.encode()).hexdigest()[:16]
        ns = f"C17K_{key}"
        root = os.path.join(base, key)
        roots[tuple(c)] = (key, ns, root)
        keep.add(key)
        moddir = os.path.join(root, ns)
        os.makedirs(moddir, exist_ok=True)
        chunks = 256 ** (c[5] - 1)
        res["obligations"] += chunks
        stamp = os.path.join(root, "ok.json")
        todo = []
        if os.path.exists(stamp) and all(os.path.exists(os.path.join(moddir, f"C{h}.olean")) for h in range(chunks)):
            res["cached_chunks"] += chunks
            res["discharged"] += chunks
            continue
        for h in range(chunks):
            src = (
                "import PlumVerif.Model.Scaling\nopen PlumVerif.Scaling\n"
                f"namespace PlumVerif.{ns}\nset_option maxHeartbeats 4000000 in\n"
                f"theorem c{h} : ∀ l < 256, okStep {_conv_lit(c)} {256 ** c[5] - 1} (256 * {h} + l) = true := by decide +kernel\n"
                f"end PlumVerif.{ns}\n"
            )
            path = os.path.join(moddir, f"C{h}.lean")
            with open(path, "w") as f:
                f.write(src)
            if not os.path.exists(os.path.join(moddir, f"C{h}.olean")):
                todo.append(h)
        env = dict(os.environ, LEAN_PATH=lean_path)
        log(f"C17: proving {len(todo)} chunk theorems of combination {c} with {JOBS} parallel lean processes")

        def prove(h, moddir=moddir, root=root, env=env):
            tmp = os.path.join(moddir, f"C{h}.olean.tmp")
            rc, out = _run_lean(["-R", root, "-o", tmp, os.path.join(moddir, f"C{h}.lean")], env, lean_dir)
            if rc == 0 and os.path.exists(tmp):
                os.replace(tmp, os.path.join(moddir, f"C{h}.olean"))
                return h, True, ""
            if os.path.exists(tmp):
                os.unlink(tmp)
            return h, False, out[-600:]

        bad = []
        with concurrent.futures.ThreadPoolExecutor(JOBS) as ex:
            for h, ok, out in ex.map(prove, todo):
                if ok:
                    res["proved_chunks"] += 1
                else:
                    bad.append((h, out))
        res["discharged"] += chunks - len(bad)
        if bad:
            res["ok"] = False
            for h, out in bad[:5]:
                first = next((ln for ln in out.splitlines() if "error" in ln), out.strip()[:160])
                res["failed"].append(f"combination {c}: chunk theorem for raw {256*h}..{256*h+255} rejected by the kernel "
                                     f"(some raw value in it does not survive display -> write back): {first[:200]}")
            if len(bad) > 5:
                res["failed"].append(f"... and {len(bad) - 5} more chunks of combination {c}")
        else:
            with open(stamp, "w") as f:
                json.dump(dict(combo=c, key=key, chunks=chunks, lean=version), f)
    # keep the current combinations and the three most recent others (switching between trees stays cheap)
    others = [d for d in os.listdir(base)
              if os.path.isdir(os.path.join(base, d)) and d not in keep and re.fullmatch(r"[0-9a-f]{16}", d)]
    others.sort(key=lambda d: os.path.getmtime(os.path.join(base, d)), reverse=True)
    for d in others[3:]:
        shutil.rmtree(os.path.join(base, d), ignore_errors=True)
    # ---------------------------------------------------------------- assembly
    names = ["PlumVerif.C17.combos_all", "PlumVerif.C17.inverse", "PlumVerif.C17.accept_refuse",
             "PlumVerif.C17.display_injective", "PlumVerif.C17.display_monotone"]
    res["obligations"] += len(names)
    if pb.returncode != 0:
        res["ok"] = False
        res["failed"].append("assembly skipped: PlumVerif.Props.C17 does not build")
        res["wall_s"] = round(time.time() - t0, 1)
        return res
    if not res["ok"]:
        res["failed"].append("assembly skipped: chunk obligations failed")
        res["wall_s"] = round(time.time() - t0, 1)
        return res
    src = ["import PlumVerif.Props.C17"]
    for c in wide:
        key, ns, root = roots[tuple(c)]
        src += [f"import {ns}.C{h}" for h in range(256 ** (c[5] - 1))]
    src += ["namespace PlumVerif.C17", "open PlumVerif PlumVerif.Scaling PlumVerif.ParamSet", ""]
    for j, c in enumerate(combos):
        if c[5] == 1:
            src += [f"theorem combo{j}_all : ∀ raw : Nat, raw < 256 ^ {_combo_lit(c)}.size → okStep (Combo.conv {_combo_lit(c)}) (256 ^ {_combo_lit(c)}.size - 1) raw = true :=",
                    f"  fun raw h => combos_1byte {_combo_lit(c)} (by decide) rfl raw (by simpa using h)", ""]
            continue
        key, ns, root = roots[tuple(c)]
        n = 256 ** (c[5] - 1)
        src += [f"theorem combo{j}_conv : Combo.conv {_combo_lit(c)} = {_conv_lit(c)} := rfl",
                f"theorem combo{j}_upto_0 : ∀ raw : Nat, raw < 256 * 0 → okStep {_conv_lit(c)} {256 ** c[5] - 1} raw = true :=",
                "  fun raw h => absurd h (by omega)"]
        for h in range(n):
            src += [f"theorem combo{j}_upto_{h+1} : ∀ raw : Nat, raw < 256 * {h+1} → okStep {_conv_lit(c)} {256 ** c[5] - 1} raw = true := fun raw hr =>",
                    f"  if hlt : raw < 256 * {h} then combo{j}_upto_{h} raw hlt else by",
                    f"    have := PlumVerif.{ns}.c{h} (raw - 256 * {h}) (by omega)",
                    f"    rwa [show 256 * {h} + (raw - 256 * {h}) = raw by omega] at this"]
        src += [f"theorem combo{j}_all : ∀ raw : Nat, raw < 256 ^ {_combo_lit(c)}.size → okStep (Combo.conv {_combo_lit(c)}) (256 ^ {_combo_lit(c)}.size - 1) raw = true := by",
                f"  intro raw h; rw [combo{j}_conv]; exact combo{j}_upto_{n} raw (by simpa using h)", ""]
    lits = ", ".join(_combo_lit(c) for c in combos)
    src += ["/-- every emitted combination passes on every raw value of its width -/",
            "theorem combos_all : ∀ c ∈ Gen.combos, ∀ raw : Nat, raw < 256 ^ c.size → okStep (Combo.conv c) (256 ^ c.size - 1) raw = true := by",
            "  intro c hc",
            f"  have hl : Gen.combos = [{lits}] := rfl",
            "  rw [hl] at hc",
            "  simp only [List.mem_cons, List.not_mem_nil, or_false] at hc",
            "  rcases hc with " + " | ".join(["rfl"] * len(combos))]
    src += [f"  · exact combo{j}_all" for j in range(len(combos))]
    src += ["",
            "/-- **C17**: for every scaled row of every table and every raw value the controller can report, writing back",
            "the displayed value yields that raw value (unconditional: all combinations discharged). -/",
            "theorem inverse : ∀ kd ∈ allRows, isScaled kd.1 kd.2 = true → ∀ raw : Nat, raw < 256 ^ kd.2.size →",
            "    toRaw (convOf kd.1 kd.2) (display (convOf kd.1 kd.2) raw) = .ok (raw : Int) :=",
            "  inverse_of_combos combos_all",
            "",
            "theorem accept_refuse : ∀ kd ∈ allRows, isScaled kd.1 kd.2 = true → ∀ (t : Triple) (raw : Nat), raw < 256 ^ kd.2.size →",
            "    (raw : Int) ≠ t.value →",
            "    ParamSet.decide (convOf kd.1 kd.2) t (display (convOf kd.1 kd.2) raw) =",
            "      if t.min ≤ raw ∧ (raw : Int) ≤ t.max then .transmit raw else .reject :=",
            "  accept_refuse_of_combos combos_all",
            "",
            "/-- two raw values of a scaled row with the same displayed value are the same raw value -/",
            "theorem display_injective : ∀ kd ∈ allRows, isScaled kd.1 kd.2 = true → ∀ a b : Nat, a < 256 ^ kd.2.size → b < 256 ^ kd.2.size →",
            "    display (convOf kd.1 kd.2) a = display (convOf kd.1 kd.2) b → a = b :=",
            "  display_injective_of_combos combos_all",
            "",
            "/-- the displayed value of a scaled row never decreases as the raw value grows (exact rationals) -/",
            "theorem display_monotone : ∀ kd ∈ allRows, isScaled kd.1 kd.2 = true → ∀ a b : Nat, a ≤ b → b < 256 ^ kd.2.size →",
            "    F64.Q.le (shownQ (convOf kd.1 kd.2) a) (shownQ (convOf kd.1 kd.2) b) = true :=",
            "  display_monotone_of_combos combos_all",
            "end PlumVerif.C17"]
    src += [f"#print axioms {n}" for n in names]
    text = "\n".join(src) + "\n"
    dep = hashlib.sha256(text.encode())
    for sub in ("Generated", "Model", "Props"):
        d = os.path.join(lean_dir, "PlumVerif", sub)
        for fn in sorted(os.listdir(d)):
            if sub == "Props" and fn != "C17.lean":
                continue
            if sub == "Model" and fn not in ("F64.lean", "Scaling.lean", "ParamTables.lean", "ParamSet.lean"):
                continue
            if fn.endswith(".lean"):
                dep.update(fn.encode() + _read(os.path.join(d, fn)))
    akey = dep.hexdigest()[:16]
    apath = os.path.join(base, "C17Assemble.lean")
    astamp = os.path.join(base, "assemble.json")
    cached = None
    if os.path.exists(astamp):
        try:
            with open(astamp) as f:
                cached = json.load(f)
        except Exception:  # noqa: BLE001
            cached = None
    if cached and cached.get("key") == akey and cached.get("ok"):
        res["theorems"] = cached["theorems"]
        res["discharged"] += len(names)
        res["assembly_cached"] = True
    else:
        with open(apath, "w") as f:
            f.write(text)
        env = dict(os.environ, LEAN_PATH=":".join([lean_path] + [roots[tuple(c)][2] for c in wide]))
        rc, out = _run_lean([apath], env, lean_dir, timeout=1800)
        flat = re.sub(r"\s+", " ", out)
        ths = []
        good = rc == 0
        for n in names:
            m = re.search(r"'" + re.escape(n) + r"' depends on axioms: \[([^\]]*)\]", flat)
            if m:
                ax = [a.strip() for a in m.group(1).split(",") if a.strip()]
            elif re.search(r"'" + re.escape(n) + r"' does not depend on any axioms", flat):
                ax = []
            else:
                ax = None
            ths.append(dict(name=n, axioms=ax))
            if ax is None or not set(ax) <= ALLOWED:
                good = False
                res["failed"].append(f"assembly: {n}: axioms {ax}")
            else:
                res["discharged"] += 1
        res["theorems"] = ths
        if not good:
            res["ok"] = False
            res["failed"].append("assembly C17Assemble.lean failed: " + out.strip()[-600:])
        else:
            with open(astamp, "w") as f:
                json.dump(dict(key=akey, ok=True, theorems=ths), f)
    res["wall_s"] = round(time.time() - t0, 1)
    return res


ENTRY = dict(
    title="Displayed and raw values are exact inverses for every scaled parameter",
    design_ref="DESIGN.md section 6 / C17",
    technique=("exact binary64 model in Lean (rationals + round-to-nearest-even, CPython's correctly rounded round(x, n)); "
               "kernel evaluation (`decide +kernel`) of every distinct (multiplier, offset, precision, size) combination x every raw value, "
               "2-byte combinations as 256 generated chunk theorems checked by 16 parallel lean processes and assembled; "
               "translator lemma: every table row uses a listed combination; float model validated exhaustively against CPython"),
    level_text=(
        "Proof: `C17.inverse` (assembled from `inverse_of_combos`, `combos_1byte` and the generated chunk theorems) shows for EVERY "
        "scaled row of the ecoMAX P/I, mixer P/I, thermostat tables and the thermostat profile and EVERY raw value 0..256^size-1 that "
        "toRaw(display(raw)) = raw in the exact binary64 model; `C17.display_injective` / `C17.display_monotone` that the displayed value is an injective, never decreasing (hence strictly increasing) function of the raw value; `C17.accept_refuse` that the displayed form of a raw value is accepted "
        "(transmitting that raw value) iff it lies within the reported bounds; `inverse_plain`/`inverse_switch` cover unscaled numbers "
        "and switches. The tables are re-extracted from the source on every run (`row_uses_listed_combo`, `attrs_match`). The float "
        "model and the hand-modelled operation order are validated on the same finite domain: every combination x every raw value, "
        "value/min_value/max_value and the raw in the request queued by set(displayed), against CPython."),
    level_note=("Trusted: Lean kernel (GMP naturals); the binary64 model equals CPython on the exhaustively enumerated domain (checked every run); "
                "chunk theorems are checked outside `lake build` (cached by content hash) and imported by the assembly file."),
    clauses={
        "write-back of the displayed value transmits the same raw value, every row x every raw value": "theorem (table: kernel-evaluated per combination; rows tied by translator lemma)",
        "displayed minimum/maximum are the displayed forms of the raw bounds (numbers)": "theorem about the model (`shown_bounds_number`) + correspondence (the three property bodies are separate code)",
        "displayed form inside the bounds accepted, outside refused": "theorem (`accept_refuse`, through C06's decision model)",
        "switches": "theorem `inverse_switch`: inverse exactly on raw 0/1; min_value/max_value are the constants 'off'/'on' (outside the statement's 'scaled parameter' scope)",
        "float model = CPython arithmetic": "correspondence, exhaustive on the theorem's domain",
    },
    assumptions=COMMON_ASSUME + [
        "IEEE-754 binary64 with round-to-nearest-even and CPython's correctly rounded round(float, n) / int->float conversion (modelled exactly; validated exhaustively on the domain)",
        "raw values are the non-negative integers a `size`-byte field can hold",
    ],
    timeout={"quick": 600, "thorough": 1800},
    extra_obligations=extra_obligations,
    extra_cmd="registry_d/C17.py:extra_obligations (generated chunk theorems: `lean -o` x256 in 16 processes; `lean .lake/c17/C17Assemble.lean`)",
    trusted=["registry_d/C17.py chunk generator and content-hash cache (chunk theorems are checked by `lean`, outside `lake build`)"],
)

from registry_common import COMMON_ASSUME

ENTRY = {'title': 'Payload decoding conforms to the ecoNET wire layout for every message',
 'design_ref': 'DESIGN.md section 6 / C05',
 'technique': 'Lean 4 round-trip theorems decode(encode m ++ rest) = (valOf m, rest) for every structure and the whole sensor chain (wire layout '
              'written once as encoders = the specification) + correspondence: Lean-encoded messages decoded by the real frames, plus a malformed '
              'stream + code tie: the parameter-block, sensor-section (thermostat / mixer sensors, fuel level, fan / boiler power, statuses, outputs, temperatures, lambda, frame versions ...) and schedule decoders translated from their source text on each run (tools/py2lean.py) with kernel-checked `translated = decoder model` theorems (Props/TieStructParams, TieStructSensors, TieStructSections, TieStructSections2, TieStructSchedules, TieParams, TieUid)',
 'prop_modules': ['C05Sensors', 'C05Params', 'C05Ctx', 'C05CtxDevice', 'C05Device', 'C05Short', 'C05Uid', 'C05ShortParams', 'TieUid', 'TieParams', 'TieSchedule', 'TieStructParams', 'TieStructSensors', 'TieStructSections', 'TieStructSections2', 'TieStructSchedules'],
 'uses_tables': True,
 'level_text': 'Proof: for ALL well-formed abstract messages and ALL trailing bytes the decoder model run on the Lean-defined encoding returns '
               'exactly the encoded values and the remainder: the 16-section sensor chain (`rt_sensorData`, every presence combination; per-section '
               'theorems incl. sentinels 0xFF/NaN, fuel-level rebasing, module vendor suffix, per-thermostat contact/schedule mask shift, '
               '`sections_no_collision`), regulator data over all 17 type ids with the bit cursor crossing byte boundaries (`rt_scalar`, '
               '`rt_bitRun`, `rt_regdata`, `rt_schema`, `rt_regdata_via_schema`), parameter blocks with arbitrary start/count/holes (`hole_iff`, '
               '`rt_slot`, `rt_params_ecomax/mixer/thermostat`), schedules (`rt_schedules`, `bitmap_bits`), alerts with the 31-day-month timestamp '
               'arithmetic (`rt_alerts`, `alert_timestamp`, `alert_date`), UID/product info (`rt_uid`), password (`rt_password`). The UID text is '
               'proved to be the base-32 expansion of uid ++ CRC-16 (`crc16_step_spec`, `crc16_step_table`, `crc16_fits`, `base5_digits`) and what '
               'it determines is characterised exactly (`uidString_eq_iff_padded`, `uidString_injective_fixed_len`, `uid_collision`). Malformed '
               'side: for EVERY byte string when each decoder raises and when it returns a value (`decode_total_*`), what every strict prefix of a '
               'well-formed payload decodes to incl. the silently short cases of lenient slicing (`short_*`), and the converse of the round trips '
               'for payloads whose counts fit (`canonical_*`). Device level (`Model/DeviceData.lean`): what EcoMAX.handle_frame leaves in '
               'device.data and the sub-devices — `thermostat_count_plumbed` (sensor frame with T slots, then thermostat parameters laid out for T '
               'decode with T), `schema_then_data`, `later_schema_replaces`, `frame_versions_same_layout`; truncated sensor payloads characterised '
               'exactly (`short_payload_errors`, `short_payload_tail_ok`). Names, constants and tables are regenerated from the '
               'source on every run and pinned by `decide` lemmas. Tie: abstract messages generated in Python, ENCODED BY THE LEAN DRIVER, decoded '
               'by the real frames (with and without an owning device), compared with valOf; truncations / mutations / noise compared '
               'value-or-error; purity checked by repeated decodes.',
 'level_note': 'All structures have a round-trip theorem. Rests on correspondence: model <-> structures/*.py, purity, error classes of malformed '
               'payloads, formatted model name (printable ASCII only), UTF-8 validity = bytes.decode. Trusted: struct float conversion, inet_ntop '
               'text.',
 'clauses': {'code tie of the remaining sensor sections (round 8, fourth leg): the SOURCE TEXT of StatusesStructure / OutputsStructure / LambdaSensorStructure / '
             'TemperaturesStructure .decode and of FrameVersionsStructure (._unpack_frame_versions, .decode), translated on every run, equals Sens.decStatuses / '
             'decOutputs / decLambda / decTemperatures / decVersion / decFrameVersions (the model function is on the right-hand side of each theorem) for every '
             'message, every NATURAL offset (negative offsets not covered) and every data argument that is None or a string-keyed dict — merged fields '
             '(rendering fieldV; lambda_level = level / 10 as the EXACT rational Py.ratioV level 10 = Val.ratio level 10 (fieldV2): CPython answers the float nearest to '
             'it, trusted contract of Py.truediv; int(math.pow(2, i)) = 2^i trusted for 0 <= i <= 1023), returned offset (off + 4; lambda: off + 1 when the state '
             'byte is 0xFF, else off + 4; temperatures off + 1 + 5*count; frame versions off + 1 + 3*count), exception class by the byte / slot that is cut; '
             'LambdaState(x) / FrameType(x) under suppress(ValueError) leave the number (an IntEnum member is its int in the value domain); temperatures: item '
             'assignments in order = the model\'s dict(pairs) merged into data (a later entry of the same name overwrites, NaN and out-of-range indexes skipped; the '
             'mutation of the caller\'s data object is not modelled); frame versions: dict(generator) = versionsVal (a later duplicate overwrites, first position kept, '
             'unknown frame types kept as numbers) — the dict C15 consumes; the instance after a successful call (frame versions), not after an exception':
                 'theorem (TieStructSections2.statuses_decode_eq, outputs_decode_eq, lambda_decode_eq, temperatures_decode_eq, temperatures_decode_model, '
                 'unpack_version_eq, version_fold, dict_versions, frame_versions_decode_eq, frame_versions_decode_model, setAll_assocOf, tempFields_pairs, the *_rest lemmas) '
                 '+ translator validation (harness/pycode.py group sensors)',
             'code tie of the schedules structure (round 8): the SOURCE TEXT of SchedulesStructure._unpack_schedule / .decode, translated on every run, equals '
             'Sched.decodeWeek / Sched.decodeResponse for every message, every NATURAL offset (negative offsets not covered), every instance and every data '
             'argument that is None or a string-keyed dict: (index, week) per entry, returned offset offset + 3 + 47*count, IndexError when the model '
             'fails, fewer than 3 bytes = no schedules with the offset unchanged; the schedule_parameters list is stated from the raw bytes (rawParams, '
             'with P2.unpackParam): the model Entry keeps switch and value only':
                 'theorem (TieStructSchedules.unpack_schedule_eq, sched_fold, schedules_decode_eq, rawParams_model: the (index, value) pairs of that list = the model entries\' switches and values) + translator validation (harness/pycode.py group schedule)',
             'code tie of the short sensor sections and the mixer-sensors section (round 8): the SOURCE TEXT of FuelLevelStructure / BoilerLoadStructure / '
             'PendingAlertsStructure / FanPowerStructure / BoilerPowerStructure / FuelConsumptionStructure / OutputFlagsStructure .decode and of '
             'MixerSensorsStructure (._unpack_mixer_sensors, ._mixer_sensors, .decode), translated on every run, equals Sens.decFuelLevel / decBoilerLoad / '
             'decPendingAlerts / decOptF32 / decOutputFlags / decMixer / decMixers (the model function is on the right-hand side of each theorem) for every '
             'message, every NATURAL offset (negative offsets not covered) and every data argument that is None or a string-keyed dict — merged fields '
             '(rendering fieldV : Val -> V), returned offset (pending alerts: offset + 1 + count), exception class by the slot that is cut; the instance '
             'after a successful call (mixers), not after an exception':
                 'theorem (TieStructSections.fuel_level_decode_eq, boiler_load_decode_eq, pending_alerts_decode_eq, fan_power_decode_eq, '
                 'boiler_power_decode_eq, fuel_consumption_decode_eq, output_flags_decode_eq, unpack_mixer_eq, mixer_fold, mixer_sensors_decode_eq, '
                 'mixer_sensors_decode_model, mixP_model, decMixers_shape, the *_rest lemmas) + translator validation (harness/pycode.py group sensors)',
             'code tie of the thermostat-sensors section (round 8): the SOURCE TEXT of ThermostatSensorsStructure (._unpack_thermostat_sensors, '
             '._thermostat_sensors, .decode), translated on every run, equals Sens.decThermostats (one statement: '
             'TieStructSections.thermostat_sensors_decode_model, result = match Sens.decThermostats (msg.drop off) …) / thermoEntries for every message, every '
             'NATURAL offset (negative offsets not covered), every instance and every data argument that is None or a string-keyed dict — masks shifted once '
             'per slot (connected or not), index = position, 9 bytes per slot, error classes; instance attributes after a successful call only':
                 'theorem (TieStructSections.thermostat_sensors_decode_model, thermostats_rest; TieStructSensors.unpack_thermostat_eq, thermostat_fold, '
                 'thermostat_sensors_decode_eq, entriesP_model, decThermostats_shape) + translator validation (harness/pycode.py group sensors)',
             'code tie of the parameter blocks (round 8): the SOURCE TEXT of EcomaxParametersStructure / MixerParametersStructure / '
             'ThermostatParametersStructure (.decode and their generators) and utils.ensure_dict, translated on every run, equals P2.decodeEcomax '
             '/ decodeMixer / decodeThermo for every message, every NATURAL offset (negative offsets not covered), every instance and every data argument '
             'that is None or a string-keyed dict; thermostat decoder: instance with frame.handler = None or a device rendered as a dict whose '
             'thermostats_available is absent or a natural (trusted get_nowait contract); the helpers _thermostat_parameter(s) for T != 0 (decode never '
             'calls them with 0); instance attribute _offset after a successful call only; closed right-hand sides (blocksDictV)':
                 'theorem (TieStructParams.ecomax_decode_eq, mixer_decode_closed, thermo_decode_closed (= mixer_decode_eq / thermo_decode_eq + mixer_dict / '
                 'thermo_dict), thermo_sizes_tbl) + translator validation (harness/pycode.py group structparams)',
             'every sensor section reads its own bytes / width / sentinel / count': 'theorem',
             'sensor chain for every presence combination': 'theorem (rt_sensorData)',
             'regulator data over all 17 type ids, bit arrays crossing byte boundaries': 'theorem (rt_scalar, rt_bitRun, rt_regdata, '
                                                                                         'rt_regdata_via_schema)',
             'parameter blocks (ecoMAX, mixer, thermostat), hole sentinel': 'theorem (rt_params_*, hole_iff)',
             'schedules, alerts, UID, password': 'theorem (rt_schedules, rt_alerts, rt_uid, rt_password)',
             'names / constants / tables': 'table (translator + decide lemmas)',
             'decoding gives the same result every time, whatever device the frame belongs to: what each kind may read of the owning device':
                 'by construction of `Ctx5.decode` (Model/DecodeCtx does not pass the context to these decoders; eleven `rfl` results, MODELLING DECISIONS whose content is harness/c05_ctx.py): '
                 'C05.ctx_irrelevant_* for eight kinds, product_type_irrelevant, regdata_no_device_is_empty_schema, device_thermo_decodes_with_ctx, device_regdata_decodes_with_ctx '
                 '(and their per-family restatements ctx_irrelevant, thermostat_reads_only_the_count, regdata_reads_only_the_schema); '
                 'theorem (real content; Props/C05CtxDevice over Model/DeviceData): applyThermo_count, handleRegdata_schema (handling a frame leaves alone what its own decode reads of the device), '
                 'handled_again_same_decode (after a device has handled a frame, the payload of that frame decodes for this device to what it decoded to before); '
                 'thermostat_ctx_relevant / regdata_ctx_relevant: witnesses that the two dependences are real + '
                 'correspondence (harness/c05_ctx.py: every class with a decode_message of its own x 9-10 contexts, grouped by what the theorem allows; device level: one '
                 'frame object handled by a device, again, by a second device, fresh frame after the device data changed; payload bytes compared at every step)',
             'decoding is pure and repeatable': 'definitional in the model + correspondence (decode twice, fresh frame, payload bytes unchanged)',
             'truncated sensor-data payloads: exactly which strict prefixes are errors': 'theorem (short_payload_errors, '
                                                                                         'short_payload_tail_ok) + correspondence (every truncation '
                                                                                         "of sampled messages judged by the theorem's bound)",
             'device level: sensors -> one event per name, mixer / thermostat sub-devices, thermostat count plumbed to the thermostat-parameters decoder': 'theorem '
                                                                                                                                                           '(thermostats_available_after, '
                                                                                                                                                           'thermostat_count_plumbed, '
                                                                                                                                                           'thermostat_count_zero) '
                                                                                                                                                           'on '
                                                                                                                                                           'the '
                                                                                                                                                           'device '
                                                                                                                                                           'model '
                                                                                                                                                           '+ '
                                                                                                                                                           'correspondence '
                                                                                                                                                           '(frame '
                                                                                                                                                           'sequences '
                                                                                                                                                           'into '
                                                                                                                                                           'ONE '
                                                                                                                                                           'real '
                                                                                                                                                           'EcoMAX, '
                                                                                                                                                           'device.data '
                                                                                                                                                           'and '
                                                                                                                                                           'sub-device '
                                                                                                                                                           'data '
                                                                                                                                                           'compared '
                                                                                                                                                           'after '
                                                                                                                                                           'every '
                                                                                                                                                           'frame)',
             'device level: schema response then regulator data, a later schema replaces an earlier one, an empty schema keeps it': 'theorem '
                                                                                                                                    '(schema_then_data, '
                                                                                                                                    'later_schema_replaces, '
                                                                                                                                    'empty_schema_keeps) '
                                                                                                                                    '+ '
                                                                                                                                    'correspondence',
             'frame versions: same layout in sensor data and regulator data, last duplicate wins, unknown codes kept; the dict C15 consumes': 'theorem '
                                                                                                                                              '(frame_versions_same_layout, '
                                                                                                                                              'frame_versions_last_wins, '
                                                                                                                                              'sensor_frame_versions, '
                                                                                                                                              'regdata_frame_versions); '
                                                                                                                                              'driver '
                                                                                                                                              'op '
                                                                                                                                              '`c05-versions` '
                                                                                                                                              'exports '
                                                                                                                                              'it as '
                                                                                                                                              'a C15 '
                                                                                                                                              'announcement '
                                                                                                                                              'event',
             'thermostat parameters without an owning device': 'documented exclusion (model and implementation both raise)',
             'UID text = base-32 of uid ++ CRC-16(0xA001, 0xA3A3); what the text determines': 'theorem (crc16_step_spec, crc16_step_table, '
                                                                                              'crc16_fits, crc16_residue, base5_digits, '
                                                                                              'uidString_eq_iff_padded, '
                                                                                              'uidString_injective_fixed_len, uid_collision) + table '
                                                                                              '(BASE5_KEY, CRC, POLYNOMIAL via translator) + '
                                                                                              'correspondence (decode_uid incl. the colliding '
                                                                                              'inputs)',
             'malformed payloads: when the model raises / returns a value, every strict prefix': 'theorem about the model (decode_total_*, short_*) '
                                                                                                 '+ correspondence (model = implementation on every '
                                                                                                 'prefix of sampled payloads, truncations, noise; '
                                                                                                 'value or error class)',
             'decode then encode (canonical payloads)': 'theorem (canonical_ecomax/mixer/thermostat/schedules/uid, decode_total_alerts); fails only '
                                                        'for payloads shorter than their count fields say (short_*)'},
 'timeout': {'quick': 600, 'thorough': 3000},
 'assumptions': COMMON_ASSUME}

from registry_common import COMMON_ASSUME

ENTRY = dict(
        title="Callback filters deliver what they promise over every value sequence",
        design_ref="DESIGN.md section 6 / C20",
        prop_modules=["C20", "C20F64", "C20F64Pin", "C20Table"],
        technique="Lean 4 theorems by induction over ALL call lists (each filter a Mealy machine over values and clock readings) "
                  "+ correspondence with the real filter objects under a patched time.monotonic + Lean judge C20.spec on implementation deliveries",
        level_text=(
            "Proof: for every call list (numbers as sixteenths, strings, lists, parameter records; arbitrary clock readings) the "
            "`*_snoc` theorems say what each filter does with one more call after ANY history, in terms of the history only "
            "(last delivered value, calls since then, last delivery time): on_change delivers the first value and exactly the values "
            "differing from the last delivered; debounce(n) delivers once the last n consecutive calls since the last delivery all "
            "differed from it; throttle delivers iff nothing was delivered or >= interval passed, and ANY two deliveries are >= interval "
            "apart (`throttle_spacing`); delta's differences telescope to reference - first with the last input within the tolerance "
            "(`delta_telescopes`, `delta_total_change`); aggregate conserves the sum (`aggregate_conservation`); pass-through filters and "
            "their chains deliver a subsequence of the calls (`passThrough_sublist`); a chain a(b(cb)) delivers what b delivers on a's "
            "deliveries (`chain_delivered`); `holds` shows every model run passes the judge applied to the implementation. "
            "The source's TOLERANCE constant is tied to the statement's 0.1 by `tolerance_is_one_tenth`. "
            "The machines are tied to filters.py by running both on generated call sequences (every filter, every ordered pair chained, "
            "all value kinds incl. the string 'undefined', Parameter objects updated in place)."),
        level_note="Trusted: Lean kernel; filter machines <-> filters.py tie is differential; binary64 arithmetic is exact on the generated numbers "
                   "(multiples of 1/16 below 10^6); the change test on arbitrary doubles is the exact binary64 model of math.isclose with the tolerances read from the source (C20F64, C20F64Pin).",
        clauses={
            "on_change: first value, then exactly the values differing from the last delivered": "theorem (onChange_snoc, onChange_first, onChange_num)",
            "debounce: delivered once differing for the configured number of consecutive calls": "theorem (debounce_snoc, debounce_delivers_iff)",
            "throttle: never two deliveries closer than the interval; a later value is always delivered": "theorem (throttle_spacing, throttle_snoc)",
            "delta: differences add up to the total change": "theorem (delta_telescopes / delta_total_change over numbers; delta_telescopes_numeric / delta_total_change_numeric over numbers AND True / False in any mix — booleans are numbers for the filters; delta_snoc); over Parameter objects: open finding F4 (raises; a number following a Parameter raises TypeError in the same way)",
            "aggregate: delivered sums + remainder = sum of inputs": "theorem (aggregate_conservation_observable: delivered sums + the values of the calls made since the last delivery = sum of all inputs — stated on the call / delivery history only; aggregate_delivered_is_total: at every delivery instant the delivered sums are the sum of all inputs so far; aggregate_conservation is the same with the machine's internal remainder, tied to the history by aggregate_state; aggregate_snoc)",
            "delivered values unmodified and in order": "theorem (passThrough_sublist, custom_outs)",
            "several filter objects built around the same callback are independent": "theorem (instances_independent: each object filters its own call sequence as a fresh filter, however the calls interleave) + correspondence (the same factory expression evaluated 2-3 times around ONE callback object, coinciding streams; per-object judge C20.spec)",
            "the delivered object IS the object passed in (pass-through filters)": "correspondence (identity observed by the harness; values: theorem passThrough_sublist)",
            "chains of two filters": "theorem (chain_delivered, chain_throttle_spacing, holds_chain)",
            "Filter.__eq__ / unhashable: a filter equals filters and callables around the same callback, unsubscribe(name, cb) finds the first such entry":
                "by construction of the hand model `FObj.eqMethod` (Model/FiltersEq.lean): C20Table.eq_ignores_kind / eq_callable / eq_other are `rfl`, eq_refl / eq_symm / eq_trans are Nat equality — readings of the model, NOT theorems about filters.py; "
                "content = theorem every_factory_returns_a_plain_filter (kernel-checked probe table: every factory's object uses Filter.__eq__, is unhashable, equals its own callback) + public_classes_pinned "
                "+ findEntry_first (entry i matches AND no earlier entry does) / findEntry_none over the model's == "
                "+ correspondence (harness/c20.py eq_probe: real filter objects vs filters / callables / non-callables in both operand orders, list.remove, `in`)",
            "tolerance 0.1 = source constant": "theorem over the translated constant (tolerance_is_one_tenth)",
            "values are snapshots: a container changed in place by its owner and passed again as the same object": "correspondence (mode `inplace`: ONE list / dict object, empty when first delivered or cleared later, singleton, nested list of lists / dict of lists, changed by clear / append / del / item and slice assignment and passed again; every filter and chains; the model sees the content at the time of each call). Flat containers: holds; an INNER container changed in place: open finding F10 (shallow copy)",
            "a live Parameter changed by its owner between deliveries (Parameter.update by a report, the real Parameter.set() by the client)": "correspondence (section setapi: one real Number parameter on a stub device, "
                "set() run as a task up to its first sleep / through its retries, reports confirming, stale or moving the bounds; on_change / debounce / custom; machine and judge C20.spec on the parameter states observed at the calls)",
            "filters.py behaves as the machines": "correspondence (generated sequences; judge C20.spec on every implementation run)",
            "numbers as binary64 doubles, every magnitude": "theorem (C20F64: onChange_law / debounce_law / delta_law over ALL sequences of finite doubles with math.isclose as CPython computes it, "
                "for whatever rel_tol / abs_tol the translator reads from the call in filters.py; C20F64Pin: relTol_is_zero pins rel_tol = 0 for the current source, hence changed_is_exceeds — for all doubles "
                "changed <-> |fl(new - old)| > fl(0.1) — onChange_statement / debounce_statement / delta_statement, and changed_is_differs_of_exact: the statement's reading on the exact values wherever the "
                "float subtraction is exact; large_step_delivered: 200000000.0 then 200000000.15 (failing input of the fixed rel_tol defect)) + correspondence (section f64: model vs filters.py on doubles from "
                "5e-324 to 2^1000, statement judge wherever the compared pairs subtract exactly)",
            "float tolerance boundary (inputs exactly 0.1 apart in decimal)": "theorem (decimal_boundary_*, tenths_agree_a..d: kernel-evaluated on the doubles nearest to k/10 for k = -60 .. 1059) + correspondence (modes tenths / hundredths / accumulated / ulp)",
        },
        public_routes=(
            "route audit: on_change, debounce, throttle, delta, aggregate, custom (4 predicates) and every ordered pair chained — driven; the RESULT of a filter call (what the "
            "event manager threads on) — C13 (Filter.stepR, c13fr); Filter.__eq__ — C13 (unsubscribe by a new filter object); several objects from one factory expression — driven; "
            "overlapping calls to one filter object — outside the quantifier (observed: aggregate loses what is added while its callback is suspended)."),
        assumptions=COMMON_ASSUME + [
            "the exact-sum laws (delta telescopes, aggregate conserves) are stated on numbers where every float operation is exact (multiples of 1/16 below 10^6); the change test itself is modelled on all "
            "finite doubles (C20F64). Outside the statement's literal reading and NOT a defect: a pair whose exact difference exceeds 0.1 by less than half an ulp of the difference compares as unchanged, because "
            "math.isclose subtracts in floating point (C20F.rounding_witness); NaN and infinities are not modelled",
            "dicts are carried in the model as opaque values with structural equality and no subtraction (the string of their key-sorted text), nested lists as lists of injective codes of the inner lists: the filters only use ==, `in` and - on values",
            "mixed kinds: a plain value FOLLOWING a Parameter is compared as Parameter.__eq__ does (the parameter's value against int() of a number / True / False, 1 / 0 for 'on' / 'off'; anything else counts as changed), a Parameter following a plain value always counts as changed (float.__ne__(Parameter) is the truthy NotImplemented), delta's difference in the two orders is a TypeError resp. value - int(old): all of this is in `changed` / `difference` / `differs` / `expectDelta` and exercised by the harness (value class param-mixed); other values of different kinds compare as changed (Python 3.12: truthy NotImplemented)",
            "in a chain a(b(cb)) both stages read the SAME clock value (chainStep hands the call time on): in the code each stage calls time.monotonic() itself, the inner one some microseconds later; the harness's patched clock does not move inside a call. Chain theorems that involve two clocked stages (throttle / aggregate inside a chain: chain_throttle_spacing, holds_chain) are modulo that; an inner reading later by d only makes the inner stage deliver earlier by at most d",
            "calls to one filter object do not overlap (each call is awaited before the next)",
        ],
    )

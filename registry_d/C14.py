from registry_common import COMMON_ASSUME

ENTRY = dict(
    title="Arbitrary line noise causes only protocol errors and bounded loss",
    design_ref="DESIGN.md section 6 / C14",
    prop_modules=["C14", "C14Chunks", "C14History", "TieFrame", "TieReader", "TieChunks"],
    technique="Lean 4 theorems over all byte strings (progress, bounded demand, re-synchronisation by induction on the noise) + refutation witness for finding F2 + correspondence on noise corpora incl. a real AsyncProtocol producer + code tie (TieReader.read_eq) + demand bound in every suspension of the resumable reader machine (C14Chunks) + readers / connections with history in fresh processes (C14History, harness/history.py)",
    level_text=(
        "Proof over ALL byte strings: `C14.outcomes`, `C14.connLost_iff`, `C14.progress` (>= 1 byte per call, remainder is a suffix), "
        "`C14.bounded_consumption` (<= 1000 bytes from the delimiter), `C14.never_waits_beyond_max` + `C14.decided_by_consumed`, "
        "`C14.resync_partial` (after ANY noise a run of identical deliverable frames without an inner 0x68 is delivered consecutively with "
        "fewer than max-frame + one frame bytes lost; induction on the noise length). The full clause is FALSE of model and code: "
        "`C14.resync_counterexample` / `C14.resync_full_false` (finding F2, replayed on the implementation each run). Tie: noise corpora through "
        "the real reader and a real AsyncProtocol producer."),
    level_note="Partial: re-synchronisation proved only for frames without an inner start-delimiter byte (F2 open). Exception families escaping read() rest on the correspondence; producer survival is a theorem about the producer machine (Props/C09Producer.lean, registered under C09) tied by correspondence.",
    clauses={
        "only protocol errors / end of stream": "theorem for the model + correspondence (exception classes of the implementation)",
        "at least one byte per call": "theorem (C14.progress)",
        "never waits for more than the maximum frame size": "theorem (C14.bounded_consumption, never_waits_beyond_max) + correspondence (per call: bytes taken from its start delimiter <= 1000; while a call still waits, fewer than 1000 bytes counted from its first start delimiter have ARRIVED, consumed or not; noise includes idle / stuck lines over 1-3 byte values after a plausible header, longer than the maximum frame and than the 64 KiB stream buffer limit)",
        "never waits for more than the maximum frame size -- in EVERY suspension, for every chunking and arrival schedule":
            "theorem (C14.blocked_demand_bounded, never_demands_beyond_max, wakes_when_demand_met, every_interleaving_demand_bounded (any order of arrivals and reader runs, Model/ReaderSched) over the resumable reader machine Model/ReaderChunks: bytes demanded by the suspended primitive <= 1000 - bytes taken since the delimiter - bytes buffered) + correspondence (implementation observed at every suspension under random arrival schedules: awaited primitive, its argument, buffer length, bytes taken)",
        "producer loop keeps running": "theorem (C09Producer.producer_continues, stops_only_on_loss, producer_survives_noise: for EVERY byte stream the producer machine makes every read() of readAll and ends only at the end of the stream / a timeout / a write loss — never on a protocol error) + correspondence (real AsyncProtocol.frame_producer vs the machine at every quiescent point, harness/producer.py)",
        "frames delivered after the noise reach the application (whole connection: producer and consumers), also when the noise contains checksum-valid stray frames from the non-controller addresses 0x00 / 0x56":
            "correspondence (default AsyncProtocol fed noise + strays + a run; expected count from the reader model `read`; that every frame the reader hands out is handled or contained without losing a consumer is C09.never_stalls / no_consumer_dies / delivered_exactly_once)",
        "a reader / a connection in a process with HISTORY -- earlier read() calls abandoned (READER_TIMEOUT through the real @timeout, a caller's wait_for, cancellation; a connection ended by reader time-out / cancel_tasks / shutdown() while its producer was reading) at EVERY suspension point of read(), the Frame.create executor hop with its job still pending included (the awaiting task is cancelled and asyncio cancels the awaited run_in_executor future with it; harness/vloop.py's executor is checked against the real thread-pool executor in this respect on every run): every later call -- on the same reader, on new readers, on a second connection of the same protocol object and of a fresh one in the same process, fed noise and valid frames of the SAME handler module and of the other two -- raises only the documented errors or delivers, and the later connection's producer is alive, connected and delivers":
            "theorem (C14.history_leaves_no_residue: for ALL histories `pre` and continuations `post`, sessionX [] (pre ++ post) = events(pre) ++ sessionX rest post with rest = what arrived minus what the completed and abandoned calls consumed; C14.next_call_after_history_is_read: the next call that can complete is readFrame of exactly that remainder, so C14.outcomes / progress / bounded_consumption / resync_partial apply to it; C01.sessionX_calls_are_reads) + correspondence (harness/history.py: each history runs in a FRESH python process, so that whatever the library keeps outside the reader object -- module / class level, the protocol object -- is in its initial state and the first use of a handler module can be the abandoned one; events compared with sessionX, any exception outside the ProtocolError / OSError / TimeoutError families on a call nobody cancelled (CancelledError included) is a failing input = the session history; producer alive + connected + deliveries = reader model on the later stream). The model has no process-level state by construction; that the implementation has none that matters is what this correspondence checks",
        "re-synchronisation after noise": "theorem under noInner68 (C14.resync_partial); full statement refuted (F2, C14.resync_full_false) + correspondence (runs of frames of every length 10..70, judged on every hand-over of the stream: all buffered at once and lazily in chunks; a lost run is tagged F2 only when the frame has an inner start delimiter AND the reader model loses the run on that very input)",
    },
    public_routes={
        "FrameReader.read() on a StreamReader (what DummyProtocol hands to the user: protocol.reader)": "driven + compared with the reader model and judged",
        "AsyncProtocol.connection_established -> frame_producer": "driven + compared with the producer machine at every quiescent point (write faults, puts, foreign disconnect, end of stream / silence)",
        "whole connection (producer + default 3 consumers) after noise": "driven (run's frames must reach the ecoMAX device)",
        "on_connection_lost callbacks": "driven (announced at most once)",
        "FrameReader.read() / AsyncProtocol.connection_established on a reader, protocol object and PROCESS with abandoned earlier calls (incl. at Frame.create, executor job pending)": "driven in fresh processes + compared with sessionX / the reader model and judged (harness/history.py)",
        "open_tcp_connection / open_serial_connection": "not driven here (C11)",
    },
    assumptions=COMMON_ASSUME,
)

from registry_common import COMMON_ASSUME

ENTRY = dict(
    title="Every transmitted frame is a well-formed ecoNET frame with the intended fields",
    design_ref="DESIGN.md section 6 / C02",
    technique="Lean 4 theorems over all field values (envelope model `encode`, nine request payload builders, schedule bitmap, "
              "network-info and program-version encoders) + correspondence with Frame.bytes / FrameWriter.write / the running "
              "producer + Lean judges (C02.spec, positional parsers) evaluated on the implementation's own bytes",
    prop_modules=["C02", "C02Object"],
    level_text=(
        "Proof: `C02.envelope`/`C02.holds` show for ALL kinds, addresses, sender-type/version bytes and payloads with "
        "|payload|+10 < 65536 that the serialised bytes are 0x68, LE16 total length, recipient, sender, sender type, version, kind, "
        "payload, XOR of all preceding bytes, 0x16; `C02.nothing_else` shows the predicate pins every byte (spec f b -> b = encode f) and "
        "`C02.encode_injective` that different intended fields give different bytes. For each of the nine parameterised requests "
        "`*_parse` proves that whenever the builder succeeds the given fields are read back from the payload by the documented positional "
        "layout (exact length, nothing else), `*_ok` that it succeeds on every admissible value, and the error branches (absent key, value "
        "outside 0..255, thermostat overflow) are modelled explicitly; `C02.bitmap_layout` proves byte 6d+j of the bitmap holds slots "
        "8j..8j+7 of day d MSB first; `net_layout`/`version_layout` give the field offsets of the two encodable responses. "
        "Frame OBJECT (Props/C02Object, generic in the kind's create_message/decode_message): the state machine of frames/__init__.py "
        "(lazy `message`/`data` getters with caches, setters that clear the other cache, `bytes`, `len()`); for ALL operation sequences "
        "`bytes_reflect_last_content` (bytes = envelope of the unchanged header around the payload of the LAST data/message set), "
        "`length_consistent` (len() = length field = byte count), `getters_pure`, `getter_idempotent`; FrameWriter model: "
        "`write_hands_over_bytes`, `writeAll_events` (one write + one drain per frame, stream = concatenation), `close_events` "
        "(close, wait_closed, OSError/TimeoutError swallowed). "
        "The models are tied to the code by running the real classes on generated arguments (thorough: all 256^2 pairs of every "
        "two-field request, all (index, offset) thermostat pairs, 40 schedule kinds x 2k bitmaps) and comparing bytes, and the Lean "
        "judges are evaluated on what the implementation produced."),
    level_note="Trusted: Lean kernel; the builder models <-> requests.py/schedules.py/network_info.py/program_version.py tie is differential; "
               "struct/int.to_bytes/inet_aton/str.encode are CPython's.",
    clauses={
        "envelope (start, LE16 length, addressing, versions, kind, payload, XOR checksum, end) for all field values": "theorem",
        "the envelope predicate admits no other bytes (nothing else)": "theorem",
        "33 frame kinds with pairwise different one-byte codes; 40 schedule kinds; 42-byte bitmap": "table",
        "payload of each parameterised request holds exactly the given fields at documented positions": "theorem (per builder: *_parse, *_ok) + correspondence (builder model = create_message)",
        "schedule bitmap layout (byte 6d+j = slots 8j..8j+7 of day d, MSB first)": "theorem",
        "network-info / program-version payload offsets": "theorem + correspondence",
        "a re-used frame object serialises the last content it was given (all operation sequences)": "theorem (C02Object) + correspondence (every step of generated sequences on ONE object vs the model, plus a fresh-object oracle)",
        "FrameWriter: transport gets frame.bytes, one write + one drain per frame; close swallows OSError/TimeoutError": "theorem about the writer model + correspondence (scripted stream writer, virtual-time timeouts)",
        "class of a frame kind carries that kind's code; bytes reach the transport unchanged (FrameWriter.write, producer)": "correspondence",
    },
    assumptions=COMMON_ASSUME + [
        "field values are Python ints; non-int arguments (TypeError) are outside the statement's admissible values",
        "IPv4 text forms, UTF-8 encoding of the SSID and the 'a.b.c' version text are CPython's (inet_aton, str.encode, int, split)",
    ],
    trusted=["CPython struct / int.to_bytes / bytearray range checks (modelled as error branches, exercised)"],
)

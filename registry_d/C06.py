from registry_common import COMMON_ASSUME

ENTRY = dict(
    prop_modules=["C06", "C06Lifetime", "C06Probe"],
    title="No write request ever carries a value outside the controller-reported range",
    design_ref="DESIGN.md section 6 / C06",
    technique=("Lean 4 model of the front of Parameter.set (normalisation after the subclass's display->raw conversion in the exact binary64 model, "
               "no-op, inclusive range check before any state change or queue put); theorems for ALL conversions, triples and requested values; "
               "correspondence through Device.set / parameter.set on devices populated by real parameter responses; Lean judge C06.spec on "
               "what the implementation did"),
    level_text=(
        "Proof, headline = the report/set machine (Model/ParamSet.lean `stepM`: controller reports, set calls, retries): "
        "`C06.report_always_replaces` (every report replaces value, min and max, also while a call is in flight), "
        "`C06.bounds_are_last_report` + `C06.checked_against_last_report` (over EVERY history the decision of a set is taken against the "
        "bounds of the LAST report: refused iff the raw encoding lies outside them), `C06.tx_in_range_at_call` (over every history every "
        "transmitted request carries a value within the bounds held when its call was accepted), `C06.first_attempt_in_last_reported_range`. "
        "The full second sentence over histories, `tx_in_last_reported_range_full`, is REFUTED by `tx_in_last_reported_range_full_false` "
        "(open finding F7: retries re-assert the value without re-checking the range). One-call lemmas: `reject_iff`, `reject_inert`, "
        "`refused_inert`, `accepted`, `tx_in_range`, `empty_range_refuses_all`, `held_value_noop`, `holds` (model satisfies C06.spec). "
        "All for every conversion (every table row), every triple incl. degenerate ones, every Python value. Tie: every description x "
        "triples x boundary requests through the real set(), and histories of real report frames / set calls / retries under virtual time "
        "compared step by step with the machine; C06.spec judged by the Lean driver against the LAST REPORTED triple. "
        "LIFETIME with OVERLAPPING accepted calls (machine SetL, Props/C06Lifetime): `tx_checked_at_own_call` (in any history every set request of a "
        "call carries that call's value, which lay within the bounds held when the call was made), `refused_call_never_transmits`, "
        "`sync_first_attempt_at_call` (executor synchronous: the first attempt is queued in the step of the call), `bounds_move_only_by_reports`, "
        "`unmoved_bounds_in_range` (no report since the call => every attempt within the last reported bounds: an out-of-bounds transmission needs a "
        "report handled while THAT call ran = the input class of F7), `judge_never_blames_the_machine` (the harness judge C06L.judge answers "
        "`violation` only for a transmission the check-once machine cannot make in that step)."),
    level_note=("Trusted: Lean kernel; binary64 model = CPython (validated exhaustively by C17's check); machine <-> helpers/parameter.py and the "
                "Number subclasses is differential. Two concurrent ACCEPTED set calls are outside the report/set machine `stepM` and inside the lifetime machine `SetL` (C06Lifetime)."),
    clauses={
        "raw encoding below min / above max of the LAST report => ValueError": "theorem (`checked_against_last_report`, `reject_iff`), for requests that differ from the held value",
        "refused => nothing transmitted, held value unchanged": "theorem (`reject_inert`, `refused_inert`)",
        "every transmitted set request within the bounds held when the call was accepted": "theorem over all histories (`tx_in_range_at_call`)",
        "every transmitted set request within the LAST REPORTED bounds": "PARTIAL: theorem for first attempts (`first_attempt_in_last_reported_range`); full clause refuted (`tx_in_last_reported_range_full_false`), open finding F7",
        "carve-out: request equal to the held value (even if the controller reported it outside its own bounds)": "documented carve-out, theorem `held_value_noop`: no-op returning True, nothing transmitted, nothing changed; the literal 'raises ValueError' is not claimed for it",
        "a report always replaces the triple (also while pending / same value / other bounds)": "theorem (`report_always_replaces`) + correspondence (histories through real frames)",
        "raw encoding of a requested value": "C17's conversion model (exact binary64), correspondence-validated",
        "a refused / no-op second set while a call is in flight is inert": "theorem (`rejected_set_inert_while_pending`) + correspondence; an ACCEPTED overlapping call is outside this machine (C08)",
        "overlapping ACCEPTED calls x reports moving the bounds: every transmission within the bounds held at ITS call's check; outside the last reported bounds only as F7": "theorem (`tx_checked_at_own_call`, `unmoved_bounds_in_range`, `sync_first_attempt_at_call`) + correspondence (harness/c06life.py: 2..4 sequential / overlapping calls x narrowing, widening, shifting reports x timers x executor held on 9 parameters, judged by C06L.judge: F7 only where the check-once machine SetL transmits the same request in the same step)",
        "front of set() / normalisation / confirmation rule of EVERY parameter class = the model, on a complete small grid": "table (Generated/ParamProbe.lean: the translator PROBES the real classes Number, Switch, Ecomax*, Mixer*, Thermostat*, Schedule* — request builders stubbed, everything else the class's own — on class x description (unit, 0.5/offset 2, 0.1/offset 20) x triples incl. min=max, min>max, value outside its bounds x 32 requested values; bounds admitting everything for the normalisation; pending / not pending x reported value x reported bounds for update()) + theorem (`validate_table_agrees`, `rawOf_table_agrees`, `confirm_table_agrees`, `confirm_table_agrees_setm`, `probe_classes_complete`, kernel-evaluated): a subclass overriding the check, the conversion or the confirmation rule breaks a named lemma",
        "model = implementation": "correspondence (every table row x triples x boundary requests; histories with reports between attempts, refused overlapping calls)",
        "the bounds in force are those reported for THAT sub-device": "correspondence (devices populated by ONE response for 2..5 mixers / 2..3 thermostats with disjoint ranges per sub-device; on every sub-device its own bounds +-1 and every other sub-device's bounds are requested, through every public set route, and judged by C06.spec against the triple reported for that sub-device; in half of the configurations a client callback subscribed to the first parameter of every sub-device raises while the controller re-reports other bounds)",
    },
    assumptions=COMMON_ASSUME + [
        "requested values are finite (no NaN/inf) and 'on'/'off' are the only strings",
        "report/set machine `stepM`: at most one ACCEPTED set call in flight (refused / no-op overlapping calls are modelled); overlapping accepted calls: lifetime machine `SetL`",
    ],
    timeout={"quick": 600, "thorough": 1800},
)

from registry_common import COMMON_ASSUME

ENTRY = dict(
    title="No write request ever carries a value outside the controller-reported range",
    design_ref="DESIGN.md section 6 / C06",
    technique=("Lean 4 model of the front of Parameter.set (normalisation after the subclass's display->raw conversion in the exact binary64 model, "
               "no-op, inclusive range check before any state change or queue put); theorems for ALL conversions, triples and requested values; "
               "correspondence through Device.set / parameter.set on devices populated by real parameter responses; Lean judge C06.spec on "
               "what the implementation did"),
    level_text=(
        "Proof: `C06.reject_iff` (a request whose raw encoding differs from the held value is refused iff the encoding is < min or > max), "
        "`C06.reject_inert`/`refused_inert` (refusal, no-op and conversion errors transmit nothing and leave the triple unchanged), "
        "`C06.tx_in_range` (every transmitted set request carries a raw value within the inclusive bounds held at the call, any retry count), "
        "`C06.accepted`, `C06.empty_range_refuses_all` (min > max), `C06.holds` (the model satisfies the statement's predicate C06.spec). "
        "They quantify over every conversion (hence every row of every table), every triple incl. degenerate ones and every Python value "
        "(int, float, bool, str). The model is tied to the code by running every description x triples x boundary requests through the real "
        "set() and comparing exception, queued set requests and value before/after; C06.spec is judged by the Lean driver on each observation."),
    level_note=("Trusted: Lean kernel; binary64 model = CPython (validated exhaustively by C17's check); model <-> helpers/parameter.py and the three "
                "Number subclasses is differential. Reports that change the bounds while a set is in flight are outside C06 (and C08)."),
    clauses={
        "raw encoding below min / above max => ValueError": "theorem (`reject_iff`), for requests that differ from the held value",
        "refused => nothing transmitted, held value unchanged": "theorem (`reject_inert`, `refused_inert`)",
        "every transmitted set request within the inclusive bounds": "theorem (`tx_in_range`)",
        "request equal to the held value (even if the controller reported it outside its own bounds)": "no-op returning True, nothing transmitted, nothing changed: theorem (`reject_inert`); the literal 'raises ValueError' is not claimed for it",
        "raw encoding of a requested value": "C17's conversion model (exact binary64), correspondence-validated",
        "model = implementation": "correspondence (every table row x triples x boundary requests)",
    },
    assumptions=COMMON_ASSUME + [
        "requested values are finite (no NaN/inf) and 'on'/'off' are the only strings; bounds are those held when set() is called",
    ],
    timeout={"quick": 600, "thorough": 1800},
)

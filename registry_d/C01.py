from registry_common import COMMON_ASSUME

ENTRY = dict(
        title="Only intact, correctly addressed frames are delivered",
        design_ref="DESIGN.md section 6 / C01",
        prop_modules=["C01", "C01SessionBytes", "C01Session", "C01SessionX", "C01Twins", "C01Chunks", "TieFrame", "TieReader"],
        technique="Lean 4 theorem over all byte streams (reader model) + correspondence with FrameReader.read on a real StreamReader + Lean judge C01.spec on implementation deliveries + code tie: FrameReader.read / _read_header / bcc translated from their source text on each run (tools/py2lean.py), `TieReader.read_eq : translated read = reader model` for all streams; reader sessions with abandoned calls (C01SessionBytes) and process history (harness/history.py)",
        level_text=(
            "Proof: `C01.delivered_only_if_well_formed` and `C01.holds` show for ALL byte streams that a delivery by the reader model "
            "is justified by the consumed bytes (start delimiter, LE16 length = consumed length in 10..1000, XOR checksum, recipient, "
            "known sender, fields exactly those bytes). The model is tied to stream.py by running both on generated streams "
            "(every kind, boundary sizes, every single-byte corruption position, XOR-zero corruptions, truncations, noise, 3 chunkings) "
            "and the executable predicate C01.spec is evaluated by the Lean driver on everything the implementation delivered."),
        level_note="Trusted: Lean kernel; reader model <-> stream.py tie is differential (generated streams); asyncio.StreamReader chunk handling is exercised, not modelled.",
        clauses={
            "a reader object used again after calls that ended abnormally (READER_TIMEOUT, cancellation by the caller; after the delimiter, inside the header, inside the body) delivers only frames justified by the bytes THAT call consumed":
                "theorem (C01.session_calls_are_reads_of_the_fed_bytes, session_delivered_bytes over Model/ReaderSession: for every completed call in the event list the chunks fed by then are pre ++ consumed ++ post, |pre| = the sum of what the earlier calls took, outcome = readFrame (consumed ++ post), a delivery's fields are those of `consumed` (noise ++ fr, wf fr f); the length-only forms session_calls_are_reads, session_delivered_only_if_well_formed are corollaries: the stream position is where the abandoned call stopped, nothing else is remembered) + correspondence (one FrameReader / DummyProtocol.reader across abandoned calls vs the session model, C01.spec on every later delivery)",
            "frames with a byte-identical body under different headers (XOR of recipient / sender / type / version equal, so the checksum is the same) through ONE reader are each delivered with their own header bytes":
                "theorem (C01.twin_same_body, twin_frames_each_own_fields: `readAll (encode f ++ encode g)` = [f's outcome, g's outcome, connLost]; twin_session_each_own_fields: the same on the session machine, two completed calls carrying `f` and `g`; twin_deliveries_differ is only the remark that the two outcomes are different values) + correspondence (twin streams and twin sessions; C01.spec on the bytes each call consumed)",
            "delivered objects are never handed out twice and keep their fields (object identity / freshness of what `read()` returns)":
                "CORRESPONDENCE ONLY (harness/c01.py object-freshness checks on twin streams, twin sessions, repeated identical frames, deliveries after the caller modified an earlier object). The model's `Fields` are values without identity, so no theorem speaks about WHICH object is handed out; a change that re-delivers a cached object with the right field values (seeded C01-m14) can only be seen by the harness.",
            "calls abandoned at the LAST await of read() (Frame.create: class lookup + executor hop, frame consumed and every gate passed), frames of unknown kinds repeated, identical frames repeated after the caller modified the delivered object: later deliveries are justified by the bytes THAT call consumed":
                "theorem (Model/ReaderSession.sessionX; C01.sessionX_calls_are_reads_of_the_fed_bytes, sessionX_delivered_bytes (Props/C01SessionBytes: the consumed bytes are located in the bytes fed so far, exactly behind what the earlier events took); corollaries sessionX_calls_are_reads, sessionX_delivered_only_if_well_formed) + correspondence (one FrameReader under a held executor; abandoned by READER_TIMEOUT or cancellation; C01.spec on every delivery; object freshness)",
            "a reader / a connection in a process with HISTORY -- earlier read() calls abandoned (READER_TIMEOUT through the real @timeout, a caller's wait_for, cancellation; a connection ended by reader time-out / cancel_tasks / shutdown() while its producer was reading) at EVERY suspension point of read(), the Frame.create executor hop with its job still pending included (the awaiting task is cancelled and asyncio cancels the awaited run_in_executor future with it; harness/vloop.py's executor is checked against the real thread-pool executor in this respect on every run): what later calls hand out is justified by the bytes THOSE calls consumed":
                "theorem (C14.history_leaves_no_residue, C14.next_call_after_history_is_read in Props/C14History.lean, registered under C14; C01.sessionX_delivered_only_if_well_formed) + correspondence (harness/history.py: reader histories in fresh python processes vs sessionX; a call of a tree whose Frame.create does not suspend completes where the model's caller abandons it: accepted iff C01.spec holds of the bytes it consumed)",
            "delivered => well-formed, all streams": "theorem",
            "non-delivery outcomes are ignored / protocol error / connection lost": "theorem (by construction of the model) + correspondence (implementation has no other behaviour)",
            "every fragmentation into chunks": "correspondence (3 chunkings per stream; StreamReader trusted)",
            "multi-byte corruptions (same delta on 2-4 positions of the whole frame, the end delimiter included); neighbourhood search (every single-byte substitution / paired XOR delta) around streams on which model and implementation differ": "correspondence + C01.spec judge",
        },
        assumptions=COMMON_ASSUME,
    )

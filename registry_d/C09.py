from registry_common import COMMON_ASSUME

ENTRY = dict(
        title="No received frame stalls the pipeline; controller requests are always answered",
        design_ref="DESIGN.md section 6 / C09",
        technique="Lean 4 pool machine (read queue, unfinished counter, n symmetric consumers, per-frame class and 'handling raises' input bit) "
                  "with a conservation invariant proved for all frame sequences and all consumer schedules + correspondence with a real "
                  "AsyncProtocol on a fake transport under a virtual loop + Lean judge C09.spec on what the implementation showed",
        level_text=(
            "Proof: for EVERY number of consumers and EVERY schedule of arrivals / takes / finishes (any mix of valid frames, controller "
            "requests and raising frames, in particular more raising frames than consumers) `C09.conservation` shows no consumer dies, the "
            "unfinished counter equals queued + in-hand frames and nothing is lost or duplicated; at quiescence `delivered_exactly_once` / "
            "`delivered_count` (each non-raising frame delivered exactly once, raising ones never), `requests_answered` + `reply_matches` "
            "(one reply per request: matching kind, addressed to the sender, device-available carrying the configured network info), "
            "`balanced_at_quiescence` (unfinished = 0, Queue.join returns); `never_stalls`: from every reachable state the consumers alone "
            "reach quiescence; `holds`: the machine's observation satisfies C09.spec; `uncontained_counterexample`: the same machine "
            "without try/except/finally is wedged by three raising frames. The machine is tied to protocol.py / devices by running frame "
            "streams (every decodable kind x truncation points, random payloads, out-of-table ids, controller requests, rejected "
            "envelopes) through a real AsyncProtocol and comparing deliveries, replies on the transport, the unfinished count, live "
            "consumers and completion of shutdown(); C09.spec is judged by the Lean driver on the implementation's observation."),
        level_note="Trusted: Lean kernel; which payloads raise is an input bit taken from the implementation's own decoder (C05's business); "
                   "asyncio.Queue accounting as documented; the machine <-> code tie is differential.",
        clauses={
            "every non-raising frame delivered exactly once, raising frames dropped, all schedules": "theorem (delivered_exactly_once, delivered_count)",
            "each controller request answered once, matching kind, to its sender, device-available with configured network info": "theorem (requests_answered, reply_matches) for requests whose handling does not raise + correspondence (payload bytes on the transport equal the wire layout of the configured network info)",
            "unfinished = 0 at quiescence / shutdown can complete": "theorem (balanced_at_quiescence) + correspondence (shutdown() completes under the virtual loop)",
            "no consumer dies, including more raising frames than consumers": "theorem (no_consumer_dies, never_stalls)",
            "the model distinguishes contained from uncontained consumers": "theorem (uncontained_counterexample)",
            "which payloads make handling raise": "correspondence (input bit from the implementation's decoder; C05)",
            "frame codes 64/48/192/176": "table (codes, generated frame table)",
        },
        assumptions=COMMON_ASSUME + [
            "handling a frame is atomic between taking it and acknowledging it except while a device entry is created (C10); the machine allows any interleaving",
            "the producer stage is represented by arrivals only; frames the reader rejects or ignores never arrive (C01/C04/C14)",
        ],
        timeout={"quick": 300, "thorough": 1800},
    )

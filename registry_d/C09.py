from registry_common import COMMON_ASSUME

ENTRY = dict(
        title="No received frame stalls the pipeline; controller requests are always answered",
        design_ref="DESIGN.md section 6 / C09",
        prop_modules=["C09", "C09Producer", "C09Fanout", "C09Pipe", "C09Contain"],
        technique="Lean 4 pool machine (read queue, unfinished counter, n symmetric consumers, per-frame class and 'handling raises' input bit) "
                  "with a conservation invariant proved for all frame sequences and all consumer schedules + correspondence with a real "
                  "AsyncProtocol on a fake transport under a virtual loop + Lean judge C09.spec on what the implementation showed",
        level_text=(
            "Proof: for EVERY number of consumers and EVERY schedule of arrivals / takes / finishes (any mix of valid frames, controller "
            "requests and raising frames, in particular more raising frames than consumers) `C09.conservation` shows no consumer dies, the "
            "unfinished counter equals queued + in-hand frames and nothing is lost or duplicated; at quiescence `delivered_exactly_once` / "
            "`delivered_count` (each non-raising frame delivered exactly once, raising ones never), `requests_answered` + `reply_bytes_*` "
            "(one reply per request, as the exact frame bytes: kind, recipient = sender, Net.encode of the configured network info / Version.encode), "
            "`balanced_at_quiescence` (unfinished = 0, Queue.join returns); `never_stalls`: from every reachable state the consumers alone "
            "reach quiescence; `holds`: the machine's observation satisfies C09.spec; `uncontained_counterexample`: the same machine "
            "without try/except/finally is wedged by three raising frames. The machine is tied to protocol.py / devices by running frame "
            "streams (every decodable kind x truncation points, random payloads, out-of-table ids, controller requests, rejected "
            "envelopes) through a real AsyncProtocol and comparing deliveries, replies on the transport, the unfinished count, live "
            "consumers and completion of shutdown(); C09.spec is judged by the Lean driver on the implementation's observation."),
        level_note="Trusted: Lean kernel; which payloads raise is an input bit taken from the implementation's own decoder (C05's business); "
                   "asyncio.Queue accounting as documented; the machine <-> code tie is differential.",
        clauses={
            "the connection keeps working on a protocol object / in a process with history -- an earlier connection ended (reader time-out -> connection lost, cancel_tasks, shutdown()) while its producer sat in Frame.create with the executor job pending: the next connection's producer is alive and connected and the valid frames after the noise reach the read queue":
                "correspondence (harness/history.py: each history in a fresh python process; expected deliveries from the reader model; the producer machine Model/Producer has no state that survives a connection, C09Producer.producer_continues) ; the consumer side of the same helpers/factory is driven too: tasks cancelled (cancel_tasks) while a consumer sits in PhysicalDevice.create with the device-class import pending, then a connection with 1 / 3 consumers on the same / a fresh protocol: every consumer alive, the ecoMAX device exists, read queue empty and balanced. One-device entry bookkeeping under such histories is C10's",
            "every non-raising frame delivered exactly once, raising frames dropped, all schedules": "theorem (delivered_exactly_once, delivered_count)",
            "each controller request answered once, matching kind, to its sender, device-available with configured network info":
                "theorem (requests_answered; reply_bytes_check_device / reply_bytes_program_version: the reply FRAME is <176|192, sender, 86, 48, 5, Net.encode cfg | Version.encode defaults 86>, "
                "its bytes C02.envelope/net_layout/version_layout; request_never_raises for every buildable configuration via C03.net_encode_ok/version_encode_ok; "
                "unbuildable_reply_contained: a reply that cannot be built (D9) is contained and leaves the request unanswered; holds has NO hypothesis about raising frames; "
                "the statement side (Spec/C09 describe/demanded) judges a reply with the network DECODER, tied to the encoder by C03.net_roundtrip) "
                "+ correspondence (reply frames on the transport compared byte for byte with the model's)",
            "unfinished = 0 at quiescence / shutdown can complete": "theorem (balanced_at_quiescence for the read queue; C09Producer.write_balance and shutdown_can_complete for the write queue: both counters balanced after any frame sequence and any write faults; frames still queued for writing with no producer are finding F1/C12, not claimed) + correspondence (shutdown() completes under the virtual loop)",
            "nothing is lost between the reader and the consumers, however many frames pile up while the consumers are held up":
                "theorem (conservation: every arrival is queued; C09Producer.enqueued_exactly_delivered) + correspondence (bursts of 35..2200 frames in one chunk during the first device creation; 40 / 150-frame streams into the read queue with no consumer)",
            "composition producer -> read queue -> consumers -> device entry -> device, replies -> write queue -> producer -> transport (one machine, all schedules)":
                "theorem (C09Pipe.pool_projection: the composed machine projects onto the pool machine, so every C09 theorem applies; handled_by_the_device: every received frame whose handling does not raise is handled exactly once and by THE entry of its sender's address in the device map; device_stable; replies_conserved: written ++ still queued = replies queued, in order; requests_answered_on_the_wire: after the producer's write cycles the transport carries exactly one reply per answerable request, each addressed to its requester; both_queues_drain: both queues of the SAME run empty, unfinished = 0) "
                "+ correspondence (driver op c09pipe on every C09 run: (frame, device-of-address) pairs and the device map; get_device_entry is atomic in this machine: that concurrent callers end with one object per address is C10's theorem)",
            "no consumer dies, including more raising frames than consumers": "theorem (no_consumer_dies; never_stalls (possibility) and the inevitability form: enabled_step_measure (every real consumer move lowers 2|queue|+|inHand| by one), not_quiescent_enabled / can_always_continue (no deadlock), enabled_run_bounded, inevitably_quiescent (every run of `measure` real consumer moves, in whichever order, empties the pool))",
            "no received frame stalls the pipeline: handling of every frame comes back (texts of every shape up to the wire limit)":
                "correspondence (string-bearing payloads from shape families; every step under a CPU watchdog: a step that does not come back within 5 s CPU + 20 ms per frame is reported with the frame as failing input)",
            "sub-device delivery: block i of a message with M slots is dispatched exactly once, on the object of index i; at most one object per index; bindings never change":
                "theorem (C09Fanout.block_delivered_once, absent_not_delivered, nothing_else_delivered, one_object_per_index, binding_stable, holds: for every message sequence) "
                "+ correspondence (sensor-data / mixer- / thermostat-parameter messages through a real AsyncProtocol; Fanout.spec judged on the observation; deliveries also counted at the sub-devices' event subscribers)",
            "the model distinguishes contained from uncontained consumers": "theorem (uncontained_counterexample)",
            "WHICH exception classes are contained: every subclass of Exception raised while obtaining the entry or decoding / handling is dropped (OSError and TimeoutError included), under every logging configuration; from reader.read() ProtocolError and any other Exception continue, OSError / TimeoutError are a lost connection":
                "theorem (C09Contain.producer_reaction_table, consumer_contains_every_exception, consumer_accounts, contain_bit_true, undecodable_frame_is_dropped, producer_machine_agrees, reader_site_would_lose; "
                "the except clauses of frame_producer / frame_consumer, the calls inside try / finally and the issubclass relation are read from the source by the translator: Generated/Pipeline.lean) "
                "+ correspondence (decoder and reader faults of every builtin exception class injected under every logging configuration: observed fate vs driver op c09exc)",
            "which payloads make handling raise": "correspondence (input bit from the implementation's decoder; C05)",
            "frame codes 64/48/192/176": "table (codes, generated frame table)",
            "producer stage: the loop stops only on a read/write loss or a foreign disconnect, never on a protocol error, whatever the noise":
                "theorem (C09Producer.producer_continues, stops_only_on_loss, producer_survives_noise: composed with the reader model's readAll) + correspondence (real frame_producer fed one read() at a time)",
            "producer stage: frames put on the read queue = delivered outcomes of the reads made, in order, each once":
                "theorem (C09Producer.enqueued_exactly_delivered, wellformed_sequence_enqueued: composed with C04.delivered_exactly) + correspondence",
            "producer stage: at most one queued frame written per cycle, FIFO":
                "theorem (C09Producer.one_write_per_cycle) + correspondence (frames on the fake transport per quiescent point)",
            "producer stage: write queue unfinished counter = queued frames at every cycle boundary, also after a failed write (fix 7e0d3a8)":
                "theorem (C09Producer.write_balance; unbalanced_counterexample for the code before the fix) + correspondence (OSError / WRITER_TIMEOUT scripted on drain())",
            "producer stage: connection_lost scheduled exactly once per loss, a loop that ended does nothing more":
                "theorem (C09Producer.loss_scheduled_once) + correspondence (on_connection_lost callback count)",
        },
        assumptions=COMMON_ASSUME + [
            "handling a frame is atomic between taking it and acknowledging it except while a device entry is created (C10); the machine allows any interleaving",
            "in the pool machine the producer stage is represented by arrivals only; the producer loop itself is Model/Producer.lean, whose read outcomes are those of the reader model (C01/C04/C14) plus timeout / other exception",
            "producer machine: frames put on the write queue by other tasks enter at cycle boundaries (between the loop test and the previous read's completion); real time between them is not modelled",
        ],
        public_routes={
            "AsyncProtocol(ethernet_parameters=, wireless_parameters=, consumers_count=)": "driven + compared (4 presets + random network parameters, default-only forms; consumers_count 1..5; the DeviceAvailable reply bytes must carry exactly these parameters)",
            "open_tcp_connection / open_serial_connection(protocol=AsyncProtocol(...))": "same protocol object; the Connection wrapper is driven in C10 (reconnect) and C11/C12, not again here (kwargs other than protocol= / reconnect_on_failure= go to asyncio.open_connection, not to the protocol)",
            "connection_established -> producer + consumers": "driven + compared (every case); StartMaster first on the transport: producer stage",
            "controller requests (64 / 48) -> EcoMAX.handle_frame -> Request.response() -> write queue -> transport": "driven + compared byte for byte (addressed to the library and broadcast; from ecoSTER / addresses without device class: no reply)",
            "frames for ecoSTER (81) / ECONET (86) / ALL (0)": "driven + compared",
            "shutdown()": "driven (after every case; must complete)",
            "on_connection_lost / loss of the connection": "producer stage: driven + compared (loss announced once); pool stage: loss with a backlog behind held consumers, judged (accounting balanced: unfinished = still queued, handled ++ queued = received; a backlog within the pool is handled and shutdown() completes; a larger backlog leaves frames queued with no live consumer and shutdown() waits in Queues.join: the state of open finding F1 (filed under C12), reported as KNOWN-FINDING F1 only when F1's match predicate holds on the observation, any other hang is a violation)",
            "subscribe on device events (delivery)": "observed through the dispatch tasks the consumers create (task factory); byte-identical consecutive frames explicit; sub-devices: also through subscriptions on the Mixer / Thermostat objects",
            "ecoMAX -> Mixer / Thermostat (mixer_sensors, mixer_parameters, thermostat_sensors, thermostat_parameters; registries data['mixers'] / data['thermostats'])": "driven + compared (fan-out machine, Fanout.spec)",
            "Device.handle_frame called directly (no protocol)": "not driven here: C05 (c05_device) drives it; the protocol route ends in the same call",
            "DummyProtocol": "not applicable (no consumers, no automatic replies)",
        },
        timeout={"quick": 300, "thorough": 1800},
    )

"""Per-property metadata: used by check.py (timeouts, trusted base, clause table, extra
kernel obligations) and by tools/gen_manifest.py (MANIFEST.json is generated from it).
One file per property under registry_d/, each defining ENTRY = dict(...)."""
import importlib.util
import os

_D = os.path.join(os.path.dirname(os.path.abspath(__file__)), "registry_d")
PROPS = {}
for _fn in sorted(os.listdir(_D)):
    if _fn.endswith(".py") and _fn[0] == "C":
        _spec = importlib.util.spec_from_file_location("registry_d_" + _fn[:-3], os.path.join(_D, _fn))
        _m = importlib.util.module_from_spec(_spec)
        _spec.loader.exec_module(_m)
        PROPS[_fn[:-3]] = _m.ENTRY

# properties not claimed, with the reason (kept current by hand)
NOT_APPLICABLE = {}

COMMON_ASSUME = [
    "CPython 3.12 and asyncio primitives (StreamReader buffering, Queue, Event, Lock, wait_for, gather) behave as documented; they are exercised, not modelled",
    "the correspondence is differential testing: it bounds what is seen of hand-modelled logic, the theorems are about the Lean model",
]

#!/usr/bin/env python3
"""Run the translator validation (harness/pycode.py) alone: generated Lean definitions vs the real functions.

    /venv/bin/python tools/pycode_selftest.py <group> [<group> …] [--thorough] [--seed N]

Uses the driver binary of lean/.lake (build it first: `cd lean && lake build driver`) and $VERIF_REPO (default /repo).
"""
import os
import random
import sys

HERE = os.path.dirname(os.path.abspath(__file__))
sys.path.insert(0, os.path.join(HERE, "..", "harness"))
import common  # noqa: E402
import pycode  # noqa: E402


def main():
    argv = sys.argv[1:]
    seed = 1
    if "--seed" in argv:
        i = argv.index("--seed")
        seed = int(argv[i + 1])
        del argv[i:i + 2]
    args = [a for a in argv if not a.startswith("--")]
    tier = "thorough" if "--thorough" in argv else "quick"
    res = common.Result("pycode")
    n = pycode.check(res, random.Random(seed * 7919 + 77), tier, args or list(pycode.GROUPS))
    for k, v in sorted(res.dist.items()):
        print(f"  {k}: {v}")
    for note in res.notes:
        print("note:", note)
    for f in res.failures[:12]:
        print("FAIL", f)
    print(f"{n} evaluations, {len(res.failures)} failures")
    return 1 if res.failures else 0


if __name__ == "__main__":
    sys.exit(main())

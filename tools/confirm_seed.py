#!/usr/bin/env python3
"""Confirm a seeded change in a scratch worktree and file it under seeded/<id>/.

usage: confirm_seed.py <id> <patch.diff> <demo.py> <meta.json> <tier> <prop> [<prop>...]
  1. scratch worktree of /repo HEAD: demo exits 0 on the clean tree
  2. apply the patch: the unedited test-suite still passes, the demo exits non-zero
  3. run the listed checks against a scratch copy with the patch applied (VERIF_REPO)
  4. write seeded/<id>/{patch.diff, demo.py, meta.json}
"""
import json
import os
import re
import shutil
import subprocess
import sys
import tempfile

VERIF = os.path.dirname(os.path.dirname(os.path.abspath(__file__)))


def sh(cmd, cwd=None, env=None, timeout=3600):
    p = subprocess.run(cmd, cwd=cwd, env=env, shell=isinstance(cmd, str), stdout=subprocess.PIPE, stderr=subprocess.STDOUT, text=True, timeout=timeout)
    return p.returncode, p.stdout


def main():
    sid, patch, demo, meta, tier = sys.argv[1:6]
    props = sys.argv[6:]
    patch, demo, meta = map(os.path.abspath, (patch, demo, meta))
    wt = tempfile.mkdtemp(prefix="seedwt.", dir="/tmp")
    os.rmdir(wt)
    ran = []
    try:
        rc, out = sh(["git", "-C", "/repo", "worktree", "add", "-q", "--detach", wt, "HEAD"])
        assert rc == 0, out
        shutil.copy("/repo/pyplumio/_version.py", os.path.join(wt, "pyplumio", "_version.py"))
        os.makedirs(os.path.join(wt, "out"))
        shutil.copy(demo, os.path.join(wt, "out", "demo.py"))
        rc_clean, out_clean = sh(["/venv/bin/python", "out/demo.py"], cwd=wt, timeout=300)
        ran.append(f"clean tree: demo exit {rc_clean}")
        rc, out = sh(["git", "apply", patch], cwd=wt)
        assert rc == 0, "patch does not apply: " + out
        rc_t, out_t = sh(["/venv/bin/python", "-m", "pytest", "-q", "-p", "no:cacheprovider"], cwd=wt, timeout=900)
        m = re.search(r"(\d+) passed", out_t)
        passed = int(m.group(1)) if m else 0
        ran.append(f"with change: pytest exit {rc_t}, {passed} passed")
        rc_mut, out_mut = sh(["/venv/bin/python", "out/demo.py"], cwd=wt, timeout=300)
        ran.append(f"with change: demo exit {rc_mut}")
    finally:
        sh(["git", "-C", "/repo", "worktree", "remove", "--force", wt])
    ok = rc_clean == 0 and rc_t == 0 and passed >= 219 and rc_mut != 0
    detected = {}
    if ok and props:
        rc, out = sh([os.path.join(VERIF, "tools", "try_mutant.sh"), patch, tier] + props, cwd=VERIF)
        for ln in out.splitlines():
            m = re.match(r"(C\d+) exit=(\d+)\s*(.*)", ln)
            if m:
                detected[m.group(1)] = dict(exit=int(m.group(2)), line=m.group(3).strip()[:300])
        ran.append(f"checks ({tier}) against the change: " + ", ".join(f"{k}: exit {v['exit']}" for k, v in detected.items()))
    with open(meta) as f:
        mj = json.load(f)
    mj.update(id=sid, confirmed=ok, what_i_ran=ran, detected_by=detected,
              demo_output_with_change=out_mut[-600:] if ok else (out_clean + out_t + out_mut)[-1500:])
    d = os.path.join(VERIF, "seeded", sid)
    if ok:
        os.makedirs(d, exist_ok=True)
        shutil.copy(patch, os.path.join(d, "patch.diff"))
        shutil.copy(demo, os.path.join(d, "demo.py"))
        with open(os.path.join(d, "meta.json"), "w") as f:
            json.dump(mj, f, indent=1)
            f.write("\n")
    print(json.dumps(dict(id=sid, confirmed=ok, ran=ran, detected={k: (v["exit"], v["line"][:80]) for k, v in detected.items()}), indent=1))
    return 0 if ok else 1


if __name__ == "__main__":
    sys.exit(main())

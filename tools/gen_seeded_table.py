#!/usr/bin/env python3
"""Rewrite the block between <!-- SEEDED-TABLE --> markers in DESIGN.md from seeded/*/meta.json."""
import glob
import json
import os
import re

VERIF = os.path.dirname(os.path.dirname(os.path.abspath(__file__)))
rows = []
for d in sorted(glob.glob(os.path.join(VERIF, "seeded", "*"))):
    with open(os.path.join(d, "meta.json")) as f:
        m = json.load(f)
    det = []
    for k, v in sorted(m.get("detected_by", {}).items()):
        how = "missed" if v["exit"] == 0 else ("no-failing-input-found" if "no-failing-input-found" in v["line"] else "failing input")
        det.append(f"{k}: {how}")
    for k, v in sorted(m.get("also_detected_by", {}).items()):
        det.append(f"{k}: {v}")
    if m.get("obsolete"):
        det.append("OBSOLETE: " + m["obsolete"][:120])
    clean = lambda s: re.sub(r"\s+", " ", s).replace("|", "/")  # noqa: E731
    rows.append(f"| {m['id']} | {clean(m['summary'])[:160]} | {clean(m['needs'])[:170]} | {'; '.join(det)} |")
table = ("| id | change | needs, to manifest | caught by (quick tier) |\n|----|--------|--------------------|------------------------|\n" + "\n".join(rows) + "\n")
p = os.path.join(VERIF, "DESIGN.md")
s = open(p).read()
s = re.sub(r"(<!-- SEEDED-TABLE -->\n).*?(<!-- /SEEDED-TABLE -->)", lambda mm: mm.group(1) + table + mm.group(2), s, flags=re.S)
open(p, "w").write(s)
print(len(rows), "rows")

import sys, asyncio
sys.path.insert(0,'/root/work/pipeline/harness')
import pipefake, framegen as fg
from common import use_repo; use_repo()
from pyplumio.protocol import AsyncProtocol
def fr(i): return fg.mk(186, b"\x04%04d" % i, rcpt=86, sender=69)
with pipefake.Driven(hold_devices=True) as loop:
    proto = AsyncProtocol()                      # 3 consumers, no reconnect callback registered
    r = asyncio.StreamReader(); w = pipefake.FakeWriter()
    loop.call_soon(proto.connection_established, r, w); loop.settle()
    r.feed_data(b"".join(fr(i) for i in range(5))); loop.settle()      # 5 frames while the ecoMAX class is loading
    print("held imports", len(loop.held), "unfinished", proto._queues.read._unfinished_tasks)
    r.feed_eof(); loop.settle()                                         # link drops: connection_lost()
    print("connected", proto.connected.is_set())
    loop.release(0); loop.settle()                                      # class loading completes
    alive = [t.get_name() for t in proto.tasks if not t.done()]
    print("after load: unfinished", proto._queues.read._unfinished_tasks, "queued", proto._queues.read.qsize(), "tasks alive", alive)
    t = loop.create_task(proto.shutdown()); loop.settle(); loop.settle(until=loop.time()+3600); loop.settle()
    print("shutdown done:", t.done(), "virtual t", loop.time())
    t.cancel()

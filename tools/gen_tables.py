#!/venv/bin/python
"""Translator: dump the tables and constants the properties range over from the
repository's *current* source (by importing it, so we see what the interpreter
sees) and emit them as Lean definitions under lean/PlumVerif/Generated/.

Files are only rewritten when their content changes, so an unchanged tree is a
no-op for `lake build`.  Also writes tables.json for the Python harness.

usage: gen_tables.py <repo> <outdir> [<json-out>]
"""
from __future__ import annotations

import inspect
import json
import os
import sys
from fractions import Fraction


def lean_str(s: str) -> str:
    return '"' + s.replace("\\", "\\\\").replace('"', '\\"') + '"'


def lean_list(items, per_line=4, indent="  "):
    items = list(items)
    if not items:
        return "[]"
    lines = []
    for i in range(0, len(items), per_line):
        lines.append(indent + ", ".join(items[i : i + per_line]))
    return "[\n" + ",\n".join(lines) + "]"


def write_if_changed(path: str, content: str) -> bool:
    try:
        with open(path) as f:
            if f.read() == content:
                return False
    except FileNotFoundError:
        pass
    os.makedirs(os.path.dirname(path), exist_ok=True)
    tmp = path + ".tmp%d" % os.getpid()
    with open(tmp, "w") as f:
        f.write(content)
    os.replace(tmp, path)
    return True


def dump(repo: str) -> dict:
    sys.path.insert(0, repo)
    import pyplumio  # noqa: F401
    from pyplumio import const, connection, filters, frames, stream
    from pyplumio.devices import Device, PhysicalDevice
    from pyplumio.devices import ecomax as dev_ecomax
    from pyplumio.helpers import data_types, parameter
    from pyplumio.helpers import uid as uid_helper
    from pyplumio.structures import (
        ecomax_parameters,
        mixer_parameters,
        schedules,
        thermostat_parameters,
    )

    assert os.path.realpath(pyplumio.__file__).startswith(os.path.realpath(repo)), (
        pyplumio.__file__,
        repo,
    )

    def desc_row(d, kind):
        is_switch = isinstance(d, parameter.SwitchDescription)
        mult = Fraction(getattr(d, "multiplier", 1.0))
        return {
            "name": d.name,
            "kind": kind,
            "switch": bool(is_switch),
            "mult_num": mult.numerator,
            "mult_den": mult.denominator,
            "mult_repr": repr(float(getattr(d, "multiplier", 1.0))),
            "offset": int(getattr(d, "offset", 0)),
            "precision": int(getattr(d, "precision", 6)),
            "size": int(getattr(d, "size", 1)),
            "has_scale": hasattr(d, "multiplier"),
            "has_offset": hasattr(d, "offset"),
        }

    out: dict = {}
    out["frame_types"] = [[m.name, int(m.value)] for m in const.FrameType]
    out["device_types"] = [[m.name, int(m.value)] for m in const.DeviceType]
    out["encryption_types"] = [[m.name, int(m.value)] for m in const.EncryptionType]
    out["product_types"] = [[m.name, int(m.value)] for m in const.ProductType]
    out["device_states"] = [[m.name, int(m.value)] for m in const.DeviceState]
    out["extra_device_states"] = [
        [int(k), int(v.value)] for k, v in const.EXTRA_DEVICE_STATES.items()
    ]
    out["data_types"] = [c.__name__ for c in data_types.DATA_TYPES]
    # struct-backed wire types in definition order: class name, struct format, struct size (C19)
    out["struct_formats"] = [
        [c.__name__, str(c._struct.format), int(c._struct.size)]
        for c in vars(data_types).values()
        if isinstance(c, type)
        and issubclass(c, data_types.BuiltInDataType)
        and c is not data_types.BuiltInDataType
    ]
    out["consts"] = {
        "frameStart": frames.FRAME_START,
        "frameEnd": frames.FRAME_END,
        "headerSize": frames.HEADER_SIZE,
        "econetType": frames.ECONET_TYPE,
        "econetVersion": frames.ECONET_VERSION,
        "minFrameLength": stream.MIN_FRAME_LENGTH,
        "maxFrameLength": stream.MAX_FRAME_LENGTH,
        "readerTimeout": stream.READER_TIMEOUT,
        "writerTimeout": stream.WRITER_TIMEOUT,
        "connectTimeout": connection.CONNECT_TIMEOUT,
        "reconnectTimeout": connection.RECONNECT_TIMEOUT,
        "byteUndefined": const.BYTE_UNDEFINED,
        "scheduleSize": schedules.SCHEDULE_SIZE,
        "bitarrayLastIndex": data_types.BITARRAY_LAST_INDEX,
        "uidCrc": uid_helper.CRC,
        "uidPolynomial": uid_helper.POLYNOMIAL,
    }
    out["base5_key"] = str(uid_helper.BASE5_KEY)
    tol = Fraction(filters.TOLERANCE)
    out["tolerance"] = [tol.numerator, tol.denominator]
    out["tolerance_repr"] = repr(filters.TOLERANCE)

    def default(fn, name):
        return inspect.signature(fn).parameters[name].default

    out["defaults"] = {
        "parameterSetRetries": default(parameter.Parameter.set, "retries"),
        "parameterSetTimeoutMs": int(
            Fraction(default(parameter.Parameter.set, "timeout")) * 1000
        ),
        "deviceSetRetries": default(Device.set, "retries"),
        "requestRetries": default(PhysicalDevice.request, "retries"),
        "requestTimeoutMs": int(
            Fraction(default(PhysicalDevice.request, "timeout")) * 1000
        ),
        "consumersCountDefault": default(__import__("pyplumio.protocol", fromlist=["AsyncProtocol"]).AsyncProtocol.__init__, "consumers_count"),
    }
    P, I = const.ProductType.ECOMAX_P, const.ProductType.ECOMAX_I
    out["tables"] = {
        "ecomaxP": [desc_row(d, "ecomax") for d in ecomax_parameters.ECOMAX_PARAMETERS[P]],
        "ecomaxI": [desc_row(d, "ecomax") for d in ecomax_parameters.ECOMAX_PARAMETERS[I]],
        "mixerP": [desc_row(d, "mixer") for d in mixer_parameters.MIXER_PARAMETERS[P]],
        "mixerI": [desc_row(d, "mixer") for d in mixer_parameters.MIXER_PARAMETERS[I]],
        "thermostat": [
            desc_row(d, "thermostat") for d in thermostat_parameters.THERMOSTAT_PARAMETERS
        ],
        "scheduleParams": [desc_row(d, "schedule") for d in schedules.SCHEDULE_PARAMETERS],
    }
    out["special"] = {
        "ecomaxControl": desc_row(ecomax_parameters.ECOMAX_CONTROL_PARAMETER, "control"),
        "thermostatProfile": desc_row(
            ecomax_parameters.THERMOSTAT_PROFILE_PARAMETER, "profile"
        ),
    }
    out["schedules"] = list(schedules.SCHEDULES)
    # helpers/schedule.py: the states set_state accepts (`get_args(ScheduleState)`) and the ones that switch a slot on
    from typing import get_args
    from pyplumio.helpers import schedule as schedule_helper
    out["schedule_states"] = [str(x) for x in get_args(schedule_helper.ScheduleState)]
    out["schedule_on_states"] = [str(x) for x in schedule_helper.ON_STATES]
    out["schedule_off_states"] = [str(x) for x in schedule_helper.OFF_STATES]
    out["setup_frames"] = [
        [int(d.frame_type), d.provides] for d in dev_ecomax.SETUP_FRAME_TYPES
    ]
    # frame type -> handler class path as computed by the code itself
    out["frame_handlers"] = [
        [int(m.value), frames.get_frame_handler(int(m.value))] for m in const.FrameType
    ]
    # -- C05 (sensor data / regulator data): name tuples and layout constants
    from pyplumio.structures import (
        fuel_level,
        mixer_sensors,
        modules,
        outputs,
        regulator_data,
        statuses,
        temperatures,
    )

    out["sensors"] = {
        "outputs": list(outputs.OUTPUTS),
        "temperatures": list(temperatures.TEMPERATURES),
        "statuses": list(statuses.STATUSES),
        "modules": list(modules.MODULES),
        "lambdaStates": [[m.name, int(m.value)] for m in const.LambdaState],
        "fuelLevelOffset": int(fuel_level.FUEL_LEVEL_OFFSET),
        "statusesSize": int(statuses.STATUSES_SIZE),
        "mixerSensorSize": int(mixer_sensors.MIXER_SENSOR_SIZE),
        "regdataVersion": str(regulator_data.REGDATA_VERSION),
    }
    # C15: frame type codes for which `Request.create(code)` yields a Request (the handler class the
    # code computes exists and derives from frames.Request) -- by reflection, as the interpreter sees it
    import importlib

    def _creatable(code):
        mod_name, cls_name = frames.get_frame_handler(code).rsplit(".", 1)
        try:
            cls = getattr(importlib.import_module("pyplumio." + mod_name), cls_name)
        except Exception:  # noqa: BLE001
            return False
        return isinstance(cls, type) and issubclass(cls, frames.Request)

    out["request_kinds"] = [int(m.value) for m in const.FrameType if _creatable(int(m.value))]

    # C02: which requests the library answers, and with which header -- by calling Request.response()
    # on a probe request whose four header bytes are all distinct and unlike any default
    def _answer(code):
        mod_name, cls_name = frames.get_frame_handler(code).rsplit(".", 1)
        cls = getattr(importlib.import_module("pyplumio." + mod_name), cls_name)
        probe = cls(recipient=0x22, sender=0x11, econet_type=0x33, econet_version=0x44)
        resp = probe.response()
        if resp is None:
            return None

        def origin(v):
            v = int(v)
            return {0x22: 1, 0x11: 2, 0x33: 3, 0x44: 4}.get(v, 1000 + v)   # copied from the request, or a constant

        return [code, int(resp.frame_type), origin(resp.recipient), origin(resp.sender),
                origin(resp.econet_type), origin(resp.econet_version)]

    out["answers"] = [a for a in (_answer(k) for k in out["request_kinds"]) if a is not None]
    out["set_routes"] = _set_routes(parameter, ecomax_parameters, mixer_parameters, thermostat_parameters, schedules, dev_ecomax)
    out["events_tables"] = _events_tables()
    out["pipeline"] = _pipeline()
    out["frame_kinds"] = _frame_kinds(const, frames)
    out["param_probes"] = _param_probes(parameter, ecomax_parameters, mixer_parameters, thermostat_parameters, schedules, dev_ecomax)
    return out


def _set_routes(parameter, ecomax_parameters, mixer_parameters, thermostat_parameters, schedules, dev_ecomax):
    """C08: the public set ROUTES as data.  Every public method of the parameter classes and of the device classes
    whose name starts with set/turn and that takes a `value` (or is a turn_* convenience) is called on a probe whose
    base machine `Parameter.set` is replaced by a recorder, with a value, a number of attempts, an interval and a
    device-level wait that are all distinct and unlike any default, in every argument form.  A row says where each of
    the three arguments that REACH the base machine came from:
      1 the caller's value   2 the caller's retries   3 the caller's timeout   4 the caller's device-level wait
      1000+c the constant c (value: 1001 'on', 1000 'off'; timeout in ms)   997 None   998 no / several calls   999 anything else
    row = [class, owner kind (0 parameter, 1 device, 2 EcoMAX convenience), method code, form code, value, retries, timeout]
    method: 0 set 1 set_nowait 2 turn_on 3 turn_off 4 turn_on_nowait 5 turn_off_nowait 99 a method the model does not know
    form  : 0 f(v) 1 f(v, retries=r, timeout=t) 2 f(v, r, t) 3 f(v, timeout=t, retries=r) 4 f(v, r) 5 f(v, retries=r)
            6 f(v, timeout=t) 7 f()"""
    import asyncio
    import re

    from pyplumio.devices.mixer import Mixer
    from pyplumio.devices.thermostat import Thermostat
    from pyplumio.structures.network_info import NetworkInfo

    R, T, W = 3, 7.5, 0.25
    METHODS = {"set": 0, "set_nowait": 1, "turn_on": 2, "turn_off": 3, "turn_on_nowait": 4, "turn_off_nowait": 5}
    log = []

    _sig = inspect.signature(parameter.Parameter.set).parameters      # the recorder keeps the base machine's own defaults
    _dr, _dt = _sig["retries"].default, _sig["timeout"].default

    async def recorder(self, value, retries=_dr, timeout=_dt):
        log.append((value, retries, timeout))
        return True

    def vsrc(v, V):
        if isinstance(v, str):
            return {"on": 1001, "off": 1000}.get(v, 999)
        return 1 if v == V else 999

    def rsrc(r):
        if r is None:
            return 997
        for code, x in ((2, R), (3, T), (4, W)):
            if r == x:
                return code
        return 1000 + r if isinstance(r, int) and 0 <= r < 900 else 999

    def tsrc(t):
        if t is None:
            return 997
        for code, x in ((3, T), (2, R), (4, W)):
            if t == x:
                return code
        ms = t * 1000
        return 1000 + int(ms) if ms == int(ms) and 0 <= ms < 10 ** 6 else 999

    def public_routes(cls):
        names = []
        for n in dir(cls):
            fn = getattr(cls, n, None)
            if n.startswith("_") or not re.match(r"(set|turn)", n) or not callable(fn):
                continue
            try:
                params = inspect.signature(fn).parameters
            except (TypeError, ValueError):
                continue
            if n.startswith("turn_") or "value" in params:
                names.append(n)
        return sorted(names)

    def forms(V, t, first=()):
        return {0: (first + (V,), {}), 1: (first + (V,), dict(retries=R, timeout=t)), 2: (first + (V, R, t), {}),
                3: (first + (V,), dict(timeout=t, retries=R)), 4: (first + (V, R), {}), 5: (first + (V,), dict(retries=R)),
                6: (first + (V,), dict(timeout=t))}

    async def probe(obj, meth, args, kw, V):
        log.clear()
        try:
            r = getattr(obj, meth)(*args, **kw)
            if inspect.isawaitable(r):
                await r
            for _ in range(6):
                await asyncio.sleep(0)
        except Exception:  # noqa: BLE001
            return [999, 999, 999]
        if len(log) != 1:
            return [998, 998, 998]
        v, r_, t_ = log[0]
        return [vsrc(v, V), rsrc(r_), tsrc(t_)]

    async def main():
        rows = []
        eco = dev_ecomax.EcoMAX(asyncio.Queue(), NetworkInfo())
        mixer = Mixer(asyncio.Queue(), eco, 1)
        thermostat = Thermostat(asyncio.Queue(), eco, 1)
        classes = [
            (parameter.Number, parameter.NumberDescription), (parameter.Switch, parameter.SwitchDescription),
            (ecomax_parameters.EcomaxNumber, ecomax_parameters.EcomaxNumberDescription),
            (ecomax_parameters.EcomaxSwitch, ecomax_parameters.EcomaxSwitchDescription),
            (mixer_parameters.MixerNumber, mixer_parameters.MixerNumberDescription),
            (mixer_parameters.MixerSwitch, mixer_parameters.MixerSwitchDescription),
            (thermostat_parameters.ThermostatNumber, thermostat_parameters.ThermostatNumberDescription),
            (thermostat_parameters.ThermostatSwitch, thermostat_parameters.ThermostatSwitchDescription),
            (schedules.ScheduleNumber, schedules.ScheduleNumberDescription),
            (schedules.ScheduleSwitch, schedules.ScheduleSwitchDescription),
        ]
        for cls, desc in classes:
            V = 1 if issubclass(cls, parameter.Switch) else 37
            p = cls(eco, desc(name="probe"), parameter.ParameterValues(0, 0, 255))
            for meth in public_routes(cls):
                code = METHODS.get(meth, 99)
                if meth.startswith("turn_") or code == 99:
                    rows.append([cls.__name__, 0, code, 7] + await probe(p, meth, (), {}, V))
                    continue
                for form, (args, kw) in forms(V, T).items():
                    rows.append([cls.__name__, 0, code, form] + await probe(p, meth, args, kw, V))
        for dev in (eco, mixer, thermostat):
            p = parameter.Number(dev, parameter.NumberDescription(name="probe"), parameter.ParameterValues(0, 0, 255))
            dev.data["probe"] = p
            for meth in public_routes(type(dev)):
                code = METHODS.get(meth, 99)
                if meth.startswith("turn_") or code == 99:
                    sw = ecomax_parameters.EcomaxSwitch(dev, ecomax_parameters.ECOMAX_CONTROL_PARAMETER, parameter.ParameterValues(0, 0, 1))
                    dev.data[ecomax_parameters.ATTR_ECOMAX_CONTROL] = sw
                    rows.append([type(dev).__name__, 2, code, 7] + await probe(dev, meth, (), {}, 1))
                    continue
                for form, (args, kw) in forms(37, W, ("probe",)).items():
                    rows.append([type(dev).__name__, 1, code, form] + await probe(dev, meth, args, kw, 37))
        for dev in (eco, mixer, thermostat):
            dev.cancel_tasks()
        return rows

    orig = parameter.Parameter.set
    parameter.Parameter.set = recorder
    try:
        return asyncio.run(main())
    finally:
        parameter.Parameter.set = orig


def emit_lean(d: dict) -> dict[str, str]:
    files: dict[str, str] = {}
    hdr = "-- GENERATED by tools/gen_tables.py from the repository's current source. Do not edit.\n"

    c = d["consts"]
    body = hdr + "namespace PlumVerif.Gen\n\n"
    for k, v in c.items():
        body += f"def {k} : Nat := {int(v)}\n"
    body += f"\n/-- filters.TOLERANCE as an exact rational (repr {d['tolerance_repr']}) -/\n"
    body += f"def toleranceNum : Nat := {d['tolerance'][0]}\ndef toleranceDen : Nat := {d['tolerance'][1]}\n\n"
    for k, v in d["defaults"].items():
        body += f"def {k} : Nat := {int(v)}\n"
    body += "\n"

    def pairs(name, rows):
        return (
            f"def {name} : List (String × Nat) := "
            + lean_list([f"({lean_str(n)}, {v})" for n, v in rows], 3)
            + "\n\n"
        )

    body += pairs("frameTypes", d["frame_types"])
    body += pairs("deviceTypes", d["device_types"])
    body += pairs("encryptionTypes", d["encryption_types"])
    body += pairs("productTypes", d["product_types"])
    body += pairs("deviceStates", d["device_states"])
    body += (
        "/-- requests the library answers: (request kind, response kind, recipient, sender, sender type, version);\n"
        "    a header field is 1..4 = copied from the request's recipient / sender / type / version, 1000+c = constant c -/\n"
        "def answers : List (Nat × Nat × Nat × Nat × Nat × Nat) := "
        + lean_list([f"({a}, {b}, {c_}, {d_}, {e}, {f})" for a, b, c_, d_, e, f in d["answers"]], 2)
        + "\n\n"
    )
    body += (
        "def extraDeviceStates : List (Nat × Nat) := "
        + lean_list([f"({a}, {b})" for a, b in d["extra_device_states"]], 6)
        + "\n\n"
    )
    body += "def dataTypes : List String := " + lean_list(
        [lean_str(x) for x in d["data_types"]], 6
    ) + "\n\n"
    body += (
        "def structFormats : List (String × String × Nat) := "
        + lean_list(
            [f"({lean_str(n)}, {lean_str(f)}, {z})" for n, f, z in d["struct_formats"]], 3
        )
        + "\n\n"
    )
    body += (
        "/-- helpers/uid.py BASE5_KEY: the base-32 alphabet of the UID text -/\n"
        f"def base5Key : String := {lean_str(d['base5_key'])}\n\n"
    )
    body += "def schedules : List String := " + lean_list(
        [lean_str(x) for x in d["schedules"]], 5
    ) + "\n\n"
    body += (
        "def setupFrames : List (Nat × String) := "
        + lean_list([f"({a}, {lean_str(b)})" for a, b in d["setup_frames"]], 3)
        + "\n\n"
    )
    body += "end PlumVerif.Gen\n"
    files["Consts.lean"] = body
    # a file of its own (imported by Props/C18 only): adding it does not invalidate the modules built on Consts
    files["ScheduleStates.lean"] = (
        hdr + "namespace PlumVerif.Gen\n\n"
        "/-- helpers/schedule.py: get_args(ScheduleState), ON_STATES, OFF_STATES -/\n"
        "def scheduleStates : List String := " + lean_list([lean_str(x) for x in d["schedule_states"]], 5) + "\n"
        "def scheduleOnStates : List String := " + lean_list([lean_str(x) for x in d["schedule_on_states"]], 5) + "\n"
        "def scheduleOffStates : List String := " + lean_list([lean_str(x) for x in d["schedule_off_states"]], 5) + "\n\n"
        "end PlumVerif.Gen\n"
    )

    body = hdr + "namespace PlumVerif.Gen\n\n"
    body += (
        "/-- One parameter description. `multNum/multDen` is the exact rational value of the Python float. -/\n"
        "structure Desc where\n  name : String\n  switch : Bool\n  multNum : Nat\n  multDen : Nat\n"
        "  offset : Nat\n  precision : Nat\n  size : Nat\nderiving Repr, DecidableEq, Inhabited\n\n"
    )

    def row(r):
        assert r["mult_num"] >= 0 and r["offset"] >= 0
        return (
            f"⟨{lean_str(r['name'])}, {'true' if r['switch'] else 'false'}, "
            f"{r['mult_num']}, {r['mult_den']}, {r['offset']}, {r['precision']}, {r['size']}⟩"
        )

    for name, rows in d["tables"].items():
        body += f"def {name} : List Desc := " + lean_list([row(r) for r in rows], 1) + "\n\n"
    for name, r in d["special"].items():
        body += f"def {name} : Desc := {row(r)}\n\n"
    body += "end PlumVerif.Gen\n"
    files["Params.lean"] = body

    sn = d["sensors"]
    body = hdr + "namespace PlumVerif.Gen\n\n"
    for k in ("outputs", "temperatures", "statuses", "modules"):
        body += f"def {k}Names : List String := " + lean_list([lean_str(x) for x in sn[k]], 5) + "\n\n"
    body += pairs("lambdaStates", sn["lambdaStates"])
    for k in ("fuelLevelOffset", "statusesSize", "mixerSensorSize"):
        body += f"def {k} : Nat := {int(sn[k])}\n"
    body += f"def regdataVersion : String := {lean_str(sn['regdataVersion'])}\n\n"
    body += "end PlumVerif.Gen\n"
    files["Sensors.lean"] = body
    files["Scaling.lean"] = emit_scaling(d, hdr)
    body = hdr + "namespace PlumVerif.Gen\n\n"
    body += "/-- frame type codes for which `Request.create` yields a request frame -/\n"
    body += "def requestKinds : List Nat := " + lean_list([str(x) for x in d["request_kinds"]], 12) + "\n\n"
    body += (
        "/-- the public set routes, probed (tools/gen_tables.py `_set_routes`): (class, owner kind, method, argument form,\n"
        "    source of the value / retries / timeout that reach `Parameter.set`).  owner 0 parameter, 1 device, 2 EcoMAX convenience;\n"
        "    method 0 set 1 set_nowait 2 turn_on 3 turn_off 4 turn_on_nowait 5 turn_off_nowait 99 unknown;\n"
        "    form 0 f(v) 1 f(v, retries=r, timeout=t) 2 f(v, r, t) 3 f(v, timeout=t, retries=r) 4 f(v, r) 5 f(v, retries=r) 6 f(v, timeout=t) 7 f();\n"
        "    source 1 caller's value 2 caller's retries 3 caller's timeout 4 caller's device-level wait 1000+c constant c (ms for the timeout;\n"
        "    1001 'on', 1000 'off') 997 None 998 no/several calls 999 other -/\n"
        "def setRoutes : List (String × Nat × Nat × Nat × Nat × Nat × Nat) := "
        + lean_list([f"({lean_str(c_)}, {o}, {m}, {f}, {v}, {r}, {t})" for c_, o, m, f, v, r, t in d["set_routes"]], 3)
        + "\n\n"
    )
    body += "end PlumVerif.Gen\n"
    files["Requests.lean"] = body
    files["EventsTables.lean"] = emit_events_tables(d, hdr)
    files["Pipeline.lean"] = _emit_pipeline(d["pipeline"], hdr)
    files["FrameKinds.lean"] = emit_frame_kinds(d, hdr)
    files["ParamProbe.lean"] = emit_param_probes(d, hdr)
    return files


def scaling_info(d: dict) -> dict:
    """Per table: which scaling attributes its number descriptions carry (must be uniform,
    the conversion class is chosen per table by the device code); the distinct
    (uses offset, multiplier, offset, precision, size) combinations of all scaled rows."""
    attrs = {}
    combos = []
    tables = dict(d["tables"])
    tables["thermostatProfile"] = [d["special"]["thermostatProfile"]]
    tables["ecomaxControl"] = [d["special"]["ecomaxControl"]]
    for name, rows in tables.items():
        nums = [r for r in rows if not r["switch"]]
        kinds = {(r["has_scale"], r["has_offset"]) for r in nums}
        if len(kinds) > 1:
            raise SystemExit(f"table {name}: number descriptions with and without scaling attributes: {kinds}")
        has_scale, has_offset = kinds.pop() if kinds else (False, False)
        attrs[name] = [bool(has_scale), bool(has_offset)]
        if has_scale:
            for r in nums:
                c = [bool(has_offset), r["mult_num"], r["mult_den"], r["offset"] if has_offset else 0,
                     r["precision"], r["size"]]
                if r["mult_num"] <= 0 or r["precision"] < 0 or r["size"] < 1:
                    raise SystemExit(f"table {name}: row {r['name']} outside the modelled domain: {r}")
                if c not in combos:
                    combos.append(c)
    combos.sort()
    return {"attrs": attrs, "combos": combos}


def emit_scaling(d: dict, hdr: str) -> str:
    info = scaling_info(d)
    body = hdr + "namespace PlumVerif.Gen\n\n"
    body += (
        "/-- per table: (number descriptions have multiplier/precision, number descriptions have offset) -/\n"
        "def tableAttrs : List (String × Bool × Bool) := "
        + lean_list(
            [f"({lean_str(n)}, {'true' if a else 'false'}, {'true' if b else 'false'})" for n, (a, b) in info["attrs"].items()], 2
        )
        + "\n\n"
    )
    body += (
        "/-- a distinct scaling combination of the number descriptions -/\n"
        "structure Combo where\n  useOffset : Bool\n  multNum : Nat\n  multDen : Nat\n  offset : Nat\n"
        "  precision : Nat\n  size : Nat\nderiving Repr, DecidableEq, Inhabited\n\n"
    )
    body += (
        "def combos : List Combo := "
        + lean_list(
            [f"⟨{'true' if c[0] else 'false'}, {c[1]}, {c[2]}, {c[3]}, {c[4]}, {c[5]}⟩" for c in info["combos"]], 1
        )
        + "\n\n"
    )
    body += "end PlumVerif.Gen\n"
    return body


def _numeric_compare_tolerances(filters) -> dict:
    """rel_tol / abs_tol of the comparison of two numbers in filters.py (C20, Model/FiltersF64.lean `relTol`).

    (1) source: every call of `math.isclose` in the module (ast), its `rel_tol` / `abs_tol` keywords evaluated in the module's
        namespace, absent keywords = the defaults of `math.isclose`;
    (2) behaviour: `on_change(cb)` is called with a then b for pairs of doubles around the boundary
        |b - a| <= max(rel_tol * max(|a|, |b|), abs_tol) at magnitudes 2^-20 .. 2^200 and powers of ten; a candidate (the value read
        from the source, 0, the default of math.isclose, the estimate bisected at 2^200) is accepted when CPython's formula with that
        candidate answers every probe as the filter does.
    The emitted value is the first accepted candidate; `source` says which and whether source and behaviour agree."""
    import ast
    import math

    sig = inspect.signature(math.isclose).parameters
    default_rel, default_abs = float(sig["rel_tol"].default), float(sig["abs_tol"].default)
    found = []
    try:
        tree = ast.parse(inspect.getsource(filters))
        ns = dict(vars(filters))
        ns.setdefault("math", math)
        for node in ast.walk(tree):
            if not isinstance(node, ast.Call):
                continue
            f = node.func
            is_isclose = (isinstance(f, ast.Attribute) and f.attr == "isclose") or (isinstance(f, ast.Name) and ns.get(f.id) is math.isclose)
            if not is_isclose:
                continue
            kw = {}
            opaque = False
            for k in node.keywords:
                if k.arg is None:
                    opaque = True
                    continue
                try:
                    kw[k.arg] = float(eval(compile(ast.Expression(k.value), "<filters>", "eval"), ns))  # noqa: S307
                except Exception:  # noqa: BLE001
                    opaque = True
            if not opaque:
                found.append((kw.get("rel_tol", default_rel), kw.get("abs_tol", default_abs)))
    except Exception:  # noqa: BLE001
        found = []

    def changed(a, b):
        """does on_change deliver b after a (None: the call raised)"""
        got = []

        async def cb(v):
            got.append(v)

        try:
            flt = filters.on_change(cb)
            for v in (a, b):
                c = flt(v)
                try:
                    c.send(None)
                except StopIteration:
                    pass
                else:
                    c.close()
                    return None
        except Exception:  # noqa: BLE001
            return None
        return len(got) == 2

    def formula(r, t, a, b):
        if a == b:
            return False
        diff = abs(b - a)
        return not (diff <= abs(r * b) or diff <= abs(r * a) or diff <= t)

    # absolute tolerance as observed below magnitude 1 (there every plausible rel_tol is inert): bisect the largest unchanged step from 0.0
    lo, hi = 0.0, 1e6
    if changed(0.0, hi) is not True:
        abs_seen = None
    else:
        for _ in range(200):
            mid = (lo + hi) / 2
            if mid in (lo, hi):
                break
            if changed(0.0, mid):
                hi = mid
            else:
                lo = mid
        abs_seen = lo
    # relative tolerance estimate at 2^200 (steps are multiples of the ulp there, 22 significant bits of rel_tol at best)
    base = 2.0 ** 200
    lo, hi = 0.0, base
    rel_seen = None
    if changed(base, base + hi) is True:
        for _ in range(200):
            mid = (lo + hi) / 2
            if base + mid == base + lo or base + mid == base + hi:
                break
            if changed(base, base + mid):
                hi = mid
            else:
                lo = mid
        rel_seen = lo / base
    cands = []
    for c in found:
        if c not in cands:
            cands.append(c)
    for r in (0.0, default_rel, rel_seen, None if rel_seen is None else float(f"{rel_seen:.3g}"), None if rel_seen is None else float(f"{rel_seen:.1g}")):
        for t in ([abs_seen] if abs_seen is not None else []) + [float(filters.TOLERANCE)]:
            if r is not None and r >= 0 and t >= 0 and (r, t) not in cands:
                cands.append((r, t))
    probes = []
    mags = [2.0 ** k for k in (-20, -3, 0, 3, 10, 20, 26, 27, 30, 40, 52, 53, 60, 100, 200)] + [10.0 ** k for k in range(0, 19)] + [123456789.5, 99999999.0]
    for m in mags:
        for r, t in cands[:6]:
            for thr in (t, r * m, math.nextafter(r * m, math.inf), r * m * 1.5, r * m / 1.5, t * 1.5, t / 1.5, 2 * t, 1.0, 0.15, 0.05):
                for sgn in (1, -1):
                    for base_ in (m, -m):
                        for b in (base_ + sgn * thr, math.nextafter(base_ + sgn * thr, math.inf), math.nextafter(base_ + sgn * thr, -math.inf)):
                            probes.append((base_, b))
    seen = {}
    for a, b in probes:
        if (a, b) not in seen:
            seen[(a, b)] = changed(a, b)
    accepted = None
    for r, t in cands:
        if all(v is not None and formula(r, t, a, b) == v for (a, b), v in seen.items()):
            accepted = (r, t)
            break
    if accepted is None:
        chosen = found[0] if found else (default_rel, float(filters.TOLERANCE))
        source = "unconfirmed"
        how = f"NOT confirmed by the probes ({len(seen)} pairs): no candidate among {cands!r} answers them all as on_change does."
    else:
        chosen = accepted
        source = "source+probes" if accepted in found else "probes"
        how = (f"{len(found)} isclose call(s) in the source, {len(seen)} probe pairs; value {'read from the source and ' if accepted in found else 'NOT readable from the source, '}"
               f"confirmed by every probe (repr rel_tol {chosen[0]!r}, abs_tol {chosen[1]!r}).")
    rq, tq = Fraction(chosen[0]), Fraction(chosen[1])
    return dict(rel_tol=[rq.numerator, rq.denominator], abs_tol=[tq.numerator, tq.denominator], source=source, how=how,
                rel_tol_repr=repr(chosen[0]), abs_tol_repr=repr(chosen[1]), calls=len(found), probes=len(seen))


def _events_tables() -> dict:
    """Reflection over `pyplumio.filters`, `EventManager` and the version bookkeeping of `PhysicalDevice`
    (events worker, C13 / C15 / C20): a new, removed or renamed public filter factory / EventManager method, a changed
    parameter list or default, a changed `__eq__` / `__hash__` arrangement breaks a named `decide` lemma in Props/."""
    import math

    from pyplumio import filters
    from pyplumio.devices import PhysicalDevice
    from pyplumio.devices import ecomax as dev_ecomax
    from pyplumio.devices import ecoster as dev_ecoster
    from pyplumio.helpers import event_manager

    def params(fn, skip_self=False):
        rows = []
        for name, p in inspect.signature(fn).parameters.items():
            if skip_self and name == "self":
                continue
            star = "*" if p.kind is p.VAR_POSITIONAL else "**" if p.kind is p.VAR_KEYWORD else ""
            rows.append([star + name, "-" if p.default is p.empty else repr(p.default)])
        return rows

    def public(mod_or_cls):
        return sorted(n for n in vars(mod_or_cls) if not n.startswith("_"))

    async def _probe_cb(value):
        return None

    def probe(fn):
        """the object a factory returns for a plain callback: is it a Filter, which class defines its `__eq__`, is it
        hashable, is calling it a coroutine function; and does it compare equal to its own callback"""
        args = [(_probe_cb if n == "callback" else (lambda v: True) if n == "filter_fn" else 1) for n, _ in params(fn)]
        try:
            obj = fn(*args)
        except Exception as e:  # noqa: BLE001
            return "probe-failed:" + type(e).__name__
        eq_owner = next((c.__name__ for c in type(obj).__mro__ if "__eq__" in vars(c)), "?")
        return ",".join([
            "Filter" if isinstance(obj, filters.Filter) else "other",
            "eq:" + eq_owner,
            "unhashable" if type(obj).__hash__ is None else "hashable",
            "async" if inspect.iscoroutinefunction(type(obj).__call__) else "sync",
            "eq-callback" if obj == _probe_cb else "ne-callback",
        ])

    factories = []
    for name in public(filters):
        obj = getattr(filters, name)
        if inspect.isfunction(obj) and obj.__module__ == filters.__name__:
            factories.append([name, probe(obj), params(obj)])
    classes = []
    for name, obj in sorted(vars(filters).items()):
        if inspect.isclass(obj) and obj.__module__ == filters.__name__ and not name.startswith("_") and not getattr(obj, "_is_protocol", False):
            eq_owner = next(c.__name__ for c in obj.__mro__ if "__eq__" in vars(c))
            classes.append([name, eq_owner, "unhashable" if obj.__hash__ is None else "hashable",
                            "abstract" if inspect.isabstract(obj) else "concrete",
                            params(obj.__init__, skip_self=True), "async" if inspect.iscoroutinefunction(obj.__call__) else "sync"])
    rel = Fraction(inspect.signature(math.isclose).parameters["rel_tol"].default)
    abs_default = Fraction(inspect.signature(math.isclose).parameters["abs_tol"].default)
    numeric_compare = _numeric_compare_tolerances(filters)
    em = event_manager.EventManager
    methods = []
    for name in sorted(n for n in vars(em) if not n.startswith("_") or n in ("__getattr__",)):
        obj = vars(em)[name]
        if isinstance(obj, property):
            methods.append([name, "property", []])
        elif inspect.iscoroutinefunction(obj):
            methods.append([name, "async", params(obj, skip_self=True)])
        elif inspect.isfunction(obj):
            methods.append([name, "sync", params(obj, skip_self=True)])
    from pyplumio import const as const_
    setup = {}
    for cls in (dev_ecomax.EcoMAX, dev_ecoster.EcoSTER):
        setup[cls.__name__] = [int(d.frame_type) for d in cls._setup_frames]
    from pyplumio.structures import frame_versions as fv
    return {
        "filter_factories": factories,
        "filter_classes": classes,
        "isclose_rel_tol": [rel.numerator, rel.denominator],
        "isclose_abs_tol_default": [abs_default.numerator, abs_default.denominator],
        "numeric_compare": numeric_compare,
        "event_manager_api": methods,
        "setup_kinds": setup,
        "attr_frame_versions": fv.ATTR_FRAME_VERSIONS,
        "attr_frame_errors": const_.ATTR_FRAME_ERRORS,
        "has_frame_version": params(PhysicalDevice.has_frame_version, skip_self=True),
        "request_defaults": params(PhysicalDevice.request, skip_self=True),
    }


def emit_events_tables(d: dict, hdr: str) -> str:
    t = d["events_tables"]

    def plist(rows):
        return "[" + ", ".join(f"({lean_str(a)}, {lean_str(b)})" for a, b in rows) + "]"

    body = hdr + "namespace PlumVerif.Gen\n\n"
    body += "/-- public factory functions of `pyplumio.filters`: (name, probe of the returned object, [(parameter, default or -)]) -/\n"
    body += "def filterFactories : List (String × String × List (String × String)) := " + lean_list(
        [f"({lean_str(n)}, {lean_str(c)}, {plist(ps)})" for n, c, ps in t["filter_factories"]], 1) + "\n\n"
    body += ("/-- the public classes of `pyplumio.filters` (protocols left out): (class, class that defines `__eq__`, hashability, abstract / concrete,\n"
             "    `__init__` parameters, whether `__call__` is a coroutine function) -/\n")
    body += "def filterClasses : List (String × String × String × String × List (String × String) × String) := " + lean_list(
        [f"({lean_str(n)}, {lean_str(e)}, {lean_str(h)}, {lean_str(v)}, {plist(ps)}, {lean_str(a)})" for n, e, h, v, ps, a in t["filter_classes"]], 1) + "\n\n"
    body += "/-- the default `rel_tol` of `math.isclose` (the filters pass only `abs_tol`) as an exact rational -/\n"
    body += f"def iscloseRelTolNum : Nat := {t['isclose_rel_tol'][0]}\ndef iscloseRelTolDen : Nat := {t['isclose_rel_tol'][1]}\n\n"
    nc = t["numeric_compare"]
    body += ("/-- the relative / absolute tolerance of the comparison of two numbers as `filters.py` makes it (the `math.isclose` call the number\n"
             "    branch of the change test reaches: keywords read from the source, confirmed by probing `on_change` with pairs of doubles around the\n"
             "    boundary at several magnitudes), as exact rationals.  " + nc["how"].replace("-/", "- /") + " -/\n")
    body += f"def relTolNum : Nat := {nc['rel_tol'][0]}\ndef relTolDen : Nat := {nc['rel_tol'][1]}\n"
    body += f"def absTolCallNum : Nat := {nc['abs_tol'][0]}\ndef absTolCallDen : Nat := {nc['abs_tol'][1]}\n"
    body += f"def numericCompareSource : String := {lean_str(nc['source'])}\n\n"
    body += "/-- what `EventManager` itself defines (public names and `__getattr__`): (name, kind, parameters) -/\n"
    body += "def eventManagerApi : List (String × String × List (String × String)) := " + lean_list(
        [f"({lean_str(n)}, {lean_str(k)}, {plist(ps)})" for n, k, ps in t["event_manager_api"]], 1) + "\n\n"
    body += "/-- request kinds asked for during set-up (`_setup_frames`), per physical device class -/\n"
    body += "def setupKinds : List (String × List Nat) := " + lean_list(
        [f"({lean_str(n)}, [{', '.join(map(str, ks))}])" for n, ks in sorted(t["setup_kinds"].items())], 1) + "\n\n"
    body += f"def attrFrameVersions : String := {lean_str(t['attr_frame_versions'])}\n"
    body += f"def attrFrameErrors : String := {lean_str(t['attr_frame_errors'])}\n"
    body += f"def hasFrameVersionParams : List (String × String) := {plist(t['has_frame_version'])}\n"
    body += f"def requestParams : List (String × String) := {plist(t['request_defaults'])}\n\n"
    body += "end PlumVerif.Gen\n"
    return body


def _pipeline() -> dict:
    """Facts of the receive pipeline and of device set-up, PROBED on the imported code (behaviour, not syntax, so that a
    behaviour-preserving rewrite leaves them unchanged): what frame_consumer / frame_producer do when obtaining the entry,
    handling, or reader.read() raises an exception of each family; how often request() transmits for retries = 0..3 and
    what it raises; what async_setup makes of failed requests; what EcoMAX.async_setup waits for and in which order it
    requests; which subscribed handlers block until product information is there
    (Props/C09Contain, Props/C16 pin each of them to the statement by `decide`)."""
    import asyncio
    import struct
    import types
    from pyplumio import exceptions as exc_mod
    from pyplumio import protocol as proto_mod
    from pyplumio.const import DeviceType, FrameType, ProductType
    from pyplumio.devices import PhysicalDevice
    from pyplumio.devices import ecomax as ecomax_mod
    from pyplumio.devices import mixer as mixer_mod
    from pyplumio.devices import thermostat as thermostat_mod
    from pyplumio.structures.network_info import NetworkInfo

    protocol_family = [exc_mod.ProtocolError] + [c for c in vars(exc_mod).values()
                                                 if isinstance(c, type) and issubclass(c, exc_mod.ProtocolError)]
    families = {
        "ProtocolError": protocol_family,
        "OSError": [OSError, ConnectionResetError, BrokenPipeError, FileNotFoundError],
        "TimeoutError": [asyncio.TimeoutError],
        "other": [ValueError, KeyError, IndexError, TypeError, AttributeError, struct.error, UnicodeDecodeError, ZeroDivisionError,
                  OverflowError, AssertionError, RuntimeError, NotImplementedError, RecursionError, EOFError, MemoryError,
                  Exception, exc_mod.PyPlumIOError, exc_mod.ConnectionFailedError, asyncio.QueueFull],
        "CancelledError": [asyncio.CancelledError],
    }

    def mk(cls):
        for args in (("probe",), (), ("utf-8", b"\xff", 0, 1, "probe")):
            try:
                return cls(*args)
            except Exception:  # noqa: BLE001
                continue
        raise RuntimeError(cls)

    async def spin(n=30):
        for _ in range(n):
            await asyncio.sleep(0)

    async def probe_consumer(cls, site):
        proto = proto_mod.AsyncProtocol(consumers_count=1)
        proto.connected.set()
        q = asyncio.Queue()

        class Dev:
            def handle_frame(self, frame):
                raise mk(cls)

        async def entry(device_type):
            if site == "entry":
                raise mk(cls)
            return Dev()

        proto.get_device_entry = entry
        for _ in range(2):
            q.put_nowait(types.SimpleNamespace(sender=DeviceType.ECOMAX))
        task = asyncio.ensure_future(proto.frame_consumer(q))
        await spin()
        ok = (not task.done()) and q._unfinished_tasks == 0 and q.empty()
        task.cancel()
        await asyncio.gather(task, return_exceptions=True)
        return 1 if ok else 0

    async def probe_producer(cls):
        proto = proto_mod.AsyncProtocol()
        proto.connected.set()
        lost, reads = [], []

        async def connection_lost():
            lost.append(1)

        proto.connection_lost = connection_lost

        class Reader:
            async def read(self):
                reads.append(1)
                if len(reads) == 1:
                    raise mk(cls)
                await asyncio.sleep(3600)

        class Writer:
            async def write(self, frame):
                return None

        queues = proto_mod.Queues(read=asyncio.Queue(), write=asyncio.Queue())
        task = asyncio.ensure_future(proto.frame_producer(queues, reader=Reader(), writer=Writer()))
        await spin()
        if lost:
            r = "break"
        elif len(reads) >= 2 and not task.done():
            r = "continue"
        else:
            r = "propagates"
        task.cancel()
        await asyncio.gather(task, return_exceptions=True)
        for t in list(getattr(proto, "tasks", [])):
            t.cancel()
        return r

    async def probe_request(r):
        q = asyncio.Queue()
        dev = ecomax_mod.EcoMAX(q, NetworkInfo())
        ft = FrameType.REQUEST_UID
        try:
            await dev.request("never_provided", ft, retries=r, timeout=0.002)
            raised = ("-", 99)
        except Exception as e:  # noqa: BLE001
            raised = (type(e).__name__, next((i for i, a in enumerate(e.args) if a == ft), 99))
        return [r, q.qsize(), raised[0], raised[1]]

    async def probe_setup_errors():
        table = ecomax_mod.SETUP_FRAME_TYPES[:3]

        class Dev(PhysicalDevice):
            address = DeviceType.ECOMAX
            _setup_frames = table

            async def request(self, name, frame_type, retries=3, timeout=3.0):
                if frame_type != table[0].frame_type:
                    raise ValueError("probe", frame_type)
                return 1

        try:
            dev = Dev(asyncio.Queue(), NetworkInfo())
            await asyncio.wait_for(dev.async_setup(), 1.0)
            return int(list(dev.data.get("frame_errors")) == [d.frame_type for d in table[1:]] and dev.data.get("loaded") is True)
        except Exception:  # noqa: BLE001
            return 0

    async def probe_gate():
        asked = []

        class Dev(ecomax_mod.EcoMAX):
            async def request(self, name, frame_type, retries=3, timeout=3.0):
                asked.append(int(frame_type))
                return 1

        dev = Dev(asyncio.Queue(), NetworkInfo())
        task = asyncio.ensure_future(dev.async_setup())
        await spin()
        opened = []
        for name, value in (("product", types.SimpleNamespace(type=ProductType.ECOMAX_P, model="probe")), ("state", 0), ("password", "0000"),
                            ("regdata", {}), ("modules", None), ("sensors", {})):
            before = len(asked)
            try:
                await asyncio.wait_for(dev.dispatch(name, value), 0.2)
            except Exception:  # noqa: BLE001
                pass
            await spin()
            if len(asked) > before:
                opened.append(name)
        task.cancel()
        await asyncio.gather(task, return_exceptions=True)
        await dev.shutdown()
        return opened, asked

    async def probe_waiters():
        rows = []

        def fresh(cls):
            parent = ecomax_mod.EcoMAX(asyncio.Queue(), NetworkInfo())
            if cls is ecomax_mod.EcoMAX:
                return parent, parent
            return parent, cls(asyncio.Queue(), parent=parent, index=0)

        for cls in (ecomax_mod.EcoMAX, mixer_mod.Mixer, thermostat_mod.Thermostat):
            _, obj = fresh(cls)
            subs = [(event, i) for event, cbs in obj._callbacks.items() for i in range(len(cbs))]
            for event, i in subs:
                parent, obj = fresh(cls)
                cb = obj._callbacks[event][i]
                fn = getattr(cb, "_callback", cb)
                name = getattr(fn, "__name__", repr(fn))
                waits = 0
                try:
                    await asyncio.wait_for(fn([]), 0.01)
                except asyncio.TimeoutError:
                    # it blocks without product information; with it, it must come back
                    parent2, obj2 = fresh(cls)
                    await parent2.dispatch("product", types.SimpleNamespace(type=ProductType.ECOMAX_P, model="probe"))
                    fn2 = getattr(obj2._callbacks[event][i], "_callback", obj2._callbacks[event][i])
                    try:
                        await asyncio.wait_for(fn2([]), 0.2)
                        waits = 1
                    except asyncio.TimeoutError:
                        waits = 2
                    except Exception:  # noqa: BLE001
                        waits = 1
                    await parent2.shutdown()
                except Exception:  # noqa: BLE001
                    waits = 0
                await parent.shutdown()
                rows.append([cls.__name__, str(event), name, waits])
        return rows

    async def main():
        out = {}
        cons, prod, isa = [], [], []
        for fam, reps in families.items():
            for site in ("entry", "handle"):
                v = {await probe_consumer(c, site) for c in reps}
                cons.append([fam, site, v.pop() if len(v) == 1 else 2])
            v = {await probe_producer(c) for c in reps}
            prod.append([fam, v.pop() if len(v) == 1 else "mixed"])
            v = {issubclass(c, Exception) for c in reps}
            isa.append([fam, "Exception", (1 if v.pop() else 0) if len(v) == 1 else 2])
        out["consumer_probe"], out["producer_probe"], out["exc_isa"] = cons, prod, isa
        out["request_probe"] = [await probe_request(r) for r in (0, 1, 2, 3)]
        out["setup_errors_probe"] = await probe_setup_errors()
        out["setup_gate"], out["setup_request_order"] = await probe_gate()
        out["handler_waits_product"] = await probe_waiters()
        return out

    import logging
    logging.disable(logging.CRITICAL)     # the probes make the library log what it contains
    try:
        out = asyncio.run(main())
    finally:
        logging.disable(logging.NOTSET)
    out["exc_families"] = {k: [c.__module__ + "." + c.__qualname__ for c in v] for k, v in families.items()}
    out["setup_frames_of_device"] = [[int(d.frame_type), d.provides] for d in ecomax_mod.EcoMAX._setup_frames]
    return out


def _emit_pipeline(p: dict, hdr: str) -> str:
    def strs(xs):
        return "[" + ", ".join(lean_str(x) for x in xs) + "]"

    body = hdr + "namespace PlumVerif.Gen\n\n"
    body += ("/-- protocol.py `frame_producer`, probed: `reader.read()` raises an exception of the family once -> the loop goes on to the next\n"
             "    read (continue) / schedules connection_lost and ends (break) / ends with the exception (propagates) -/\n")
    body += "def producerProbe : List (String × String) := " + lean_list(
        [f"({lean_str(f)}, {lean_str(r)})" for f, r in p["producer_probe"]], 3) + "\n\n"
    body += ("/-- protocol.py `frame_consumer`, probed with two frames: obtaining the entry / handling raises an exception of the family ->\n"
             "    1 = the consumer is still running and both frames are acknowledged (task_done), 0 = not, 2 = representatives disagree -/\n")
    body += "def consumerProbe : List (String × String × Nat) := " + lean_list(
        [f"({lean_str(f)}, {lean_str(s_)}, {v})" for f, s_, v in p["consumer_probe"]], 3) + "\n\n"
    body += "/-- issubclass(<every representative of the family>, <class>): 1 yes, 0 no, 2 the representatives disagree -/\n"
    body += "def excIsA : List (String × String × Nat) := " + lean_list(
        [f"({lean_str(f)}, {lean_str(n)}, {v})" for f, n, v in p["exc_isa"]], 3) + "\n\n"
    body += ("/-- devices/__init__.py `PhysicalDevice.request`, probed for an unanswered request: (retries, transmissions, class raised,\n"
             "    position of the frame type in the exception's arguments) -/\n")
    body += "def requestProbe : List (Nat × Nat × String × Nat) := [" + ", ".join(
        f"({a}, {b}, {lean_str(c)}, {d_})" for a, b, c, d_ in p["request_probe"]) + "]\n"
    body += "/-- `PhysicalDevice.async_setup`, probed: the failed frame types end up in `frame_errors`, in order, and `loaded` is set -/\n"
    body += f"def setupErrorsProbe : Nat := {p['setup_errors_probe']}\n"
    body += "/-- `EcoMAX.async_setup`, probed: the data names whose arrival makes the requests start; the frame types requested, in order -/\n"
    body += "def setupGate : List String := " + strs(p["setup_gate"]) + "\n"
    body += "def setupRequestOrder : List Nat := [" + ", ".join(str(x) for x in p["setup_request_order"]) + "]\n"
    body += "def setupFramesOfDevice : List (Nat × String) := " + lean_list(
        [f"({a}, {lean_str(b)})" for a, b in p["setup_frames_of_device"]], 3) + "\n\n"
    body += ("/-- (class, event name, handler subscribed by a fresh object, 1 = the handler blocks until product information is there /\n"
             "    0 = it does not / 2 = it blocks for another reason) -/\n")
    body += "def handlerWaitsProduct : List (String × String × String × Nat) := " + lean_list(
        [f"({lean_str(c)}, {lean_str(e)}, {lean_str(m)}, {w})" for c, e, m, w in p["handler_waits_product"]], 2) + "\n\n"
    body += "end PlumVerif.Gen\n"
    return body


def _frame_kinds(const, frames):
    """C02: one row per FrameType member, by reflection: [name, code, module (request/response/message), class name,
    `create_message` defined in the class's OWN __dict__ (not inherited from Request/Response), same for `decode_message`,
    and whether the code translator (tools/py2lean.py TARGETS, read-only) extracts that function from the source text]"""
    import importlib

    try:
        sys.path.insert(0, os.path.dirname(os.path.abspath(__file__)))
        import py2lean
        targets = {(rel, qual) for rel, qual in py2lean.TARGETS}
    except Exception:  # noqa: BLE001  (the columns are then all false)
        targets = set()
    finally:
        sys.path.pop(0)
    rows = []
    for m in const.FrameType:
        module = m.name.split("_", 1)[0].lower()
        mod_name, cls_name = frames.get_frame_handler(int(m.value)).rsplit(".", 1)
        try:
            cls = getattr(importlib.import_module("pyplumio." + mod_name), cls_name)
        except Exception:  # noqa: BLE001
            rows.append([m.name, int(m.value), module, "", False, False, False, False])
            continue
        rel = "pyplumio/" + mod_name.replace(".", "/") + ".py"
        own = {fn: fn in vars(cls) for fn in ("create_message", "decode_message")}
        rows.append([m.name, int(m.value), module, cls_name, own["create_message"], own["decode_message"],
                     own["create_message"] and (rel, cls_name + ".create_message") in targets,
                     own["decode_message"] and (rel, cls_name + ".decode_message") in targets])
    return rows


def emit_frame_kinds(d: dict, hdr: str) -> str:
    def b(x):
        return "true" if x else "false"

    body = hdr + "namespace PlumVerif.Gen\n\n"
    body += (
        "/-- one frame kind (FrameType member) and its class, by reflection (tools/gen_tables.py `_frame_kinds`): `hasCreate` /\n"
        "    `hasDecode` = the class defines `create_message` / `decode_message` ITSELF (not inherited from Request / Response);\n"
        "    `createTranslated` / `decodeTranslated` = that function is a target of the code translator tools/py2lean.py -/\n"
        "structure FrameKind where\n  name : String\n  code : Nat\n  module : String\n  cls : String\n  hasCreate : Bool\n"
        "  hasDecode : Bool\n  createTranslated : Bool\n  decodeTranslated : Bool\nderiving Repr, DecidableEq, Inhabited\n\n"
    )
    body += "def frameKinds : List FrameKind := " + lean_list(
        [f"⟨{lean_str(n)}, {c}, {lean_str(mo)}, {lean_str(cl)}, {b(hc)}, {b(hd)}, {b(tc)}, {b(td)}⟩"
         for n, c, mo, cl, hc, hd, tc, td in d["frame_kinds"]], 1) + "\n\n"
    body += "end PlumVerif.Gen\n"
    return body


def _param_probes(parameter, ecomax_parameters, mixer_parameters, thermostat_parameters, schedules, dev_ecomax):
    """C06 / C08 / C17: the front of `set()` and the confirmation rule of `update()` of every parameter CLASS as data.
    The real classes are probed BEHAVIOURALLY on a small complete grid (no source inspection): a probe object is an
    instance of a subclass that only replaces the request builders (`create_request` -> a marker carrying the value held
    at that moment) — `set`, the subclass's display->raw conversion, `_normalize_parameter_value`, the range check and
    `update` are the class's own.
      validate : class x description (multiplier, offset, precision) x (value, min, max) incl. min = max, min > max, value outside
                 its own bounds x requested values (ints around both bounds, the held value, floats, bools, 'on'/'off')
                 -> outcome 0 no-op (True, nothing queued, nothing changed) | 1 ValueError (nothing queued, nothing changed)
                    | 2 accepted (one set request carrying `raw`, held value = raw, bounds unchanged) | 3 TypeError (inert) | 9 anything else
      rawof    : the same call on the bounds (-10^9, 10^9): the raw value every requested value is normalised to
      confirm  : (pending by a call for `requested` or not) x reported triple -> pending afterwards, triple held afterwards
    requested value = [kind, a, b, s]: 0 int a | 1 float a/b | 2 bool a | 3 str s"""
    import asyncio

    from pyplumio.devices.mixer import Mixer
    from pyplumio.devices.thermostat import Thermostat
    from pyplumio.structures.network_info import NetworkInfo

    PV = parameter.ParameterValues

    def probe_class(cls):
        async def create_request(self):
            return ("set", int(self.values.value))

        async def create_refresh_request(self):
            return ("refresh",)

        return type("Probe" + cls.__name__, (cls,), {
            "__slots__": (), "create_request": create_request, "create_refresh_request": create_refresh_request,
            "is_tracking_changes": property(lambda self: True)})

    def enc(v):
        if isinstance(v, bool):
            return [2, int(v), 1, ""]
        if isinstance(v, int):
            return [0, v, 1, ""]
        if isinstance(v, float):
            n, d_ = v.as_integer_ratio()
            return [1, n, d_, ""]
        return [3, 0, 1, v]

    def triple(p):
        return [p.values.value, p.values.min_value, p.values.max_value]

    async def one_set(make, v):
        p, queue = make()
        before = triple(p)
        kind, r = None, None
        try:
            r = await p.set(v, retries=1, timeout=0)
        except ValueError:
            kind = 1
        except TypeError:
            kind = 3
        except Exception:  # noqa: BLE001
            kind = 9
        q = []
        while not queue.empty():
            q.append(queue.get_nowait())
        after = triple(p)
        if kind in (1, 3):
            return (kind, 0) if (not q and after == before and not p.pending_update) else (9, 0)
        if kind == 9:
            return (9, 0)
        if r is True and not q and after == before and not p.pending_update:
            return (0, 0)
        if r is False and q == [("set", after[0])] and after[1:] == before[1:] and p.pending_update:
            return (2, after[0])
        return (9, 0)

    REQS = ([-1, 0, 1, 2, 3, 4, 5, 6, 7, 8, 9, 10, 23, 31] + [-1.5, -1.0, -0.5, 0.3, 0.5, 0.999, 1.5, 2.0, 2.5, 4.999, 5.0, 8.0, 8.5, 9.0]
            + [True, False, "on", "off"])
    TRIPLES = [(5, 2, 8), (5, 5, 5), (5, 8, 2), (9, 2, 8), (0, 0, 1), (1, 0, 1), (23, 20, 30)]
    SCALED_TRIPLES = [(5, 2, 8), (5, 8, 2), (23, 20, 30)]
    BIG = (123456789, -10 ** 9, 10 ** 9)

    async def main():
        eco = dev_ecomax.EcoMAX(asyncio.Queue(), NetworkInfo())
        mixer = Mixer(asyncio.Queue(), eco, 1)
        thermostat = Thermostat(asyncio.Queue(), eco, 1)
        N, S = parameter.NumberDescription, parameter.SwitchDescription
        E, M, T = ecomax_parameters, mixer_parameters, thermostat_parameters
        # (class, device, [(description, (multiplier, offset, precision) as the model is to read them)])
        classes = [
            (parameter.Number, eco, [(N(name="probe"), (1.0, 0, 0))]),
            (parameter.Switch, eco, [(S(name="probe"), (1.0, 0, 0))]),
            (E.EcomaxNumber, eco, [(E.EcomaxNumberDescription(name="probe"), None),
                                   (E.EcomaxNumberDescription(name="probe", multiplier=0.5, offset=2, precision=6), None),
                                   (E.EcomaxNumberDescription(name="probe", multiplier=0.1, offset=20, precision=1), None)]),
            (E.EcomaxSwitch, eco, [(E.EcomaxSwitchDescription(name="probe"), (1.0, 0, 0))]),
            (M.MixerNumber, mixer, [(M.MixerNumberDescription(name="probe"), None),
                                    (M.MixerNumberDescription(name="probe", multiplier=0.5, offset=2, precision=6), None),
                                    (M.MixerNumberDescription(name="probe", multiplier=0.1, offset=20, precision=1), None)]),
            (M.MixerSwitch, mixer, [(M.MixerSwitchDescription(name="probe"), (1.0, 0, 0))]),
            (T.ThermostatNumber, thermostat, [(T.ThermostatNumberDescription(name="probe"), None),
                                              (T.ThermostatNumberDescription(name="probe", multiplier=0.5, precision=6), None),
                                              (T.ThermostatNumberDescription(name="probe", multiplier=0.1, precision=1, size=2), None)]),
            (T.ThermostatSwitch, thermostat, [(T.ThermostatSwitchDescription(name="probe"), (1.0, 0, 0))]),
            (schedules.ScheduleNumber, eco, [(schedules.ScheduleNumberDescription(name="probe"), (1.0, 0, 0))]),
            (schedules.ScheduleSwitch, eco, [(schedules.ScheduleSwitchDescription(name="probe"), (1.0, 0, 0))]),
        ]
        validate, rawof, confirm = [], [], []
        for cls, dev, descs in classes:
            pc = probe_class(cls)
            for desc, conv in descs:
                if conv is None:
                    conv = (desc.multiplier, getattr(desc, "offset", 0), desc.precision)
                mn, md = float(conv[0]).as_integer_ratio()
                head = [cls.__name__, mn, md, int(conv[1]), int(conv[2])]

                def maker(t, desc=desc, pc=pc, dev=dev):
                    def make():
                        while not dev.queue.empty():
                            dev.queue.get_nowait()
                        return pc(dev, desc, PV(*t)), dev.queue
                    return make

                for t in (TRIPLES if desc is descs[0][0] else SCALED_TRIPLES):     # the full grid on the unit description
                    for v in REQS:
                        k, raw = await one_set(maker(t), v)
                        validate.append(head + list(t) + enc(v) + [k, raw])
                for v in REQS:
                    k, raw = await one_set(maker(BIG), v)
                    rawof.append(head + list(BIG) + enc(v) + [k, raw])
            # confirmation rule (unit description): not pending / pending by an accepted call for `requested`
            desc = descs[0][0]
            for held in ((10, 0, 100), (0, 0, 1)):
                for requested in (None, 1 if (held[2] <= 1 or issubclass(cls, parameter.Switch)) else 42):
                    for rv in sorted({held[0], 42, 77, 1, 0}):
                        for bounds in ((held[1], held[2]), (0, 20), (50, 40)):
                            p = pc(dev, desc, PV(*held))
                            task = None
                            if requested is not None:
                                disp = requested
                                if issubclass(cls, parameter.Switch):
                                    disp = bool(requested)
                                task = asyncio.ensure_future(p.set(disp, retries=2, timeout=1000))
                                for _ in range(5):
                                    await asyncio.sleep(0)
                            pend_before, prev = bool(p.pending_update), held[0]
                            now = triple(p)
                            p.update(PV(rv, bounds[0], bounds[1]))
                            row = [cls.__name__] + list(held) + [int(requested is not None), requested or 0, int(pend_before)] + now \
                                + [rv, bounds[0], bounds[1], int(bool(p.pending_update))] + triple(p)
                            if task is not None:
                                task.cancel()
                                try:
                                    await task
                                except BaseException:  # noqa: BLE001
                                    pass
                            while not dev.queue.empty():
                                dev.queue.get_nowait()
                            confirm.append(row)
                            del prev
        for dev in (eco, mixer, thermostat):
            dev.cancel_tasks()
        return {"validate": validate, "rawof": rawof, "confirm": confirm}

    import logging
    logging.disable(logging.CRITICAL)      # every accepted probe call ends with the library's "Timed out ..." error record
    try:
        return asyncio.run(main())
    finally:
        logging.disable(logging.NOTSET)


def emit_param_probes(d: dict, hdr: str) -> str:
    pr = d["param_probes"]
    body = hdr + "namespace PlumVerif.Gen\n\n"
    body += (
        "/-- a requested Python value: kind 0 int a | 1 float a/b | 2 bool (a = 1) | 3 str s -/\n"
        "structure ProbeVal where\n  kind : Nat\n  a : Int\n  b : Nat\n  s : String\nderiving Repr, DecidableEq, Inhabited\n\n"
        "/-- one probed `set()` call of a real parameter class (tools/gen_tables.py `_param_probes`): description numbers, the triple held,\n"
        "    the requested value, the outcome 0 no-op | 1 ValueError | 2 accepted, one request carrying `raw` | 3 TypeError | 9 anything else -/\n"
        "structure SetProbe where\n  cls : Nat\n  multNum : Nat\n  multDen : Nat\n  offset : Nat\n  precision : Nat\n"
        "  value : Int\n  min : Int\n  max : Int\n  req : ProbeVal\n  outcome : Nat\n  raw : Int\nderiving Repr, DecidableEq, Inhabited\n\n"
        "/-- one probed `update()` of a real parameter class: triple first held, whether a call for `requested` was pending (`pendingBefore`,\n"
        "    with the triple held at that moment), the reported triple, and what is pending / held afterwards -/\n"
        "structure ConfirmProbe where\n  cls : Nat\n  v0 : Int\n  lo0 : Int\n  hi0 : Int\n  called : Bool\n  requested : Int\n  pendingBefore : Bool\n"
        "  v1 : Int\n  lo1 : Int\n  hi1 : Int\n  rv : Int\n  rlo : Int\n  rhi : Int\n  pendingAfter : Bool\n  v2 : Int\n  lo2 : Int\n  hi2 : Int\n"
        "deriving Repr, DecidableEq, Inhabited\n\n"
    )

    names = []
    for r in pr["validate"] + pr["rawof"] + pr["confirm"]:
        if r[0] not in names:
            names.append(r[0])
    body += ("/-- the probed classes; the rows carry the position in this list (string comparison is slow in the kernel) -/\n"
             "def probeClasses : List String := " + lean_list([lean_str(n) for n in names], 5) + "\n\n")

    def i(x):
        return f"({x})" if x < 0 else str(x)

    def b(x):
        return "true" if x else "false"

    def setrow(r):
        c, mn, md, off, prec, v, lo, hi, k, a, bb, s_, out, raw = r
        return f"⟨{names.index(c)}, {mn}, {md}, {off}, {prec}, {i(v)}, {i(lo)}, {i(hi)}, ⟨{k}, {i(a)}, {bb}, {lean_str(s_)}⟩, {out}, {i(raw)}⟩"

    def crow(r):
        c, v0, lo0, hi0, called, req, pb, v1, lo1, hi1, rv, rlo, rhi, pa, v2, lo2, hi2 = r
        return (f"⟨{names.index(c)}, {i(v0)}, {i(lo0)}, {i(hi0)}, {b(called)}, {i(req)}, {b(pb)}, {i(v1)}, {i(lo1)}, {i(hi1)}, "
                f"{i(rv)}, {i(rlo)}, {i(rhi)}, {b(pa)}, {i(v2)}, {i(lo2)}, {i(hi2)}⟩")

    # the validate table is cut into chunks so that each kernel evaluation stays short
    rows = pr["validate"]
    CH = 400
    chunks = [rows[k:k + CH] for k in range(0, len(rows), CH)]
    for n, ch in enumerate(chunks):
        body += f"def validateProbe{n} : List SetProbe := " + lean_list([setrow(r) for r in ch], 1) + "\n\n"
    body += "def validateProbeChunks : List (List SetProbe) := [" + ", ".join(f"validateProbe{n}" for n in range(len(chunks))) + "]\n\n"
    body += f"def validateProbeRows : Nat := {len(rows)}\n\n"
    body += "def rawOfProbe : List SetProbe := " + lean_list([setrow(r) for r in pr["rawof"]], 1) + "\n\n"
    body += "def confirmProbe : List ConfirmProbe := " + lean_list([crow(r) for r in pr["confirm"]], 1) + "\n\n"
    body += "end PlumVerif.Gen\n"
    return body


def main() -> int:
    repo = os.path.abspath(sys.argv[1])
    outdir = sys.argv[2]
    d = dump(repo)
    d["scaling"] = scaling_info(d)
    changed = []
    for name, content in emit_lean(d).items():
        if write_if_changed(os.path.join(outdir, name), content):
            changed.append(name)
    if len(sys.argv) > 3:
        write_if_changed(sys.argv[3], json.dumps(d, indent=1, sort_keys=True) + "\n")
    print(json.dumps({"changed": changed}))
    return 0


if __name__ == "__main__":
    sys.exit(main())

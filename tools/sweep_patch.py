#!/usr/bin/env python3
"""usage: sweep_patch.py <patch.diff|-> [tier] [props...]
Apply a patch to a scratch copy of /repo ("-" = unchanged copy) and run the registered checks against it
in parallel.  Prints one line per property: exit code and the VIOLATION / KNOWN-FINDING lines."""
import concurrent.futures as cf
import os
import shutil
import subprocess
import sys
import tempfile

VERIF = os.path.dirname(os.path.dirname(os.path.abspath(__file__)))
sys.path.insert(0, VERIF)
import registry  # noqa: E402


def main():
    patch = sys.argv[1]
    tier = sys.argv[2] if len(sys.argv) > 2 else "quick"
    props = sys.argv[3:] or sorted(registry.PROPS)
    scratch = tempfile.mkdtemp(prefix="sweeprepo.", dir="/tmp")
    try:
        subprocess.run(f"rsync -a --exclude .git /repo/ {scratch}/", shell=True, check=True)
        if patch != "-":
            r = subprocess.run(["patch", "-p1", "-s", "-i", os.path.abspath(patch)], cwd=scratch)
            if r.returncode:
                print("patch failed")
                return 3
        env = dict(os.environ, VERIF_REPO=scratch)

        def one(p):
            r = subprocess.run([sys.executable, "check.py", "--property", p, "--tier", tier], cwd=VERIF, env=env,
                               stdout=subprocess.PIPE, stderr=subprocess.DEVNULL, text=True)
            lines = [ln[:150] for ln in r.stdout.splitlines() if ln.startswith(("VIOLATION", "KNOWN"))]
            return p, r.returncode, lines

        with cf.ThreadPoolExecutor(max_workers=int(os.environ.get("SWEEP_JOBS", "8"))) as ex:
            res = list(ex.map(one, props))
        bad = 0
        for p, rc, lines in res:
            v = [x for x in lines if x.startswith("VIOLATION")]
            if rc:
                bad += 1
            print(f"{p} exit={rc} {' | '.join(v)}")
        print(f"alarms: {bad}/{len(res)}")
    finally:
        shutil.rmtree(scratch, ignore_errors=True)
        # bring Generated/ back to /repo's state
        subprocess.run([sys.executable, "check.py", "--setup"], cwd=VERIF, stdout=subprocess.DEVNULL, stderr=subprocess.DEVNULL)
    return 0


if __name__ == "__main__":
    sys.exit(main())

#!/bin/sh
# usage: tools/merge_agent.sh <agent-copy> <path>...   copy the given files/dirs from an agent's working copy into /verif
src=$1; shift
for f in "$@"; do
  mkdir -p "/verif/$(dirname "$f")"
  cp -r "$src/$f" "/verif/$f" && echo "merged $f"
done

#!/usr/bin/env python3
"""Second, independent reading of the parameter tables: parse the SOURCE TEXT with `ast`
(no import of pyplumio) and compare with what the reflection-based translator dumped into
build/tables.json.  Guards the translator itself (thorough tier).

usage: ast_tables.py <repo> <tables.json>      exit 0 = identical, 1 = differences (printed)
"""
import ast
import json
import os
import sys
from fractions import Fraction

FILES = {
    "parameter": "pyplumio/helpers/parameter.py",
    "ecomax": "pyplumio/structures/ecomax_parameters.py",
    "mixer": "pyplumio/structures/mixer_parameters.py",
    "thermostat": "pyplumio/structures/thermostat_parameters.py",
    "schedules": "pyplumio/structures/schedules.py",
    "const": "pyplumio/const.py",
}


class Mod:
    def __init__(self, path):
        with open(path) as f:
            self.tree = ast.parse(f.read())
        self.consts = {}
        self.classes = {}
        self.assign = {}
        for node in self.tree.body:
            tgt = val = None
            if isinstance(node, ast.Assign) and len(node.targets) == 1 and isinstance(node.targets[0], ast.Name):
                tgt, val = node.targets[0].id, node.value
            elif isinstance(node, ast.AnnAssign) and isinstance(node.target, ast.Name) and node.value is not None:
                tgt, val = node.target.id, node.value
            if tgt:
                self.assign[tgt] = val
                if isinstance(val, ast.Constant):
                    self.consts[tgt] = val.value
            if isinstance(node, ast.ClassDef):
                self.classes[node.name] = node


def load(repo):
    return {k: Mod(os.path.join(repo, v)) for k, v in FILES.items()}


def all_consts(mods):
    out = {}
    for m in mods.values():
        out.update(m.consts)
    return out


def all_classes(mods):
    out = {}
    for m in mods.values():
        out.update(m.classes)
    return out


def class_defaults(classes, name, seen=None):
    """field defaults with (approximate, left-to-right depth-first) inheritance"""
    seen = seen or set()
    if name not in classes or name in seen:
        return {}
    seen.add(name)
    node = classes[name]
    out = {}
    for b in reversed(node.bases):
        if isinstance(b, ast.Name):
            out.update(class_defaults(classes, b.id, seen))
    for st in node.body:
        if isinstance(st, ast.AnnAssign) and isinstance(st.target, ast.Name) and isinstance(st.value, ast.Constant):
            out[st.target.id] = st.value.value
    return out


def ev(node, env):
    if isinstance(node, ast.Constant):
        return node.value
    if isinstance(node, ast.Name):
        return env[node.id]
    if isinstance(node, ast.JoinedStr):
        return "".join(str(ev(v.value, env)) if isinstance(v, ast.FormattedValue) else v.value for v in node.values)
    if isinstance(node, ast.Attribute):
        return f"{ast.unparse(node)}"
    if isinstance(node, ast.UnaryOp) and isinstance(node.op, ast.USub):
        return -ev(node.operand, env)
    raise ValueError(ast.dump(node)[:80])


def row_of_call(call, env, classes):
    cls = call.func.id
    d = dict(class_defaults(classes, cls))
    for kw in call.keywords:
        try:
            d[kw.arg] = ev(kw.value, env)
        except (ValueError, KeyError):
            d[kw.arg] = None
    m = Fraction(float(d.get("multiplier", 1.0)))
    return dict(name=d["name"], switch="Switch" in cls, mult_num=m.numerator, mult_den=m.denominator,
                offset=int(d.get("offset", 0)), precision=int(d.get("precision", 6)), size=int(d.get("size", 1)))


def seq_rows(node, env, classes):
    return [row_of_call(c, env, classes) for c in node.elts]


def read_tables(repo):
    mods = load(repo)
    env = all_consts(mods)
    classes = all_classes(mods)
    out = {}
    for key, mod, var in (("ecomax", "ecomax", "ECOMAX_PARAMETERS"), ("mixer", "mixer", "MIXER_PARAMETERS")):
        d = mods[mod].assign[var]
        for k, v in zip(d.keys, d.values):
            prod = ast.unparse(k).split(".")[-1]      # ECOMAX_P / ECOMAX_I
            out[key + prod[-1]] = seq_rows(v, env, classes)
    out["thermostat"] = seq_rows(mods["thermostat"].assign["THERMOSTAT_PARAMETERS"], env, classes)
    sched = [ev(e, env) for e in mods["schedules"].assign["SCHEDULES"].elts]
    comp = mods["schedules"].assign["SCHEDULE_PARAMETERS"]
    rows = []
    assert isinstance(comp, ast.ListComp) and len(comp.generators) == 2
    inner = comp.generators[1].iter
    for name in sched:
        e2 = dict(env)
        e2[comp.generators[0].target.id] = name
        rows.extend(row_of_call(c, e2, classes) for c in inner.elts)
    out["scheduleParams"] = rows
    out["schedules"] = sched
    out["ecomaxControl"] = row_of_call(mods["ecomax"].assign["ECOMAX_CONTROL_PARAMETER"], env, classes)
    out["thermostatProfile"] = row_of_call(mods["ecomax"].assign["THERMOSTAT_PROFILE_PARAMETER"], env, classes)
    return out


def main():
    repo, tj = sys.argv[1], sys.argv[2]
    a = read_tables(repo)
    with open(tj) as f:
        t = json.load(f)
    keys = ("name", "switch", "mult_num", "mult_den", "offset", "precision", "size")
    diffs = []

    def cmp_rows(label, ra, rt):
        if len(ra) != len(rt):
            diffs.append(f"{label}: {len(ra)} rows by AST, {len(rt)} by reflection")
        for i, (x, y) in enumerate(zip(ra, rt)):
            for k in keys:
                if x[k] != y[k]:
                    diffs.append(f"{label}[{i}].{k}: AST {x[k]!r} != reflection {y[k]!r}")

    for name in ("ecomaxP", "ecomaxI", "mixerP", "mixerI", "thermostat", "scheduleParams"):
        cmp_rows(name, a[name], t["tables"][name])
    cmp_rows("ecomaxControl", [a["ecomaxControl"]], [t["special"]["ecomaxControl"]])
    cmp_rows("thermostatProfile", [a["thermostatProfile"]], [t["special"]["thermostatProfile"]])
    if a["schedules"] != t["schedules"]:
        diffs.append("schedules differ")
    print(json.dumps(dict(ok=not diffs, rows=sum(len(a[n]) for n in ("ecomaxP", "ecomaxI", "mixerP", "mixerI", "thermostat", "scheduleParams")), diffs=diffs[:20])))
    return 1 if diffs else 0


if __name__ == "__main__":
    sys.exit(main())

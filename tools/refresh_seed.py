#!/usr/bin/env python3
"""usage: refresh_seed.py <id> [tier]   re-run the property's check against seeded/<id>/patch.diff and update meta.json detected_by"""
import json, os, re, subprocess, sys
VERIF = os.path.dirname(os.path.dirname(os.path.abspath(__file__)))
sid = sys.argv[1]; tier = sys.argv[2] if len(sys.argv) > 2 else "quick"
d = os.path.join(VERIF, "seeded", sid)
m = json.load(open(os.path.join(d, "meta.json")))
prop = m["property"]
out = subprocess.run([os.path.join(VERIF, "tools", "try_mutant.sh"), os.path.join(d, "patch.diff"), tier, prop], cwd=VERIF, stdout=subprocess.PIPE, text=True).stdout
for ln in out.splitlines():
    mm = re.match(r"(C\d+) exit=(\d+)\s*(.*)", ln)
    if mm:
        m.setdefault("detected_by", {})[mm.group(1)] = dict(exit=int(mm.group(2)), line=mm.group(3).strip()[:300])
json.dump(m, open(os.path.join(d, "meta.json"), "w"), indent=1); open(os.path.join(d, "meta.json"), "a").write("\n")
print(sid, m["detected_by"][prop]["exit"], m["detected_by"][prop]["line"][:90])

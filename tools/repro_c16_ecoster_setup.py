import sys, asyncio
sys.path.insert(0,'/root/work/pipeline/harness')
import pipefake, framegen as fg
from common import use_repo; use_repo()
from pyplumio.protocol import AsyncProtocol
with pipefake.Driven() as loop:
    proto = AsyncProtocol(); r = asyncio.StreamReader(); w = pipefake.FakeWriter()
    tasks=[]
    def factory(lp, coro, **kw):
        t = asyncio.Task(coro, loop=lp, **kw); tasks.append((getattr(coro,'__qualname__',''), t)); return t
    loop.set_task_factory(factory)
    loop.call_soon(proto.connection_established, r, w); loop.settle()
    r.feed_data(fg.mk(186, b"\x040000", rcpt=86, sender=81)); loop.settle()
    for q,t in tasks:
        if 'async_setup' in q: print(q, 'done', t.done(), 'exc', repr(t.exception()) if t.done() else None)
    print(proto.data['ecoster'].data)

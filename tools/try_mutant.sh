#!/bin/sh
# usage: tools/try_mutant.sh <patch.diff> <tier> <prop> [<prop>...]
# applies the patch to a scratch copy of /repo, runs the given checks against it, removes the copy
set -u
patch=$(readlink -f "$1"); tier=$2; shift 2
scratch=$(mktemp -d /tmp/mutrepo.XXXXXX)
rsync -a --exclude .git /repo/ "$scratch"/
( cd "$scratch" && patch -p1 -s < "$patch" ) || { echo "patch failed"; rm -rf "$scratch"; exit 3; }
cd "$(dirname "$0")/.."
for p in "$@"; do
  out=$(VERIF_REPO="$scratch" python3 check.py --property "$p" --tier "$tier" 2>/dev/null)
  rc=$?
  echo "$p exit=$rc $(echo "$out" | grep -E 'VIOLATION|KNOWN' | sort -r | cut -c1-160 | head -2 | tr '\n' ' ')"
done
# regenerate the tables from the real tree so lean/Generated is back to /repo's state
python3 check.py --property "$1" --tier quick >/dev/null 2>&1 || true
rm -rf "$scratch"

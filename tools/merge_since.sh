#!/bin/sh
# usage: tools/merge_since.sh <agent-copy> <sync-commit> [exclude-regex]
# copies the files the agent changed since its sync commit into /verif (except evidence, generated files and shared machinery)
A=$1; base=$2; ex=${3:-^$}
cd "$A" && git diff --name-only --diff-filter=AM "$base"..HEAD -- . | grep -v "^evidence/\|^MANIFEST.json\|^lean/Main.lean\|^lean/PlumVerif.lean\|^DESIGN.md\|^check.py\|^known_findings.json\|^lean/drivers.txt\|^seeded/\|^benign/\|^tools/" | grep -v -E "$ex" | while read f; do mkdir -p "/verif/$(dirname "$f")"; cp "$A/$f" "/verif/$f" && echo "merged $f"; done
echo "--- deleted by agent:"; git diff --name-only --diff-filter=D "$base"..HEAD -- . | head
echo "--- shared files changed by agent (merge by hand):"; git diff --name-only "$base"..HEAD -- known_findings.json lean/drivers.txt check.py tools harness/common.py harness/vloop.py harness/reader.py harness/reuse.py | head

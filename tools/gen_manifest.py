#!/usr/bin/env python3
"""Generate /verif/MANIFEST.json from registry.py (single source of truth)."""
import json
import os
import sys

VERIF = os.path.dirname(os.path.dirname(os.path.abspath(__file__)))
sys.path.insert(0, VERIF)
import registry  # noqa: E402

ALL = [f"C{n:02d}" for n in range(1, 21)]


def main():
    checks = []
    for pid in sorted(registry.PROPS):
        m = registry.PROPS[pid]
        checks.append(dict(
            property_id=pid,
            quick_cmd=f"python3 check.py --property {pid} --tier quick",
            thorough_cmd=f"python3 check.py --property {pid} --tier thorough",
            evidence_file=f"evidence/{pid}.json",
            replay_cmd_template=f"python3 check.py --property {pid} --replay {{path}}",
            engine="lean4-proof+correspondence",
            level_claimed=dict(category=m.get("level", "proof"), text=m["level_text"], design_ref=m["design_ref"]),
            level_note=m["level_note"],
            technique=m["technique"],
        ))
    na = [dict(property_id=p, reason=registry.NOT_APPLICABLE.get(p, "check not built yet in this round (planned: Lean model + theorems + correspondence, see DESIGN.md section 6)"))
          for p in ALL if p not in registry.PROPS]
    man = dict(
        version=1,
        setup_cmd="python3 check.py --setup",
        hooks=dict(
            guard="PYPLUMIO_VERIF",
            enable="no instrumentation hooks are needed: timing and scheduling are controlled from outside by harness/vloop.py; checks import pyplumio from /repo's working tree",
            baseline_off_cmd="cd /repo && /venv/bin/python -m pytest -ra -q -p no:cacheprovider --timeout=900 --continue-on-collection-errors",
            source_commits=[],
            add_only=True,
        ),
        engines=[dict(
            name="lean4-proof+correspondence",
            path="check.py",
            serves_properties=sorted(registry.PROPS),
            kind_free_text="Lean 4 theorems about executable models (lean/PlumVerif), translators run on every check: tables and behavioural probe tables (tools/gen_tables.py), source text of functions and classes -> Lean definitions (tools/py2lean.py, tools/py2lean_types.py) with kernel-checked `translated = model` theorems (lean/PlumVerif/Props/Tie*.lean), "
                           "correspondence harness under a virtual-time asyncio loop (harness/), native line-protocol driver (lean/Main.lean)",
        )],
        checks=checks,
        not_applicable=na,
        notes="fix: commits for the defects found are listed in known_findings.json (fixed entries suppress nothing). See DESIGN.md.",
    )
    with open(os.path.join(VERIF, "MANIFEST.json"), "w") as f:
        json.dump(man, f, indent=1)
        f.write("\n")


if __name__ == "__main__":
    main()

#!/usr/bin/env python3
"""Code translator, second part: CLASSES of /repo (wire types, network / version structures, frame object).

  py2lean_types.py <repo> <outdir>          writes <outdir>/PyCodeTypes.lean (content-compared)

Extension of tools/py2lean.py (same subset, same rules: syntax-directed, never a guess, a construct outside the
subset leaves the function out and the translator exits non-zero).  What is added:

  * classes with state.  An instance is a record of the slots declared by `__slots__` along its base-class chain
    (`PyT.newobj`), `self.x = e` is `PyT.setattr`, `self.x` of a slot is `PyT.getattr`, `hasattr(self, "x")`.
    A method `def m(self, a)` of class C becomes `def C_m (v_self : V) (v_a : V) : PyM (V × V)` — result and the
    instance afterwards; `self` is threaded like a re-assigned local.  Properties are methods without arguments.
  * dynamic dispatch is resolved statically, PER CONCRETE CLASS: `UnsignedChar.from_bytes` is the text of
    `DataType.from_bytes` translated with `cls = UnsignedChar` (so `cls()`, `self.size`, `self._struct`,
    `super().__init__` are looked up along UnsignedChar's base chain: single inheritance among the repo's classes,
    ABC / Generic[...] ignored).  `C.__call__`-free construction `C(args)` is `C_new args` (= `__new__` + `__init__`).
  * static classes of locals: a name bound to `C(...)` / `cls()` / `C.classmethod(...)` or annotated with a class is an
    instance of that class; `x.m(...)` on such a name rebinds the name (the method may assign slots).  Plain
    assignment of one object name to another (`a = b`: aliasing) is rejected.
  * class attributes (`_struct = struct.Struct("<b")`) are folded from the class bodies; `struct` objects are used
    through `PyT.struct_pack / struct_unpack_from / struct_size`.
  * primitives of PyPreludeTypes.lean: `socket.inet_*`, `str.encode()`, `bytes.decode("utf-8", "replace")`,
    `bytes.split(sep, 1)`, `bytes * n`, `int(x)`, `isinstance(x, C)` (closed world: the subclasses of C in C's module),
    `type(a) is type(b)`, `NotImplemented`.
  * (frame object) property SETTERS (`Frame.data.setter` -> `Frame_data_set`); ABSTRACT methods and class variables without
    a value (`create_message`, `decode_message`, `frame_type`) are a parameter `env : PyT.Env` of every translated method of
    such a class (`self.create_message(d)` is `env "create_message" [self, d]`: result only, the callee is assumed not to
    assign slots of the frame); `**kwargs` is one more dict parameter; `S.pack_into(buf, off, *fields)` and `buf.append(x)`
    on a byte array CREATED in the same call (`bytearray(n)`, or the result of a property that returns such a fresh
    array): value semantics are sound there; `x += …` on a name bound to the content of a slot is rejected (it would
    change the object the slot holds).
  * (structures, W7c) data-class construction with DEFAULTS (`VersionInfo()`, `field(default_factory=C)` = `C()` built on the
    spot, inherited fields in data-class order); a default that does not fold (`SOFTWARE_VERSION`, computed from the
    installed package's version) is a PARAMETER `k_<NAME>` of the translated function; struct formats with several fields
    and byte strings (`PyT.struct_pack_into_s` / `struct_unpack_from_s`), `pack_into(buf, off, a, *it, b)`, tuple targets
    of more than five names, `text.split(".", k)`, `sep.join(…)`, `map(int | str, …)` consumed on the spot,
    `self.<slot>.<attribute>` for a slot annotated with a class of the repository (`self.frame.sender`).
"""
import ast
import os
import sys

sys.path.insert(0, os.path.dirname(os.path.abspath(__file__)))
import py2lean as B  # noqa: E402
from py2lean import EnumMember, StructFmt, Unsupported, indent, lean_str, lean_value  # noqa: E402

DT = "pyplumio/helpers/data_types.py"
STRUCT_CLASSES = ["SignedChar", "UnsignedChar", "Short", "UnsignedShort", "Int", "UnsignedInt", "Int64", "UInt64", "Float", "Double"]
OTHER_CLASSES = ["Undefined", "BitArray", "IPv4", "IPv6", "String", "VarBytes", "VarString"]
METHODS = ["__init__", "new", "unpack", "pack", "to_bytes", "size", "value", "from_bytes", "__eq__"]

TARGETS = []
for _c in STRUCT_CLASSES + OTHER_CLASSES:
    for _m in METHODS + (["next"] if _c == "BitArray" else []):
        TARGETS.append((DT, f"{_c}.{_m}"))
FR = "pyplumio/frames/__init__.py"
FRAME_METHODS = ["__init__", "new", "message", "message.setter", "data", "data.setter", "length", "__len__", "header", "bytes"]
for _m in FRAME_METHODS:
    TARGETS.append((FR, f"Frame.{_m}"))
PV = "pyplumio/structures/program_version.py"
NI = "pyplumio/structures/network_info.py"
TARGETS += [(PV, "ProgramVersionStructure.encode"), (PV, "ProgramVersionStructure.decode"),
            (NI, "NetworkInfoStructure.encode"), (NI, "NetworkInfoStructure.decode")]
TABLES = [(DT, "DATA_TYPES")]

B.EXCEPTIONS.setdefault("AttributeError", "AttributeError")

_orig_assigned_names = B.assigned_names


def assigned_names(stmts):
    """py2lean's list + `self` / object locals that a statement may re-bind (slot assignment, method call)"""
    out = _orig_assigned_names(stmts)
    for st in stmts:
        for n in ast.walk(st):
            if isinstance(n, ast.Name) and n.id in OBJ_NAMES and n.id not in out:
                out.append(n.id)
    return out


OBJ_NAMES = set()
B.assigned_names = assigned_names


class EmptyDict:
    """the default of a `**kwargs` parameter"""


EMPTY_DICT = EmptyDict()


def show_default(v):
    if isinstance(v, EmptyDict):
        return "{}"
    if isinstance(v, EnumMember):
        return f"{v.cls}.{v.name}"
    return repr(v)


_orig_lean_value = B.lean_value


def lean_value(v):  # noqa: F811
    if isinstance(v, EmptyDict):
        return "(V.dict [] [])"
    return _orig_lean_value(v)


def decorators(fn):
    out = []
    for d in fn.decorator_list:
        if isinstance(d, ast.Name):
            out.append(d.id)
        elif isinstance(d, ast.Attribute):
            out.append(d.attr)
    return out


def is_abstract_body(fn):
    body = [s for s in fn.body if not (isinstance(s, ast.Expr) and isinstance(s.value, ast.Constant))]
    return "abstractmethod" in decorators(fn) and not body


class TTranslator(B.Translator):
    def __init__(self, repo_root):
        super().__init__(repo_root)
        self.tables = {}

    def is_ext_name(self, mod, name, module):
        """`name` is imported from the external module `module` (`from dataclasses import field`)"""
        r = self.repo.resolve(mod, name)
        return bool(r and r[0] == "ext" and r[1] == module and r[2] == name)

    # ------------------------------------------------------------------ classes
    def class_of(self, mod, name):
        r = self.repo.resolve(mod, name)
        if r and r[0] == "def" and isinstance(r[2], ast.ClassDef):
            return r[1], r[2]
        return None

    def mro(self, mod, cls):
        """the chain of the repo's classes from `cls` up (single inheritance among them)"""
        out = [(mod, cls)]
        while True:
            nxt = []
            for b in cls.bases:
                if isinstance(b, ast.Subscript):
                    b = b.value
                if isinstance(b, ast.Name):
                    c = self.class_of(mod, b.id)
                    if c:
                        nxt.append(c)
            if not nxt:
                return out
            if len(nxt) > 1:
                raise Unsupported(f"class {cls.name}: several base classes from the repository")
            mod, cls = nxt[0]
            out.append((mod, cls))
            if len(out) > 12:
                raise Unsupported("base-class chain too long")

    def slots(self, mod, cls):
        """declared slots, base first"""
        out = []
        for m, c in reversed(self.mro(mod, cls)):
            found = False
            for st in c.body:
                if isinstance(st, ast.Assign) and len(st.targets) == 1 and isinstance(st.targets[0], ast.Name) \
                        and st.targets[0].id == "__slots__":
                    found = True
                    v = self.fold(m, st.value)
                    if isinstance(v, str):
                        v = (v,)
                    for s in v:
                        if s not in out:
                            out.append(s)
            if not found and self.class_kind(c) == "class" and any(isinstance(s, ast.FunctionDef) for s in c.body):
                raise Unsupported(f"class {c.name} has no __slots__ (instances with a __dict__ are outside the subset)")
        return out

    def member(self, mod, cls, name, after=None):
        """first definition of `name` along the chain (after class `after` for super()):
        ('method', mod, cls, node) | ('attr', mod, cls, value expr) | None"""
        chain = self.mro(mod, cls)
        if after is not None:
            idx = [c.name for _, c in chain].index(after.name)
            chain = chain[idx + 1:]
        want_setter = name.endswith(".setter")
        base = name[:-len(".setter")] if want_setter else name
        for m, c in chain:
            for st in c.body:
                if isinstance(st, (ast.FunctionDef, ast.AsyncFunctionDef)) and st.name == base:
                    is_setter = any(isinstance(d, ast.Attribute) and d.attr == "setter" for d in st.decorator_list)
                    if is_setter != want_setter:
                        continue
                    return ("method", m, c, st)
                if isinstance(st, ast.Assign) and len(st.targets) == 1 and isinstance(st.targets[0], ast.Name) \
                        and st.targets[0].id == name:
                    return ("attr", m, c, st.value)
        return None

    def needs_env(self, mod, cls):
        """does the class, as seen from itself, leave a method abstract / a class variable without a value?  Its
        translated methods then take the environment of those as a first parameter (`env : PyT.Env`)."""
        for m, c in self.mro(mod, cls):
            for st in c.body:
                if isinstance(st, ast.FunctionDef) and is_abstract_body(st):
                    found = self.member(mod, cls, st.name)
                    if found and found[0] == "method" and is_abstract_body(found[3]):
                        return True
        return False

    def classvar_without_value(self, mod, cls, name):
        """`name: ClassVar[...]` declared along the chain and never given a value there"""
        declared = False
        for m, c in self.mro(mod, cls):
            for st in c.body:
                if isinstance(st, ast.AnnAssign) and isinstance(st.target, ast.Name) and st.target.id == name:
                    ann = ast.unparse(st.annotation)
                    if st.value is not None:
                        return False
                    if ann.startswith("ClassVar"):
                        declared = True
                if isinstance(st, ast.Assign) and any(isinstance(t, ast.Name) and t.id == name for t in st.targets):
                    return False
        return declared

    def subclasses(self, mod, cls):
        """names of cls and of its subclasses defined in cls's module (closed world for isinstance)"""
        out = []
        for node in mod.tree.body:
            if isinstance(node, ast.ClassDef):
                try:
                    if any(c is cls for _, c in self.mro(mod, node)):
                        out.append(node.name)
                except Unsupported:
                    pass
        return out

    # ------------------------------------------------------------------ specialised methods
    def method(self, mod, cls, name, after=None):
        """translate method `name` as seen from concrete class `cls` (definition looked up along the chain)"""
        if name == "new":
            return self.constructor(mod, cls)
        found = self.member(mod, cls, name, after)
        if not found or found[0] != "method":
            raise Unsupported(f"{cls.name}.{name}: no such method")
        _, dmod, dcls, node = found
        normal = self.member(mod, cls, name)
        suffix = "" if (normal and normal[3] is node) else f"_via_{dcls.name}"
        key = (mod.rel, f"{cls.name}.{name}{suffix}")
        if key in self.funcs:
            info = self.funcs[key]
            if info.get("failed"):
                raise Unsupported(f"depends on {key[1]}, which is outside the subset")
            if info.get("busy"):
                raise Unsupported(f"{key[1]}: recursion is outside the subset")
            return info
        if is_abstract_body(node):
            raise Unsupported(f"{cls.name}.{name} is abstract")
        lname = f"{cls.name}_{name.strip('_') if name.startswith('__') else name.lstrip('_')}{suffix}".replace(".setter", "_set")
        if name.startswith("_") and not name.startswith("__"):
            lname = f"{cls.name}_p_{name.lstrip('_')}{suffix}"
        if lname in self.names_used and self.names_used[lname] != key:
            raise Unsupported(f"{key[1]}: Lean name {lname} already used")
        self.names_used[lname] = key
        decos = decorators(node)
        kind = "classmethod" if "classmethod" in decos else ("static" if "staticmethod" in decos else
                                                             ("property" if "property" in decos else "method"))
        if any(d == "setter" for d in decos):
            kind = "setter"
        if kind == "static":
            raise Unsupported(f"{key[1]}: static method")
        info = dict(rel=mod.rel, qual=key[1], lean=lname, busy=True, is_async=isinstance(node, ast.AsyncFunctionDef),
                    cls=dcls, kind=kind, concrete=(mod, cls), has_self=(kind != "classmethod"), ret_class=None,
                    env=self.needs_env(mod, cls))
        self.funcs[key] = info
        a = node.args
        if a.vararg or a.kwonlyargs or a.posonlyargs:
            raise Unsupported(f"{key[1]}: *args / keyword-only parameters")
        params = [p.arg for p in a.args][1:]
        defaults = {}
        for p, d in zip(reversed(a.args), reversed(a.defaults)):
            defaults[p.arg] = self.fold(dmod, d)
        if a.kwarg:
            # `**kwargs`: one more parameter, the dict of the extra keyword arguments (callers pass a dict display)
            params.append(a.kwarg.arg)
            defaults[a.kwarg.arg] = EMPTY_DICT
        info["kwarg"] = a.kwarg.arg if a.kwarg else None
        info["params"], info["defaults"] = params, defaults
        info["needs_fuel"] = any(isinstance(n, ast.While) for n in ast.walk(node))
        fn = MTranslator(self, dmod, dcls, node, info)
        try:
            body = fn.translate()
        except Unsupported:
            info["failed"] = True
            raise
        info["needs_fuel"] = fn.needs_fuel
        info["mutates"] = fn.mutates
        info["busy"] = False
        info["kparams"] = list(fn.kparams)
        sig = (" (env : PyT.Env)" if info["env"] else "") + "".join(f" (k_{p} : V)" for p in info["kparams"]) + \
            ("" if kind == "classmethod" else " (v_self : V)") + "".join(f" (v_{p} : V)" for p in params)
        fuel = " (fuel : Nat)" if info["needs_fuel"] else ""
        ret = "PyM V" if kind == "classmethod" else "PyM (V × V)"
        dflt = ("; defaults: " + ", ".join(f"{k}={show_default(v)}" for k, v in defaults.items())) if defaults else ""
        if info["kparams"]:
            dflt += "; module constants that do not fold are parameters: " + ", ".join(info["kparams"])
        head = [f"/-- `{dmod.rel}`: `{dcls.name}.{name}` (line {node.lineno}) as seen from class `{cls.name}`"
                f" ({kind}){dflt} -/",
                f"def {lname}{fuel}{sig} : {ret} := do"]
        self.order.append((key, head + indent(body)))
        return info

    def constructor(self, mod, cls):
        """`C(args)`: `object.__new__(C)` then `C.__init__(self, args)`"""
        key = (mod.rel, f"{cls.name}.new")
        if key in self.funcs:
            info = self.funcs[key]
            if info.get("failed") or info.get("busy"):
                raise Unsupported(f"depends on {key[1]}, which is outside the subset")
            return info
        init = self.method(mod, cls, "__init__")
        slots = self.slots(mod, cls)
        lname = f"{cls.name}_new"
        self.names_used[lname] = key
        info = dict(rel=mod.rel, qual=key[1], lean=lname, busy=False, is_async=False, cls=cls, kind="constructor",
                    concrete=(mod, cls), has_self=False, params=init["params"], defaults=init["defaults"],
                    needs_fuel=init["needs_fuel"], ret_class=(mod, cls), env=init.get("env", False), kwarg=init.get("kwarg"))
        self.funcs[key] = info
        sig = (" (env : PyT.Env)" if info["env"] else "") + "".join(f" (v_{p} : V)" for p in info["params"])
        fuel = " (fuel : Nat)" if info["needs_fuel"] else ""
        args = "".join(f" v_{p}" for p in info["params"])
        body = [f"let v_self := PyT.newobj {lean_str(cls.name)} [{', '.join(lean_str(s) for s in slots)}]",
                f"let (_, v_self) ← {init['lean']}{' fuel' if info['needs_fuel'] else ''}{' env' if info['env'] else ''} v_self{args}",
                "pure v_self"]
        head = [f"/-- `{mod.rel}`: `{cls.name}(...)` = `object.__new__` (slots {slots}) + `__init__` -/",
                f"def {lname}{fuel}{sig} : PyM V := do"]
        self.order.append((key, head + indent(body)))
        return info

    def function(self, rel, qual):
        parts = qual.split(".", 1)
        if len(parts) == 2:
            mod = self.repo.module(rel)
            c = self.class_of(mod, parts[0])
            if c is None:
                raise Unsupported(f"{rel}: class {parts[0]} not found")
            return self.method(c[0], c[1], parts[1])
        return super().function(rel, qual)

    def table(self, rel, name):
        """a module-level tuple of classes -> the list of their names"""
        mod = self.repo.module(rel)
        node = mod.defs.get(name)
        if not isinstance(node, ast.Tuple) or not all(isinstance(e, ast.Name) and self.class_of(mod, e.id) for e in node.elts):
            raise Unsupported(f"{rel}: {name} is not a tuple of classes")
        self.tables[name] = ([e.id for e in node.elts], f"{rel}: {name}")

    # ------------------------------------------------------------------ output
    def emit(self):
        out = ["-- GENERATED by tools/py2lean_types.py from the repository's current source text. Do not edit.",
               "import PlumVerif.Model.PyPreludeNet",
               "set_option linter.unusedVariables false",
               "namespace PlumVerif.PyCodeTypes",
               "open PlumVerif.Py",
               "open PlumVerif",
               "",
               "/-! ### module-level constants, enum members and class tables, folded from the source -/", ""]
        for lname in sorted(self.consts):
            text, origin = self.consts[lname]
            out.append(f"/-- {origin} -/")
            out.append(f"def {lname} : V := {text}")
        for lname in sorted(self.enums):
            vals, origin = self.enums[lname]
            out.append(f"/-- {origin}: the member values -/")
            out.append(f"def {lname} : List Int := [{', '.join(str(v) for v in vals)}]")
        for name in sorted(self.tables):
            vals, origin = self.tables[name]
            out.append(f"/-- {origin}: the class names -/")
            out.append(f"def t_{name} : List String := [{', '.join(lean_str(v) for v in vals)}]")
        out += ["", "/-! ### functions and methods -/", ""]
        for key, block in self.order:
            out += block + [""]
        out += ["/-! ### dispatch for the line-protocol driver (`pyt <function> <fuel> <args…>`; a method takes the",
                "instance first and answers the tuple (result, instance afterwards)) -/", "",
                "def call (name : String) (fuel : Nat) (args : List V) : Option (PyM V) :=",
                "  match name, args with"]
        for key, _ in self.order:
            info = self.funcs[key]
            if info["is_async"]:
                continue
            n = len(info["params"]) + (1 if info["has_self"] else 0) + len(info.get("kparams", []))
            pat = "[" + ", ".join(f"a{i}" for i in range(n)) + "]"
            app = info["lean"] + (" fuel" if info["needs_fuel"] else "") + (" PyT.testEnv" if info.get("env") else "") + \
                "".join(f" a{i}" for i in range(n))
            if info["has_self"]:
                app = f"do let (r, s) ← {app}; pure (V.tuple [r, s])"
            out.append(f"  | {lean_str(info['qual'])}, {pat} => some ({app})")
        out += ["  | _, _ => none", "",
                "/-- the functions translated from the source, in dependency order -/",
                "def functions : List String := [" + ", ".join(lean_str(self.funcs[k]["qual"]) for k, _ in self.order) + "]",
                "", "end PlumVerif.PyCodeTypes", ""]
        return "\n".join(out)


class MTranslator(B.FnTranslator):
    """function / method body with `self`, object locals and the class-level primitives"""

    def __init__(self, tr, mod, cls, node, info):
        super().__init__(tr, mod, cls, node, info)
        self.vclass = {}          # local name -> (mod, ClassDef): static class of an object-valued local
        self.mutates = False      # the method assigns a slot of `self` (directly or through a method it calls)
        self.kind = info.get("kind", "function")
        self.concrete = info.get("concrete")
        self.fresh_bufs = set()   # locals bound to a bytearray created in this call (mutation cannot be seen elsewhere)
        self.alias_names = set()  # locals bound to the content of a slot / the result of a property (may alias a slot)
        self.kparams = []         # module constants that do not fold: parameters of the translated function
        if self.kind in ("method", "property", "setter"):
            self.bound.add("self")
            self.vclass["self"] = self.concrete
        a = node.args
        for p in a.args[1:] if self.concrete else a.args:
            c = self.ann_class(p.annotation)
            if c:
                self.vclass[p.arg] = c

    def P(self, name):
        return name if name.startswith("PyT.") else "Py." + name

    def ann_class(self, ann):
        if isinstance(ann, ast.Name):
            c = self.tr.class_of(self.mod, ann.id)
            if c and self.tr.class_kind(c[1]) in ("class", "dataclass"):
                return c
        if isinstance(ann, ast.Constant) and isinstance(ann.value, str):
            c = self.tr.class_of(self.mod, ann.value)
            if c and self.tr.class_kind(c[1]) in ("class", "dataclass"):
                return c
        return None

    # ------------------------------------------------------------------ entry
    def translate(self):
        saved = set(OBJ_NAMES)
        OBJ_NAMES.clear()
        OBJ_NAMES.update(self.vclass)
        try:
            for n in ast.walk(self.node):
                if isinstance(n, (ast.FunctionDef, ast.AsyncFunctionDef)) and n is not self.node:
                    self.fail(n, "nested function")
                if isinstance(n, (ast.Global, ast.Nonlocal, ast.Yield, ast.YieldFrom, ast.With, ast.AsyncWith, ast.AsyncFor,
                                  ast.Delete, ast.Assert, ast.Match)):
                    self.fail(n, type(n).__name__)
            self.check_self()
            if self.kind in ("method", "property", "setter"):
                self.ret = lambda atom: [f"pure ({atom}, v_self)"]
                end = lambda: ["pure (V.none, v_self)"]
            else:
                self.ret = lambda atom: [f"pure {atom}"]
                end = lambda: ["pure V.none"]
            self.cont = None
            self.brk = None
            return self.block(list(self.node.body), end)
        finally:
            OBJ_NAMES.clear()
            OBJ_NAMES.update(saved)

    def set_class(self, name, c):
        if c:
            self.vclass[name] = c
            OBJ_NAMES.add(name)
        elif name in self.vclass and name != "self":
            del self.vclass[name]
            OBJ_NAMES.discard(name)

    def check_self(self):
        """`self` / `cls` only as `self.x`, `self.m(...)`, `cls()`; never as a value of its own (aliasing)"""
        if not self.concrete:
            return
        first = self.node.args.args[0].arg
        ok = set()
        for n in ast.walk(self.node):
            if isinstance(n, ast.Attribute) and isinstance(n.value, ast.Name) and n.value.id == first:
                ok.add(id(n.value))
            if isinstance(n, ast.Call) and isinstance(n.func, ast.Name) and n.func.id == first and self.kind == "classmethod":
                ok.add(id(n.func))
            if isinstance(n, ast.Call) and isinstance(n.func, ast.Name) and n.func.id == "hasattr" and n.args \
                    and isinstance(n.args[0], ast.Name):
                ok.add(id(n.args[0]))
            if isinstance(n, ast.Call) and isinstance(n.func, ast.Name) and n.func.id == "type" and len(n.args) == 1 \
                    and isinstance(n.args[0], ast.Name):
                ok.add(id(n.args[0]))
        for n in ast.walk(self.node):
            if isinstance(n, ast.Name) and n.id == first and id(n) not in ok:
                self.fail(n, f"use of `{first}` as a value (only {first}.<attribute> / {first}.<method>(...) / cls())")

    # ------------------------------------------------------------------ static classes of expressions
    def ctype(self, n):
        if isinstance(n, ast.Name):
            return self.vclass.get(n.id)
        if isinstance(n, ast.Call):
            f = n.func
            if isinstance(f, ast.Name):
                if f.id == "cls" and self.kind == "classmethod":
                    return self.concrete
                if f.id not in self.bound:
                    c = self.tr.class_of(self.mod, f.id)
                    if c and self.tr.class_kind(c[1]) in ("class", "dataclass"):
                        return c
            if isinstance(f, ast.Attribute):
                tgt = self.method_target(f)
                if tgt and tgt[0] == "classmethod":
                    info = self.tr.method(tgt[1][0], tgt[1][1], f.attr)
                    return info.get("ret_class")
            return None
        if isinstance(n, ast.Attribute):
            c = self.ctype(n.value)
            if c and self.tr.class_kind(c[1]) == "class" and n.attr in self.tr.slots(*c):
                # a slot annotated with a class of the repository (`frame: Frame` of the structures' mixin)
                for m, k in self.tr.mro(*c):
                    for st in k.body:
                        if isinstance(st, ast.AnnAssign) and isinstance(st.target, ast.Name) and st.target.id == n.attr:
                            saved = self.mod
                            self.mod = m
                            try:
                                return self.ann_class(st.annotation)
                            finally:
                                self.mod = saved
                return None
            if c and self.tr.class_kind(c[1]) == "dataclass":
                for m, k in self.tr.mro(*c):
                    for st in k.body:
                        if isinstance(st, ast.AnnAssign) and isinstance(st.target, ast.Name) and st.target.id == n.attr:
                            saved = self.mod
                            self.mod = m
                            try:
                                return self.ann_class(st.annotation)
                            finally:
                                self.mod = saved
        return None

    def method_target(self, f):
        """f = <recv>.<attr>: ('classmethod', class) for `C.m` / `cls.m`; ('instance', class) for an object receiver"""
        v = f.value
        if isinstance(v, ast.Name) and v.id not in self.bound:
            if v.id == "cls" and self.kind == "classmethod":
                return ("classmethod", self.concrete)
            c = self.tr.class_of(self.mod, v.id)
            if c and self.tr.class_kind(c[1]) == "class":
                m = self.tr.member(c[0], c[1], f.attr)
                if m and m[0] == "method" and "classmethod" in decorators(m[3]):
                    return ("classmethod", c)
                return None
        c = self.ctype(v)
        if c and self.tr.class_kind(c[1]) == "class":
            return ("instance", c)
        return None

    # ------------------------------------------------------------------ expressions
    def e_Name(self, n):
        if n.id == "NotImplemented" and n.id not in self.bound:
            return [], "PyT.notImplemented"
        return super().e_Name(n)

    def struct_of(self, n):
        """a struct format if the expression denotes a `struct.Struct` object (class attribute / module constant)"""
        if isinstance(n, ast.Attribute) and isinstance(n.value, ast.Name) and n.value.id == "self" and self.concrete \
                and self.kind != "classmethod":
            m = self.tr.member(self.concrete[0], self.concrete[1], n.attr)
            if m and m[0] == "attr":
                try:
                    v = self.tr.fold(m[1], m[3])
                except Unsupported:
                    return None
                if isinstance(v, StructFmt):
                    return v
        if isinstance(n, ast.Name) and n.id not in self.bound:
            r = self.tr.repo.resolve(self.mod, n.id)
            if r and r[0] == "def" and not isinstance(r[2], (ast.FunctionDef, ast.AsyncFunctionDef, ast.ClassDef)):
                try:
                    v = self.tr.fold(r[1], r[2])
                except Unsupported:
                    return None
                if isinstance(v, StructFmt):
                    return v
        return None

    def recv(self, node):
        """evaluate an object-valued receiver: (lines, atom, name to rebind or None)"""
        if isinstance(node, ast.Name) and node.id in self.vclass:
            return [], "v_" + node.id, node.id
        lines, a = self.expr(node)
        return lines, a, None

    def call_method(self, lines, info, obj_atom, rebind, args):
        fuel = " fuel" if info["needs_fuel"] else ""
        if info["needs_fuel"]:
            self.needs_fuel = True
        t = self.fresh()
        if not info.get("mutates", True):
            rebind = None             # the callee assigns no slot: the instance afterwards is the instance before
        tgt = f"v_{rebind}" if rebind else "_"
        if rebind == "self":
            self.mutates = True
        if rebind and self.nested:
            # inside a nested scope (lambda / short-circuit operand) the re-binding would not escape
            raise Unsupported(f"{self.mod.rel} in {self.info['qual']}: method call on `{rebind}` inside a nested scope")
        lines.append(f"let ({t}, {tgt}) ← {info['lean']}{fuel}{self.env_arg(info)} {obj_atom}" + "".join(" " + a for a in args))
        return lines, t

    def env_arg(self, info):
        if info.get("kparams"):
            raise Unsupported(f"{self.mod.rel} in {self.info['qual']}: call of {info['qual']}, which has constant parameters")
        if not info.get("env"):
            return ""
        if not self.info.get("env"):
            raise Unsupported(f"{self.mod.rel} in {self.info['qual']}: call of {info['qual']}, whose class has abstract members, "
                              "from code that has no environment for them")
        return " env"

    def env_call(self, lines, name, args):
        if not self.info.get("env"):
            raise Unsupported(f"{self.mod.rel} in {self.info['qual']}: abstract member {name} used from a class without environment")
        return lines, self.bind(lines, f"env {lean_str(name)} [{', '.join(['v_self'] + args)}]")

    def e_Attribute(self, n):
        # self.x / obj.x
        st = self.struct_of(n.value) if isinstance(n.value, (ast.Attribute, ast.Name)) else None
        if st is not None:
            if n.attr == "size":
                return [], lean_value(B.struct.calcsize(st.fmt))
            self.fail(n, f"attribute .{n.attr} of a struct object")
        c = self.ctype(n.value)
        if c is not None:
            kind = self.tr.class_kind(c[1])
            if kind == "dataclass":
                lines, a = self.expr(n.value)
                return lines, self.bind(lines, f"PyT.getattr {a} {lean_str(n.attr)}")
            m = self.tr.member(c[0], c[1], n.attr)
            if m and m[0] == "method":
                if "property" not in decorators(m[3]):
                    self.fail(n, f"bound method .{n.attr} used as a value")
                info = self.tr.method(c[0], c[1], n.attr)
                lines, a, rebind = self.recv(n.value)
                return self.call_method(lines, info, a, rebind, [])
            if m and m[0] == "attr":
                try:
                    v = self.tr.fold(m[1], m[3])
                except Unsupported as e:
                    self.fail(n, f"class attribute .{n.attr}: {e}")
                if isinstance(v, StructFmt):
                    self.fail(n, "struct object used as a value")
                return [], lean_value(v)
            if n.attr not in self.tr.slots(*c):
                if isinstance(n.value, ast.Name) and n.value.id == "self" and self.tr.classvar_without_value(c[0], c[1], n.attr):
                    return self.env_call([], n.attr, [])
                self.fail(n, f"attribute .{n.attr}: neither a slot, a property nor a class attribute of {c[1].name}")
            lines, a, _ = self.recv(n.value)
            return lines, self.bind(lines, f"PyT.getattr {a} {lean_str(n.attr)}")
        if isinstance(n.value, ast.Name) and n.value.id in self.bound and n.attr.startswith("_") and not n.attr.startswith("__"):
            # a slot of an object whose class is not known statically (`other._value` after isinstance / hasattr)
            lines = []
            return lines, self.bind(lines, f"PyT.getattr v_{n.value.id} {lean_str(n.attr)}")
        return super().e_Attribute(n)

    def e_Compare(self, n):
        # type(a) is type(b)
        if len(n.ops) == 1 and isinstance(n.ops[0], (ast.Is, ast.IsNot)):
            l, r = n.left, n.comparators[0]
            if all(isinstance(x, ast.Call) and isinstance(x.func, ast.Name) and x.func.id == "type" and len(x.args) == 1
                   and "type" not in self.bound for x in (l, r)):
                l1, a = self.expr(l.args[0])
                l2, b = self.expr(r.args[0])
                lines = l1 + l2
                t = self.bind(lines, f"PyT.sameType {a} {b}")
                if isinstance(n.ops[0], ast.IsNot):
                    t = self.bind(lines, f"Py.not {t}")
                return lines, t
        return super().e_Compare(n)

    def e_BinOp(self, n):
        if isinstance(n.op, ast.Mult) and isinstance(n.left, ast.Constant) and isinstance(n.left.value, bytes):
            l1, a = self.expr(n.left)
            l2, b = self.expr(n.right)
            lines = l1 + l2
            return lines, self.bind(lines, f"PyT.bytes_repeat {a} {b}")
        return super().e_BinOp(n)

    # ------------------------------------------------------------------ calls
    def call(self, n, awaited):
        f = n.func
        if awaited:
            return super().call(n, awaited)
        if isinstance(f, ast.Name) and f.id == "map" and f.id not in self.bound and self.tr.repo.resolve(self.mod, "map") is None \
                and len(n.args) == 2 and not n.keywords and isinstance(n.args[0], ast.Name) and n.args[0].id in ("int", "str") \
                and n.args[0].id not in self.bound and self.tr.repo.resolve(self.mod, n.args[0].id) is None:
            # map(int, xs) / map(str, xs): accepted only where it is consumed on the spot (star-argument, join)
            if getattr(self, "map_ok", None) != id(n):
                self.fail(n, "map(...) other than as a star-argument / the argument of join (lazy iterator)")
            lines, a = self.expr(n.args[1])
            return lines, self.bind(lines, f"PyT.map_{n.args[0].id} {a}")
        if isinstance(f, ast.Attribute) and f.attr == "join" and isinstance(f.value, ast.Constant) and isinstance(f.value.value, str) \
                and len(n.args) == 1 and not n.keywords:
            if isinstance(n.args[0], ast.Call):
                self.map_ok = id(n.args[0])
            lines, a = self.expr(n.args[0])
            return lines, self.bind(lines, f"PyT.str_join {lean_value(f.value.value)} {a}")
        if isinstance(f, ast.Attribute) and f.attr == "split" and len(n.args) == 2 and not n.keywords \
                and isinstance(n.args[0], ast.Constant) and isinstance(n.args[0].value, str) \
                and isinstance(n.args[1], ast.Constant) and isinstance(n.args[1].value, int):
            lines, a = self.expr(f.value)
            return lines, self.bind(lines, f"PyT.str_split {a} {lean_value(n.args[0].value)} {lean_value(n.args[1].value)}")
        if isinstance(f, ast.Name) and f.id not in self.bound:
            if f.id == "cls" and self.kind == "classmethod":
                return self.construct(n, self.concrete)
            if f.id == "hasattr" and len(n.args) == 2 and isinstance(n.args[1], ast.Constant) and isinstance(n.args[1].value, str) \
                    and not n.keywords and self.tr.repo.resolve(self.mod, "hasattr") is None:
                lines, a = self.expr(n.args[0])
                t = self.fresh()
                lines.append(f"let {t} := PyT.hasattr {a} {lean_str(n.args[1].value)}")
                return lines, t
            if f.id == "isinstance" and len(n.args) == 2 and isinstance(n.args[1], ast.Name) and not n.keywords:
                c = self.tr.class_of(self.mod, n.args[1].id)
                if c is None:
                    self.fail(n, "isinstance with something other than a class of the repository")
                lines, a = self.expr(n.args[0])
                names = self.tr.subclasses(c[0], c[1])
                t = self.fresh()
                lines.append(f"let {t} := PyT.isinstanceOf {a} [{', '.join(lean_str(x) for x in names)}]")
                return lines, t
            if f.id == "int" and len(n.args) == 1 and not n.keywords and self.tr.repo.resolve(self.mod, "int") is None:
                lines, a = self.expr(n.args[0])
                return lines, self.bind(lines, f"PyT.int_of {a}")
            c = self.tr.class_of(self.mod, f.id)
            if c and self.tr.class_kind(c[1]) == "class":
                return self.construct(n, c)
        if isinstance(f, ast.Attribute):
            # super().m(...)
            if isinstance(f.value, ast.Call) and isinstance(f.value.func, ast.Name) and f.value.func.id == "super" \
                    and not f.value.args and self.concrete and self.kind in ("method", "property", "setter"):
                info = self.tr.method(self.concrete[0], self.concrete[1], f.attr, after=self.cls)
                lines, args = self.args_for(n, info)
                return self.call_method(lines, info, "v_self", "self", args)
            # struct objects
            st = self.struct_of(f.value)
            if st is not None:
                if f.attr == "pack" and len(n.args) == 1 and not n.keywords:
                    lines, a = self.expr(n.args[0])
                    return lines, self.bind(lines, f"PyT.struct_pack {lean_str(st.fmt)} {a}")
                if f.attr == "unpack_from" and len(n.args) == 1 and not n.keywords:
                    lines, a = self.expr(n.args[0])
                    prim = "struct_unpack_from" if len(st.fmt) == 2 else "struct_unpack_from_s"   # one field / several, byte strings
                    return lines, self.bind(lines, f"PyT.{prim} {lean_str(st.fmt)} {a}")
                self.fail(n, f"struct method .{f.attr} / argument form")
            # socket.*
            if isinstance(f.value, ast.Name) and f.value.id not in self.bound and self.tr.is_ext(self.mod, f.value.id, "socket"):
                return self.socket_call(n, f.attr)
            tgt = self.method_target(f)
            if tgt and tgt[0] == "classmethod":
                info = self.tr.method(tgt[1][0], tgt[1][1], f.attr)
                lines, args = self.args_for(n, info)
                fuel = " fuel" if info["needs_fuel"] else ""
                return lines, self.bind(lines, f"{info['lean']}{fuel}{self.env_arg(info)}" + "".join(" " + a for a in args))
            if tgt and tgt[0] == "instance":
                c = tgt[1]
                m = self.tr.member(c[0], c[1], f.attr)
                if not m or m[0] != "method":
                    self.fail(n, f"{c[1].name} has no method {f.attr}")
                if is_abstract_body(m[3]):
                    # an abstract method of the class as seen from here: a parameter of the translation
                    if not (isinstance(f.value, ast.Name) and f.value.id == "self") or n.keywords:
                        self.fail(n, f"abstract method {f.attr} on something other than self / with keywords")
                    lines, atoms = self.seq(n.args)
                    return self.env_call(lines, f.attr, atoms)
                info = self.tr.method(c[0], c[1], f.attr)
                if info["kind"] != "method":
                    self.fail(n, f"call of {info['kind']} {f.attr}")
                lines, a, rebind = self.recv(f.value)
                l2, args = self.args_for(n, info)
                return self.call_method(lines + l2, info, a, rebind, args)
            # methods of plain values
            if f.attr == "encode" and not n.args and not n.keywords:
                lines, a = self.expr(f.value)
                return lines, self.bind(lines, f"PyT.str_encode {a}")
            if f.attr == "decode" and len(n.args) == 2 and not n.keywords and all(isinstance(x, ast.Constant) for x in n.args) \
                    and [x.value for x in n.args] == ["utf-8", "replace"]:
                lines, a = self.expr(f.value)
                return lines, self.bind(lines, f"PyT.bytes_decode_replace {a}")
            if f.attr == "split" and len(n.args) == 2 and not n.keywords and isinstance(n.args[1], ast.Constant) and n.args[1].value == 1:
                lines, a = self.expr(f.value)
                l2, b = self.expr(n.args[0])
                lines += l2
                return lines, self.bind(lines, f"PyT.bytes_split1 {a} {b}")
        return super().call(n, awaited)

    def class_call(self, n, m, cls):
        if self.tr.class_kind(cls) != "dataclass":
            return super().class_call(n, m, cls)
        fields = self.tr.dataclass_fields(m, cls)
        names = [k for k, _, _ in fields]
        if any(isinstance(a, ast.Starred) for a in n.args) or any(k.arg is None for k in n.keywords):
            self.fail(n, f"{cls.name}(...): star-arguments")
        if len(n.args) > len(names):
            self.fail(n, "too many arguments")
        lines, atoms = self.seq(n.args)
        given = dict(zip(names, atoms))
        for k in n.keywords:
            if k.arg not in names or k.arg in given:
                self.fail(n, f"keyword argument {k.arg}")
            l, a = self.expr(k.value)
            lines += l
            given[k.arg] = a
        for k, fm, dflt in fields:
            if k in given:
                continue
            if dflt is None:
                self.fail(n, f"{cls.name}(...): field {k} has no default and is not given")
            given[k] = self.default_atom(n, lines, fm, dflt)
        return lines, f"({self.P('mkobj')} {lean_str(cls.name)} [" + ", ".join(f"({lean_str(k)}, {given[k]})" for k in names) + "])"

    def default_atom(self, n, lines, fm, dflt):
        """the default of a data-class field: folded; `field(default_factory=C)` = C() built here; a module constant that
        does not fold = a parameter of the translated function"""
        if isinstance(dflt, ast.Call) and isinstance(dflt.func, ast.Name) and dflt.func.id == "field" \
                and self.tr.is_ext_name(fm, "field", "dataclasses"):
            if dflt.args or len(dflt.keywords) != 1 or dflt.keywords[0].arg != "default_factory" \
                    or not isinstance(dflt.keywords[0].value, ast.Name):
                self.fail(n, "field(...) other than field(default_factory=<data class>)")
            c = self.tr.class_of(fm, dflt.keywords[0].value.id)
            if not c or self.tr.class_kind(c[1]) != "dataclass":
                self.fail(n, "default_factory that is not a data class of the repository")
            l, a = self.class_call(ast.Call(func=dflt.keywords[0].value, args=[], keywords=[], lineno=n.lineno), c[0], c[1])
            lines += l
            return a
        try:
            return lean_value(self.tr.fold(fm, dflt))
        except Unsupported:
            if isinstance(dflt, ast.Name):
                r = self.tr.repo.resolve(fm, dflt.id)
                if r and r[0] == "def" and not isinstance(r[2], (ast.FunctionDef, ast.AsyncFunctionDef, ast.ClassDef)):
                    if dflt.id not in self.kparams:
                        self.kparams.append(dflt.id)
                    return "k_" + dflt.id
            self.fail(n, "a field default that neither folds nor is a module constant")

    def args_for(self, n, info):
        """positional / keyword arguments of a call matched against the parameters (defaults folded)"""
        params = info["params"]
        if len(n.args) > len(params):
            self.fail(n, "too many arguments")
        lines, atoms = self.seq(n.args)
        given = dict(zip(params, atoms))
        for k in n.keywords:
            if k.arg is None or k.arg not in params or k.arg in given:
                self.fail(n, f"keyword argument {k.arg}")
            l, a = self.expr(k.value)
            lines += l
            given[k.arg] = a
        full = []
        for p in params:
            if p in given:
                full.append(given[p])
            elif p in info["defaults"]:
                full.append(lean_value(info["defaults"][p]))
            else:
                self.fail(n, f"missing argument {p}")
        return lines, full

    def construct(self, n, c):
        info = self.tr.constructor(c[0], c[1])
        lines, args = self.args_for(n, info)
        fuel = " fuel" if info["needs_fuel"] else ""
        if info["needs_fuel"]:
            self.needs_fuel = True
        return lines, self.bind(lines, f"{info['lean']}{fuel}{self.env_arg(info)}" + "".join(" " + a for a in args))

    def socket_call(self, n, attr):
        if n.keywords:
            self.fail(n, f"socket.{attr} with keywords")
        if attr in ("inet_aton", "inet_ntoa") and len(n.args) == 1:
            lines, a = self.expr(n.args[0])
            return lines, self.bind(lines, f"PyT.{attr} {a}")
        if attr in ("inet_pton", "inet_ntop") and len(n.args) == 2:
            fam = n.args[0]
            if not (isinstance(fam, ast.Attribute) and isinstance(fam.value, ast.Name) and fam.attr == "AF_INET6"
                    and self.tr.is_ext(self.mod, fam.value.id, "socket")):
                self.fail(n, f"socket.{attr} with a family other than socket.AF_INET6")
            lines, a = self.expr(n.args[1])
            return lines, self.bind(lines, f"PyT.{attr}6 {a}")
        self.fail(n, f"call of socket.{attr}")

    # ------------------------------------------------------------------ statements
    def stmt(self, st, rest, k, out):
        if isinstance(st, ast.Return) and st.value is not None and isinstance(st.value, ast.Name):
            c = self.vclass.get(st.value.id)
            if c:
                self.info["ret_class"] = c
            if st.value.id in self.fresh_bufs:
                self.info["returns_fresh"] = True
        if isinstance(st, ast.Expr) and isinstance(st.value, ast.Call) and isinstance(st.value.func, ast.Attribute):
            v, f = st.value, st.value.func
            # buf.append(x) on a byte array created in this call
            if f.attr == "append" and isinstance(f.value, ast.Name) and f.value.id in self.fresh_bufs and len(v.args) == 1 \
                    and not v.keywords:
                if self.nested:
                    self.fail(st, "mutation of a local inside a nested scope")
                out.append("-- " + self.src(st))
                lines, a = self.expr(v.args[0])
                out += lines
                out.append(f"let v_{f.value.id} ← PyT.bytearray_append v_{f.value.id} {a}")
                return False
            # S.pack_into(buf, offset, *fields) on a byte array created in this call
            stf = self.struct_of(f.value)
            if stf is not None and f.attr == "pack_into":
                if v.keywords or len(v.args) < 2 or not (isinstance(v.args[0], ast.Name) and v.args[0].id in self.fresh_bufs) \
                        or any(isinstance(a, ast.Starred) for a in v.args[:2]) or self.nested:
                    self.fail(st, "pack_into argument form (a byte array created in this call, offset, fields)")
                out.append("-- " + self.src(st))
                name = v.args[0].id
                if not any(isinstance(a, ast.Starred) for a in v.args) and "s" not in stf.fmt:
                    lines, atoms = self.seq(v.args[1:])
                    out += lines
                    out.append(f"let v_{name} ← PyT.struct_pack_into {lean_str(stf.fmt)} v_{name} {atoms[0]} [{', '.join(atoms[1:])}]")
                    return False
                # several kinds of fields / star-arguments: the argument list is built left to right, a starred iterable is
                # consumed at its place
                lines, off = self.expr(v.args[1])
                out += lines
                parts = []
                for a in v.args[2:]:
                    if isinstance(a, ast.Starred):
                        if isinstance(a.value, ast.Call):
                            self.map_ok = id(a.value)
                        lines, x = self.expr(a.value)
                        out += lines
                        t = self.fresh()
                        out.append(f"let {t} ← PyT.items {x}")
                        parts.append(t)
                    else:
                        lines, x = self.expr(a)
                        out += lines
                        parts.append(f"[{x}]")
                out.append(f"let v_{name} ← PyT.struct_pack_into_s {lean_str(stf.fmt)} v_{name} {off} ({' ++ '.join(parts) if parts else '[]'})")
                return False
        return super().stmt(st, rest, k, out)

    def is_fresh_expr(self, value):
        """does the expression create a byte array nobody else holds?"""
        if isinstance(value, ast.Call) and isinstance(value.func, ast.Name) and value.func.id == "bytearray" \
                and "bytearray" not in self.bound:
            return True
        if isinstance(value, ast.Attribute) and isinstance(value.value, ast.Name) and value.value.id in self.vclass:
            c = self.vclass[value.value.id]
            m = self.tr.member(c[0], c[1], value.attr)
            if m and m[0] == "method" and "property" in decorators(m[3]):
                return bool(self.tr.method(c[0], c[1], value.attr).get("returns_fresh"))
        return False

    def may_alias(self, value):
        return isinstance(value, ast.Attribute) and isinstance(value.value, ast.Name) and value.value.id in self.vclass

    def assign(self, st, out):
        target = st.targets[0] if isinstance(st, ast.Assign) and len(st.targets) == 1 else getattr(st, "target", None)
        value = getattr(st, "value", None)
        if isinstance(st, (ast.Assign, ast.AnnAssign)) and isinstance(target, ast.Attribute) and value is not None:
            if isinstance(target.value, ast.Name) and target.value.id in self.vclass:
                name = target.value.id
                lines, a = self.expr(value)
                out += lines
                out.append(f"let v_{name} ← PyT.setattr v_{name} {lean_str(target.attr)} {a}")
                if name == "self":
                    self.mutates = True
                return
            self.fail(st, "attribute assignment on something other than self / an object local")
        if isinstance(st, ast.Assign) and isinstance(target, ast.Tuple) and len(target.elts) > 5 \
                and all(isinstance(e, ast.Name) for e in target.elts) and not any(e.id in self.vclass for e in target.elts):
            lines, a = self.expr(value)
            out += lines
            t = self.fresh()
            out.append(f"let {t} ← PyT.unpack_list {len(target.elts)} {a}")
            for i, e in enumerate(target.elts):
                out.append(f"let v_{e.id} := PyT.nth {t} {i}")
                self.bound.add(e.id)
            return
        if isinstance(st, (ast.Assign, ast.AnnAssign)) and isinstance(target, ast.Name) and value is not None:
            if isinstance(value, ast.Name) and value.id in self.vclass:
                self.fail(st, f"`{target.id} = {value.id}`: a second name for an object (aliasing is outside the subset)")
            c = self.ctype(value)
            if c is None and isinstance(st, ast.AnnAssign):
                c = self.ann_class(st.annotation)
            fresh = self.is_fresh_expr(value)
            super().assign(st, out)
            self.set_class(target.id, c)
            self.fresh_bufs.discard(target.id)
            self.alias_names.discard(target.id)
            if fresh:
                if self.nested or self.loop is not None:
                    self.fail(st, "byte array created inside a loop / nested scope")
                self.fresh_bufs.add(target.id)
            elif self.may_alias(value):
                self.alias_names.add(target.id)
            return
        if isinstance(st, ast.AugAssign) and isinstance(st.target, ast.Name) and st.target.id in self.alias_names:
            # `x = self.message; x += …` would change the byte array the slot holds
            self.fail(st, f"augmented assignment to `{st.target.id}`, which may be the very object a slot holds")
        super().assign(st, out)


def build(repo):
    tr = TTranslator(repo)
    errors = []
    for rel, qual in TARGETS:
        try:
            tr.function(rel, qual)
        except Unsupported as e:
            errors.append(f"{qual}: {e}")
        except (OSError, SyntaxError) as e:
            errors.append(f"{rel}: {qual}: {e}")
    for rel, name in TABLES:
        try:
            tr.table(rel, name)
        except (Unsupported, OSError, SyntaxError) as e:
            errors.append(f"{name}: {e}")
    return tr, errors


def main():
    if len(sys.argv) != 3:
        print(__doc__)
        return 2
    repo, outdir = sys.argv[1], sys.argv[2]
    tr, errors = build(repo)
    for e in errors:
        print("py2lean_types: " + e)
    if errors:
        print(f"py2lean_types: {len(errors)} function(s) outside the subset are NOT in Generated/PyCodeTypes.lean: the tie "
              "theorems about them cannot be re-checked against this source")
    text = tr.emit()
    path = os.path.join(outdir, "PyCodeTypes.lean")
    try:
        with open(path) as f:
            if f.read() == text:
                print(f"py2lean_types: {len(tr.order)} functions, unchanged")
                return 1 if errors else 0
    except FileNotFoundError:
        pass
    os.makedirs(outdir, exist_ok=True)
    with open(path, "w") as f:
        f.write(text)
    print(f"py2lean_types: {len(tr.order)} functions written to {path}")
    return 1 if errors else 0


if __name__ == "__main__":
    sys.exit(main())

#!/usr/bin/env python3
"""Code translator: Python source text of /repo's byte-level core functions -> Lean definitions.

  py2lean.py <repo> <outdir>          writes <outdir>/PyCode.lean (content-compared)

The translation is syntax-directed, statement by statement, over a restricted subset of Python; the
meaning of every primitive lives in lean/PlumVerif/Model/PyPrelude.lean.  The source is read with
`ast` only (pyplumio is never imported).  Anything outside the subset raises `Unsupported` naming the
function, the line and the construct: that function (and every function that calls it) is then LEFT OUT of
the output, never guessed and never replaced by a hand-written body, and the translator exits non-zero; the tie
theorems about a missing definition no longer build (check.py reports the code tie of that property as broken).

Shape of the output (all in namespace PlumVerif.PyCode, values are `Py.V`, results `Py.PyM V`):
  * expressions are flattened to A-normal form in Python's evaluation order (`let tN <- Py.op a b`);
  * `x = e` rebinding is shadowing; the variables assigned inside `if` / `for` / `while` / `try` are
    threaded as a tuple; an `if` containing return / continue / break gets the rest of the block copied
    into both branches (continuation passing);
  * `while` becomes `Py.whileLoop fuel ...`; a function that (transitively) contains a `while` takes a
    leading `fuel : Nat` and answers `outOfFuel` when a loop runs longer;
  * `async def` functions run in `Py.IOM` (state = the bytes still to arrive);
  * module-level constants / enum members are folded from the source and emitted as `def c_*`.
Round 8 (payload decoders of structures/*.py):
  * a method that reads / assigns attributes of `self` takes the instance `v_self` first and returns
    `(result, instance after the call)`; `self.x` is `Py.getattr`, `self.x = e` / `self.x += e` is `Py.setattr`;
    `v_self` is threaded through `if` / `for` like any assigned local; any other use of `self` is rejected;
  * a generator function (`yield <value>` statements) is translated EAGERLY to a function returning the list of
    yielded values; a call of one is accepted only as the argument of `list(...)` / `dict(...)`;
  * `*args` parameters (the extra positional arguments of a call as a tuple), dict displays with constant string keys,
    `d1 |= d2` on dicts as a value operation (aliasing is not modelled), `x.attr` of a value (`Py.getattr`);
  * module-level instances of data classes (`THERMOSTAT_PARAMETERS`) are folded from their constructor calls (C3
    linearisation of the bases for the field defaults); a field whose value is outside the value domain (float, string
    enum) is left out and the object marked partial (reading such a field answers `unsupported`);
  * a read of a local that no path has assigned is `Py.unboundLocal` (UnboundLocalError); `if A and B:` with assignment
    expressions in the operands is `if A: (if B: …)`; a variable first assigned inside a `for` body and never used
    outside the loop is local to one iteration;
  * TRUSTED primitive: `<device>.get_nowait(name, default)` (contract in Model/PyPreludeStruct.lean).
Round 8, continued (sensor sections):
  * `try: S  finally: F` where S assigns nothing and F has no return / continue / break / raise: the outcome of S (fell
    through / returned / raised) is a value `PyM (Option V)` computed BEFORE F; F runs; then the outcome takes effect;
  * TRUSTED primitive `X.from_bytes(data, offset)` for a struct-backed wire type X of helpers/data_types.py
    (`Py.wire_from_bytes "X" fmt`): the format is folded from `class X(BuiltInDataType[...]): _struct = struct.Struct(fmt)`
    in the SOURCE (a class body holding anything else is rejected); contract = Props/TieTypes.lean (class translator);
  * `math.isnan(x)`; a wire float is `V.float width bits` (only `isnan` and `> 0` are defined on it).
Round 8, third leg (schedules):
  * comprehensions with several `for` clauses (`Py.listComp` per clause, the inner lists concatenated by `Py.flatten`);
    `bytearray(<generator expression>)`: every item goes through `Py.byteItem` as it is produced (the constructor consumes
    the generator item by item); `CONST.index(x)` on a folded tuple; `int(x)`;
  * `xs.append(e)` as a statement, on a local that is assigned exactly once, from a list display / comprehension of this
    function, and that is not read (handed out, aliased) before the last statement that appends to it has finished;
  * `try: S  except E: H` where S falls through and every path of H returns / raises: the outcome is a `Sum`;
  * decorators: `@timeout(...)` ignored; a caching decorator (`@cache`, `@lru_cache`) accepted only when the declared
    return type is immutable (a cached function returning a list hands ONE shared object to all callers: rejected);
    every other decorator is rejected.
Round 8, fourth leg (temperatures, statuses, outputs, lambda sensor, frame versions):
  * `x[k] = v` as a statement on a local / parameter NAME (`Py.setitem`: a value operation on a dict, the name is rebound;
    the mutation seen through other references is not modelled — same stance as `|=`); chained comparisons (`a <= b < c`:
    `b` evaluated once, the second comparison only when the first holds); `a / b` (`Py.truediv`: the exact rational);
  * dict comprehensions (the list of `(key, value)` pairs, then `dict(...)`), tuple targets in comprehensions,
    `enumerate(seq)`, TRUSTED `int(math.pow(a, b))` as ONE primitive (`Py.int_math_pow`: base 2 only);
  * `with suppress(E…): S` (S one statement without return / continue / break) as `try: S  except (E…): pass`;
  * `list(<generator expression>)` / `dict(<generator expression>)` / a list comprehension whose element calls a method
    that assigns attributes of `self`: a `for` loop threading the instance and the list built so far (one clause, no condition).
Ignored (documented, trusted): `@timeout`, docstrings, type annotations,
`_LOGGER.*(...)` statements, the arguments (messages) of raised exceptions, `from e` chaining.
"""
import ast
import os
import struct
import sys

TARGETS = [
    ("pyplumio/frames/__init__.py", "bcc"),
    ("pyplumio/structures/schedules.py", "_split_byte"),
    ("pyplumio/structures/schedules.py", "_join_bits"),
    ("pyplumio/helpers/uid.py", "_crc16_byte"),
    ("pyplumio/helpers/uid.py", "_crc16"),
    ("pyplumio/helpers/uid.py", "_base5"),
    ("pyplumio/helpers/uid.py", "decode_uid"),
    ("pyplumio/helpers/parameter.py", "check_parameter"),
    ("pyplumio/helpers/parameter.py", "unpack_parameter"),
    ("pyplumio/frames/requests.py", "EcomaxParametersRequest.create_message"),
    ("pyplumio/frames/requests.py", "MixerParametersRequest.create_message"),
    ("pyplumio/frames/requests.py", "ThermostatParametersRequest.create_message"),
    ("pyplumio/frames/requests.py", "AlertsRequest.create_message"),
    ("pyplumio/frames/requests.py", "SetEcomaxParameterRequest.create_message"),
    ("pyplumio/frames/requests.py", "SetMixerParameterRequest.create_message"),
    ("pyplumio/frames/requests.py", "SetThermostatParameterRequest.create_message"),
    ("pyplumio/frames/requests.py", "EcomaxControlRequest.create_message"),
    ("pyplumio/devices/__init__.py", "is_known_device_type"),
    ("pyplumio/stream.py", "FrameReader._read_header"),
    ("pyplumio/stream.py", "FrameReader.read"),
    # round 8: payload decoders (structures/*.py)
    ("pyplumio/utils.py", "ensure_dict"),
    ("pyplumio/structures/ecomax_parameters.py", "EcomaxParametersStructure._ecomax_parameter"),
    ("pyplumio/structures/ecomax_parameters.py", "EcomaxParametersStructure.decode"),
    ("pyplumio/structures/mixer_parameters.py", "MixerParametersStructure._mixer_parameter"),
    ("pyplumio/structures/mixer_parameters.py", "MixerParametersStructure._mixer_parameters"),
    ("pyplumio/structures/mixer_parameters.py", "MixerParametersStructure.decode"),
    ("pyplumio/structures/thermostat_parameters.py", "ThermostatParametersStructure._thermostat_parameter"),
    ("pyplumio/structures/thermostat_parameters.py", "ThermostatParametersStructure._thermostat_parameters"),
    ("pyplumio/structures/thermostat_parameters.py", "ThermostatParametersStructure.decode"),
    # round 8 (W1b): the sensor sections
    ("pyplumio/structures/thermostat_sensors.py", "ThermostatSensorsStructure._unpack_thermostat_sensors"),
    ("pyplumio/structures/thermostat_sensors.py", "ThermostatSensorsStructure._thermostat_sensors"),
    ("pyplumio/structures/thermostat_sensors.py", "ThermostatSensorsStructure.decode"),
    ("pyplumio/structures/mixer_sensors.py", "MixerSensorsStructure._unpack_mixer_sensors"),
    ("pyplumio/structures/mixer_sensors.py", "MixerSensorsStructure._mixer_sensors"),
    ("pyplumio/structures/mixer_sensors.py", "MixerSensorsStructure.decode"),
    ("pyplumio/structures/fuel_level.py", "FuelLevelStructure.decode"),
    ("pyplumio/structures/boiler_load.py", "BoilerLoadStructure.decode"),
    ("pyplumio/structures/pending_alerts.py", "PendingAlertsStructure.decode"),
    ("pyplumio/structures/fan_power.py", "FanPowerStructure.decode"),
    ("pyplumio/structures/boiler_power.py", "BoilerPowerStructure.decode"),
    ("pyplumio/structures/fuel_consumption.py", "FuelConsumptionStructure.decode"),
    ("pyplumio/structures/output_flags.py", "OutputFlagsStructure.decode"),
    # round 8 (W1c): schedules
    ("pyplumio/structures/schedules.py", "SchedulesStructure._unpack_schedule"),
    ("pyplumio/structures/schedules.py", "SchedulesStructure.decode"),
    ("pyplumio/structures/schedules.py", "SchedulesStructure.encode"),
    # round 8 (W1d): the sensor sections that needed item assignment / dict comprehensions / suppress / true division
    ("pyplumio/structures/statuses.py", "StatusesStructure.decode"),
    ("pyplumio/structures/outputs.py", "OutputsStructure.decode"),
    ("pyplumio/structures/lambda_sensor.py", "LambdaSensorStructure.decode"),
    ("pyplumio/structures/temperatures.py", "TemperaturesStructure.decode"),
    ("pyplumio/structures/frame_versions.py", "FrameVersionsStructure._unpack_frame_versions"),
    ("pyplumio/structures/frame_versions.py", "FrameVersionsStructure.decode"),
]

# decorators.  `@timeout(...)` (asyncio deadline around a coroutine) is ignored: trusted, documented.  A CACHING decorator
# changes nothing observable only when the function is pure AND its result is immutable: two calls with equal arguments
# then return ONE object, and a caller that mutates it changes what every later caller gets — aliasing, outside a pure
# translation.  So a caching decorator is accepted only on a function whose declared return type is immutable; any
# other decorator is rejected (never silently ignored).
CACHING_DECORATORS = {"cache", "lru_cache", "cached_property"}
IMMUTABLE_RETURNS = {"bool", "int", "str", "bytes", "float", "None"}

EXCEPTIONS = {
    "KeyError": "KeyError", "ValueError": "ValueError", "IndexError": "IndexError", "TypeError": "TypeError",
    "OverflowError": "OverflowError", "OSError": "OSError", "IncompleteReadError": "IncompleteReadError",
    "FrameDataError": "FrameDataError", "ReadError": "ReadError", "ChecksumError": "ChecksumError",
    "UnknownDeviceError": "UnknownDeviceError", "UnknownFrameError": "UnknownFrameError",
}

BINOPS = {ast.BitXor: "xor", ast.BitAnd: "and", ast.BitOr: "or", ast.LShift: "lshift", ast.RShift: "rshift",
          ast.Add: "add", ast.Sub: "sub", ast.Mult: "mul", ast.FloorDiv: "floordiv", ast.Mod: "mod", ast.Div: "truediv"}
CMPOPS = {ast.Eq: "eq", ast.NotEq: "ne", ast.Lt: "lt", ast.LtE: "le", ast.Gt: "gt", ast.GtE: "ge",
          ast.In: "contains", ast.NotIn: "notContains"}


class Unsupported(Exception):
    pass


class StructFmt:
    def __init__(self, fmt):
        self.fmt = fmt


class EnumMember:
    def __init__(self, cls, name, value):
        self.cls, self.name, self.value = cls, name, value


class DataObj:
    """a module-level instance of a plain data class, folded from its constructor call: the fields whose values fold
    (`partial`: some field does not, e.g. a float — reading it in translated code is `unsupported`, never guessed)"""
    def __init__(self, cls, fields, partial):
        self.cls, self.fields, self.partial = cls, fields, partial


# ------------------------------------------------------------------------------------------------ modules

class Module:
    def __init__(self, repo, rel):
        self.repo, self.rel = repo, rel
        with open(os.path.join(repo, rel)) as f:
            self.src = f.read()
        self.lines = self.src.splitlines()
        self.tree = ast.parse(self.src)
        self.defs = {}      # name -> ast node (FunctionDef / ClassDef / value expr of an assignment)
        self.imports = {}   # name -> (module dotted name, original name | None)
        for st in self.tree.body:
            self._top(st)

    def _top(self, st):
        if isinstance(st, (ast.FunctionDef, ast.AsyncFunctionDef, ast.ClassDef)):
            self.defs[st.name] = st
        elif isinstance(st, ast.Assign) and len(st.targets) == 1 and isinstance(st.targets[0], ast.Name):
            self.defs[st.targets[0].id] = st.value
        elif isinstance(st, ast.AnnAssign) and isinstance(st.target, ast.Name) and st.value is not None:
            self.defs[st.target.id] = st.value
        elif isinstance(st, ast.ImportFrom) and st.level == 0:
            for a in st.names:
                self.imports[a.asname or a.name] = (st.module, a.name)
        elif isinstance(st, ast.Import):
            for a in st.names:
                self.imports[a.asname or a.name.split(".")[0]] = (a.name, None)
        elif isinstance(st, ast.If):
            # `if TYPE_CHECKING:` blocks only hold typing imports
            pass


class Repo:
    def __init__(self, root):
        self.root = root
        self.mods = {}

    def module(self, rel):
        if rel not in self.mods:
            self.mods[rel] = Module(self.root, rel)
        return self.mods[rel]

    def module_by_name(self, dotted):
        base = dotted.replace(".", "/")
        for rel in (base + ".py", base + "/__init__.py"):
            if os.path.exists(os.path.join(self.root, rel)):
                return self.module(rel)
        return None

    def resolve(self, mod, name, depth=0):
        """-> ('def', module, node) | ('ext', dotted, name) | None"""
        if depth > 8:
            return None
        if name in mod.defs:
            return ("def", mod, mod.defs[name])
        if name in mod.imports:
            dotted, orig = mod.imports[name]
            if orig is None:
                return ("ext", dotted, None)
            m = self.module_by_name(dotted)
            if m is None:
                return ("ext", dotted, orig)
            return self.resolve(m, orig, depth + 1)
        return None


# ------------------------------------------------------------------------------------------------ translator

def lean_str(s):
    out = []
    for ch in s:
        if ch == "\\":
            out.append("\\\\")
        elif ch == '"':
            out.append('\\"')
        elif ch == "\n":
            out.append("\\n")
        elif 32 <= ord(ch) < 127:
            out.append(ch)
        else:
            out.append("\\u{%x}" % ord(ch))
    return '"' + "".join(out) + '"'


def lean_value(v):
    if v is None:
        return "V.none"
    if isinstance(v, bool):
        return "(V.bool true)" if v else "(V.bool false)"
    if isinstance(v, int):
        return f"(V.int {v})" if v >= 0 else f"(V.int ({v}))"
    if isinstance(v, str):
        return f"(V.str {lean_str(v)})"
    if isinstance(v, bytes):
        return "(V.bytes [" + ", ".join(str(b) for b in v) + "])"
    if isinstance(v, tuple):
        return "(V.tuple [" + ", ".join(lean_value(x) for x in v) + "])"
    if isinstance(v, EnumMember):
        return lean_value(v.value)
    if isinstance(v, DataObj):
        kvs = [f"({lean_str(k)}, {lean_value(x)})" for k, x in v.fields] + (['("*", V.none)'] if v.partial else [])
        return f"(mkobj {lean_str(v.cls)} [" + ", ".join(kvs) + "])"
    raise Unsupported(f"constant of type {type(v).__name__}")


def indent(lines, n=2):
    return [(" " * n + ln) if ln else ln for ln in lines]


def has_transfer(stmts):
    """return / continue / break anywhere in the statements (not inside nested functions)"""
    for st in stmts:
        for n in ast.walk(st):
            if isinstance(n, (ast.Return, ast.Continue, ast.Break)):
                return True
    return False


def terminates(stmts):
    """syntactically: every path through the statements ends in return / raise / continue / break"""
    if not stmts:
        return False
    last = stmts[-1]
    if isinstance(last, (ast.Return, ast.Raise, ast.Continue, ast.Break)):
        return True
    if isinstance(last, ast.If):
        return terminates(last.body) and terminates(last.orelse)
    if isinstance(last, ast.Try):
        return terminates(last.body) and all(terminates(h.body) for h in last.handlers) and not last.finalbody and not last.orelse
    return False


def assigned_names(stmts):
    out = []

    def add(t):
        if isinstance(t, ast.Name):
            if t.id not in out:
                out.append(t.id)
        elif isinstance(t, (ast.Tuple, ast.List)):
            for e in t.elts:
                add(e)

    for st in stmts:
        for n in ast.walk(st):
            if isinstance(n, ast.Assign):
                for t in n.targets:
                    add(t)
                    if isinstance(t, ast.Subscript) and isinstance(t.value, ast.Name):
                        add(t.value)      # `x[k] = v` rebinds x (value operation)
            elif isinstance(n, (ast.AugAssign, ast.AnnAssign)):
                if not (isinstance(n, ast.AnnAssign) and n.value is None):
                    add(n.target)
            elif isinstance(n, ast.NamedExpr):
                add(n.target)
            elif isinstance(n, ast.For):
                pass
            elif is_append_stmt(n):
                add(n.value.func.value)
    return out


def is_append_stmt(n):
    """the statement `<name>.append(<one argument>)`"""
    return (isinstance(n, ast.Expr) and isinstance(n.value, ast.Call) and isinstance(n.value.func, ast.Attribute)
            and n.value.func.attr == "append" and isinstance(n.value.func.value, ast.Name) and len(n.value.args) == 1
            and not n.value.keywords)


class Translator:
    def __init__(self, repo_root):
        self.repo = Repo(repo_root)
        self.funcs = {}       # (rel, qualname) -> info dict
        self.order = []       # emitted function blocks in dependency order
        self.consts = {}      # lean name -> (lean value text, origin comment)
        self.enums = {}       # lean name -> (values, origin)
        self.names_used = {}

    # -------------------------------------------------------------------------------- constants
    def fold(self, mod, node, depth=0):
        if depth > 10:
            raise Unsupported("constant folding too deep")
        if isinstance(node, ast.Constant):
            return node.value
        if isinstance(node, ast.Name):
            r = self.repo.resolve(mod, node.id)
            if r and r[0] == "def" and not isinstance(r[2], (ast.FunctionDef, ast.AsyncFunctionDef, ast.ClassDef)):
                return self.fold(r[1], r[2], depth + 1)
            raise Unsupported(f"cannot fold name {node.id}")
        if isinstance(node, ast.UnaryOp) and isinstance(node.op, ast.USub):
            return -self.fold(mod, node.operand, depth + 1)
        if isinstance(node, ast.BinOp):
            a, b = self.fold(mod, node.left, depth + 1), self.fold(mod, node.right, depth + 1)
            if not (isinstance(a, int) and isinstance(b, int)):
                raise Unsupported("constant folding of a non-integer operation")
            ops = {ast.Add: lambda: a + b, ast.Sub: lambda: a - b, ast.Mult: lambda: a * b, ast.LShift: lambda: a << b,
                   ast.RShift: lambda: a >> b, ast.BitOr: lambda: a | b, ast.BitAnd: lambda: a & b, ast.BitXor: lambda: a ^ b,
                   ast.FloorDiv: lambda: a // b}
            if type(node.op) in ops:
                return ops[type(node.op)]()
            raise Unsupported("constant folding operator " + type(node.op).__name__)
        if isinstance(node, ast.Tuple):
            return tuple(self.fold(mod, e, depth + 1) for e in node.elts)
        if isinstance(node, ast.Call):
            f = node.func
            if (isinstance(f, ast.Attribute) and f.attr == "Struct" and isinstance(f.value, ast.Name)
                    and self.is_ext(mod, f.value.id, "struct") and len(node.args) == 1 and not node.keywords):
                fmt = self.fold(mod, node.args[0], depth + 1)
                if isinstance(fmt, str):
                    return StructFmt(fmt)
            if isinstance(f, ast.Name):
                r = self.repo.resolve(mod, f.id)
                if r and r[0] == "def" and isinstance(r[2], ast.ClassDef) and self.class_kind(r[2]) == "dataclass":
                    return self.fold_dataobj(mod, node, r[1], r[2], depth)
            raise Unsupported("constant folding of a call")
        if isinstance(node, ast.Attribute):
            if isinstance(node.value, ast.Name):
                r = self.repo.resolve(mod, node.value.id)
                if r and r[0] == "def" and isinstance(r[2], ast.ClassDef) and self.class_kind(r[2]) == "enum":
                    for k, v in self.enum_members(r[1], r[2]):
                        if k == node.attr:
                            return EnumMember(r[2].name, k, v)
                    raise Unsupported(f"enum {r[2].name} has no member {node.attr}")
            base = self.fold(mod, node.value, depth + 1)
            if isinstance(base, StructFmt) and node.attr == "size":
                return struct.calcsize(base.fmt)
            raise Unsupported(f"constant folding of attribute .{node.attr}")
        raise Unsupported("constant folding of " + type(node).__name__)

    def is_ext(self, mod, name, dotted):
        r = self.repo.resolve(mod, name)
        return bool(r and r[0] == "ext" and r[1] == dotted and r[2] is None)

    def class_kind(self, cls):
        bases = [b.id if isinstance(b, ast.Name) else (b.attr if isinstance(b, ast.Attribute) else "") for b in cls.bases]
        if "NamedTuple" in bases:
            return "namedtuple"
        if "IntEnum" in bases:
            return "enum"
        for d in cls.decorator_list:
            dn = d.id if isinstance(d, ast.Name) else (d.func.id if isinstance(d, ast.Call) and isinstance(d.func, ast.Name) else "")
            if dn == "dataclass":
                return "dataclass"
        return "class"

    def enum_members(self, mod, cls):
        out = []
        for st in cls.body:
            if isinstance(st, ast.Assign) and len(st.targets) == 1 and isinstance(st.targets[0], ast.Name):
                v = self.fold(mod, st.value)
                if not isinstance(v, int) or isinstance(v, bool):
                    raise Unsupported(f"enum {cls.name}: non-integer member {st.targets[0].id}")
                out.append((st.targets[0].id, v))
        return out

    def class_mro(self, mod, cls, depth=0):
        """C3 linearisation of a class defined in the repository: [(module, ClassDef)]; bases that are not defined in
        the repository (ABC, Enum, ...) are left out"""
        if depth > 12:
            raise Unsupported("class hierarchy too deep")
        seqs = []
        direct = []
        for b in cls.bases:
            if not isinstance(b, ast.Name):
                continue
            r = self.repo.resolve(mod, b.id)
            if r and r[0] == "def" and isinstance(r[2], ast.ClassDef):
                direct.append((r[1], r[2]))
                seqs.append(self.class_mro(r[1], r[2], depth + 1))
        seqs.append(list(direct))
        out = [(mod, cls)]
        seqs = [list(x) for x in seqs if x]
        while seqs:
            for sq in seqs:
                head = sq[0]
                if not any(any(head[1] is y[1] for y in other[1:]) for other in seqs):
                    break
            else:
                raise Unsupported(f"inconsistent class hierarchy of {cls.name}")
            out.append(head)
            seqs = [[y for y in sq if y[1] is not head[1]] for sq in seqs]
            seqs = [x for x in seqs if x]
        return out

    def dataclass_fields(self, mod, cls):
        """fields of a data class in dataclass order (base classes first, a redefinition keeps its first position):
        [(name, module of the default, default node | None)]"""
        fields = {}
        for m, c in reversed(self.class_mro(mod, cls)):
            if any(isinstance(s, ast.FunctionDef) and s.name in ("__init__", "__post_init__", "__new__", "__getattr__",
                                                                    "__getattribute__") for s in c.body):
                raise Unsupported(f"data class {c.name} with its own __init__ / __post_init__ / __getattr__")
            for st in c.body:
                if isinstance(st, ast.AnnAssign) and isinstance(st.target, ast.Name) and st.target.id != "__slots__":
                    fields[st.target.id] = (m, st.value)
        return [(k, m, v) for k, (m, v) in fields.items()]

    def fold_dataobj(self, mod, call, cmod, cls, depth):
        fields = self.dataclass_fields(cmod, cls)
        names = [k for k, _, _ in fields]
        if any(isinstance(a, ast.Starred) for a in call.args) or any(k.arg is None for k in call.keywords):
            raise Unsupported(f"{cls.name}(...): starred arguments")
        if len(call.args) > len(names):
            raise Unsupported(f"{cls.name}(...): too many arguments")
        given = {k: (mod, a) for k, a in zip(names, call.args)}
        for k in call.keywords:
            if k.arg not in names or k.arg in given:
                raise Unsupported(f"{cls.name}(...): keyword argument {k.arg}")
            given[k.arg] = (mod, k.value)
        out, partial = [], False
        for k, m, dflt in fields:
            if k in given:
                vm, vn = given[k]
            elif dflt is not None:
                vm, vn = m, dflt
            else:
                raise Unsupported(f"{cls.name}(...): field {k} not given")
            try:
                v = self.fold(vm, vn, depth + 1)
                lean_value(v)
            except Unsupported:
                partial = True
                continue
            out.append((k, v))
        return DataObj(cls.name, out, partial)

    def wire_format(self, mod, cls):
        """the struct format of a struct-backed wire type of helpers/data_types.py, from the SOURCE: the class body is
        exactly `__slots__ = ()` and `_struct = struct.Struct(<fmt>)` (nothing overridden), its only base BuiltInDataType"""
        if mod.rel != "pyplumio/helpers/data_types.py":
            raise Unsupported(f"{cls.name}.from_bytes: not a class of helpers/data_types.py")
        bases = [b.value.id if isinstance(b, ast.Subscript) and isinstance(b.value, ast.Name) else (b.id if isinstance(b, ast.Name) else "?")
                 for b in cls.bases]
        if bases != ["BuiltInDataType"]:
            raise Unsupported(f"{cls.name}.from_bytes: only the struct-backed wire types (base BuiltInDataType) are primitives")
        fmt = None
        for st in cls.body:
            if isinstance(st, ast.Expr) and isinstance(st.value, ast.Constant) and isinstance(st.value.value, str):
                continue
            if isinstance(st, ast.Assign) and len(st.targets) == 1 and isinstance(st.targets[0], ast.Name):
                if st.targets[0].id == "__slots__":
                    continue
                if st.targets[0].id == "_struct":
                    v = self.fold(mod, st.value)
                    if isinstance(v, StructFmt):
                        fmt = v.fmt
                        continue
            raise Unsupported(f"{cls.name}.from_bytes: the class body holds more than __slots__ and _struct (line {st.lineno})")
        if fmt is None:
            raise Unsupported(f"{cls.name}.from_bytes: no _struct = struct.Struct(...) in the class")
        return fmt

    def class_fields(self, cls):
        return [st.target.id for st in cls.body if isinstance(st, ast.AnnAssign) and isinstance(st.target, ast.Name)
                and st.target.id != "__slots__"]

    def const_atom(self, mod, name, value, origin):
        lname = "c_" + name
        text = lean_value(value)
        if lname in self.consts and self.consts[lname][0] != text:
            raise Unsupported(f"two different constants named {name}")
        self.consts[lname] = (text, origin)
        return lname

    def enum_atom(self, mod, cls):
        lname = "e_" + cls.name
        vals = [v for _, v in self.enum_members(mod, cls)]
        self.enums[lname] = (vals, f"{mod.rel}: class {cls.name}")
        return lname

    # -------------------------------------------------------------------------------- functions
    def find(self, rel, qual):
        mod = self.repo.module(rel)
        parts = qual.split(".")
        node = mod.defs.get(parts[0])
        cls = None
        if len(parts) == 2:
            if not isinstance(node, ast.ClassDef):
                raise Unsupported(f"{rel}: class {parts[0]} not found")
            cls = node
            node = next((s for s in cls.body if isinstance(s, (ast.FunctionDef, ast.AsyncFunctionDef)) and s.name == parts[1]), None)
        if not isinstance(node, (ast.FunctionDef, ast.AsyncFunctionDef)):
            raise Unsupported(f"{rel}: function {qual} not found")
        return mod, cls, node

    def lean_name(self, qual):
        n = "_".join(p.lstrip("_") for p in qual.split("."))
        return n

    def function(self, rel, qual):
        key = (rel, qual)
        if key in self.funcs:
            info = self.funcs[key]
            if info.get("failed"):
                raise Unsupported(f"depends on {qual}, which is outside the subset")
            if info.get("busy"):
                raise Unsupported(f"{qual}: recursion is outside the subset")
            return info
        mod, cls, node = self.find(rel, qual)
        lname = self.lean_name(qual)
        if lname in self.names_used and self.names_used[lname] != key:
            raise Unsupported(f"{qual}: Lean name {lname} already used by {self.names_used[lname]}")
        self.names_used[lname] = key
        info = dict(rel=rel, qual=qual, lean=lname, busy=True, is_async=isinstance(node, ast.AsyncFunctionDef), cls=cls)
        self.funcs[key] = info
        a = node.args
        if a.kwarg or a.kwonlyargs or a.posonlyargs:
            raise Unsupported(f"{rel}:{node.lineno} {qual}: **kwargs / keyword-only parameters")
        params = [p.arg for p in a.args]
        for d in node.decorator_list:
            try:
                self.check_decorator(rel, qual, node, d)
            except Unsupported:
                info["failed"] = True
                raise
        info["has_self"] = bool(cls is not None and params and params[0] == "self")
        # a method that reads / assigns attributes of `self` (directly or through another method of the class) takes the
        # instance as a first argument `v_self` and returns (result, instance after the call)
        info["stateful"] = bool(info["has_self"] and self.uses_self_state(cls, node, set()))
        # a generator function is translated EAGERLY: it returns the list of the yielded values (its call sites are
        # restricted to list(...) / dict(...), which consume it completely and at once)
        info["generator"] = any(isinstance(n, (ast.Yield, ast.YieldFrom)) for n in ast.walk(node))
        if info["has_self"] and not info["stateful"]:
            params = params[1:]
        info["npos"] = len(params)
        info["vararg"] = a.vararg.arg if a.vararg else None
        if a.vararg:
            params = params + [a.vararg.arg]
        defaults = {}
        for p, d in zip(reversed(a.args), reversed(a.defaults)):
            defaults[p.arg] = self.fold(mod, d)
        info["params"], info["defaults"] = params, defaults
        info["needs_fuel"] = any(isinstance(n, ast.While) for n in ast.walk(node))
        fn = FnTranslator(self, mod, cls, node, info)
        try:
            body = fn.translate()
        except Unsupported:
            info["failed"] = True
            raise
        info["needs_fuel"] = fn.needs_fuel
        info["busy"] = False
        mon = "IOM" if info["is_async"] else "PyM"
        sig = "".join(f" (v_{p} : V)" for p in params)
        if info["stateful"]:
            mon += " (V × V)"
        else:
            mon += " V"
        fuel = " (fuel : Nat)" if info["needs_fuel"] else ""
        dflt = ("; defaults: " + ", ".join(f"{k}={v!r}" for k, v in defaults.items())) if defaults else ""
        deco = [ast.unparse(d) for d in node.decorator_list]
        ign = ("; ignored decorators: " + ", ".join("@" + d for d in deco)) if deco else ""
        head = [f"/-- `{rel}`: `{qual}` (line {node.lineno}){dflt}{ign} -/",
                f"def {lname}{fuel}{sig} : {mon} := do"]
        self.order.append((key, head + indent(body)))
        return info

    def check_decorator(self, rel, qual, node, d):
        f = d.func if isinstance(d, ast.Call) else d
        base = f.attr if isinstance(f, ast.Attribute) else (f.id if isinstance(f, ast.Name) else None)
        where = f"{rel}:{node.lineno} {qual}"
        if base == "timeout":
            return
        if base in CACHING_DECORATORS:
            ann = ast.unparse(node.returns) if node.returns is not None else None
            if ann in IMMUTABLE_RETURNS:
                return
            raise Unsupported(f"{where}: caching decorator @{ast.unparse(d)} on a function whose declared result ({ann}) is not an "
                              "immutable scalar: all callers with equal arguments share ONE object (aliasing is outside a pure translation)")
        raise Unsupported(f"{where}: decorator @{ast.unparse(d)} (only @timeout and caches of immutable results are understood)")

    def uses_self_state(self, cls, node, seen):
        """does the method read or assign an attribute of `self` (other than calling the stream reader / a method of
        the class), directly or through the methods of the class it calls"""
        if id(node) in seen:
            return False
        seen.add(id(node))
        methods = {s.name: s for s in cls.body if isinstance(s, (ast.FunctionDef, ast.AsyncFunctionDef))}
        for n in ast.walk(node):
            if isinstance(n, ast.Attribute) and isinstance(n.value, ast.Name) and n.value.id == "self":
                if n.attr == "_reader":
                    continue
                if n.attr in methods:
                    if self.uses_self_state(cls, methods[n.attr], seen):
                        return True
                    continue
                return True
        return False

    # -------------------------------------------------------------------------------- output
    def emit(self):
        out = ["-- GENERATED by tools/py2lean.py from the repository's current source text. Do not edit.",
               "import PlumVerif.Model.PyPreludeStruct",
               "set_option linter.unusedVariables false",
               "namespace PlumVerif.PyCode",
               "open PlumVerif.Py",
               "",
               "/-! ### module-level constants and enum members, folded from the source -/", ""]
        for lname in sorted(self.consts):
            text, origin = self.consts[lname]
            out.append(f"/-- {origin} -/")
            out.append(f"def {lname} : V := {text}")
        for lname in sorted(self.enums):
            vals, origin = self.enums[lname]
            out.append(f"/-- {origin}: the member values -/")
            out.append(f"def {lname} : List Int := [{', '.join(str(v) for v in vals)}]")
        out += ["", "/-! ### functions -/", ""]
        for key, block in self.order:
            out += block + [""]
        out += ["/-! ### dispatch for the line-protocol driver (`py <function> <fuel> <stream> <args…>`) -/", "",
                "def call (name : String) (fuel : Nat) (args : List V) : Option (IOM V) :=",
                "  match name, args with"]
        for key, _ in self.order:
            info = self.funcs[key]
            n = len(info["params"])
            pat = "[" + ", ".join(f"a{i}" for i in range(n)) + "]"
            if info.get("vararg"):
                # the positional arguments after the named ones are the *args tuple
                pat = " :: ".join([f"a{i}" for i in range(n - 1)] + ["rest"])
            app = info["lean"] + (" fuel" if info["needs_fuel"] else "") + "".join(f" a{i}" for i in range(n))
            if info.get("vararg"):
                app = info["lean"] + (" fuel" if info["needs_fuel"] else "") + "".join(f" a{i}" for i in range(n - 1)) + " (V.tuple rest)"
            if info["stateful"]:
                # the driver answers the result only (the instance after the call is dropped)
                app = f"(do let r ← {app}; pure r.1)"
            if not info["is_async"]:
                app = f"IOM.lift ({app})"
            out.append(f"  | {lean_str(info['qual'])}, {pat} => some ({app})")
        out += ["  | _, _ => none", "",
                "/-- the functions translated from the source, in dependency order -/",
                "def functions : List String := [" + ", ".join(lean_str(self.funcs[k]["qual"]) for k, _ in self.order) + "]",
                "", "/-- the methods translated with the instance as first argument (they read / assign attributes of `self`) -/",
                "def statefulFunctions : List String := [" + ", ".join(lean_str(self.funcs[k]["qual"]) for k, _ in self.order
                                                                        if self.funcs[k]["stateful"]) + "]",
                "", "end PlumVerif.PyCode", ""]
        return "\n".join(out)


class FnTranslator:
    def __init__(self, tr, mod, cls, node, info):
        self.tr, self.mod, self.cls, self.node, self.info = tr, mod, cls, node, info
        self.tmp = 0
        self.bound = set(info["params"])
        self.needs_fuel = info["needs_fuel"]
        self.is_async = info["is_async"]
        self.nested = 0          # > 0 inside lambda / comprehension / short-circuit branch
        self.loop = None         # state variable list of the enclosing while loop
        self.loop_targets = set()
        self.stateful = info.get("stateful", False)
        self.generator = info.get("generator", False)
        self.gen_ok = None       # id of the call node that may be a generator call (direct argument of list / dict)
        self.locals = set(info["params"]) | set(assigned_names(list(node.body)))
        if self.generator:
            self.bound.add("_yield")

    # ------------------------------------------------------------------ helpers
    def fail(self, node, what):
        raise Unsupported(f"{self.mod.rel}:{getattr(node, 'lineno', '?')} in {self.info['qual']}: unsupported construct: {what}")

    def fresh(self):
        self.tmp += 1
        return f"t{self.tmp}"

    def src(self, node):
        return self.mod.lines[node.lineno - 1].strip()

    def P(self, name):
        return ("Py." + name)

    def lift(self, s):
        return s

    def tuple_pat(self, names):
        if not names:
            return "()"
        if len(names) == 1:
            return "v_" + names[0]
        return "(" + ", ".join("v_" + n for n in names) + ")"

    # ------------------------------------------------------------------ expressions: -> (lines, atom)
    def expr(self, n):
        m = getattr(self, "e_" + type(n).__name__, None)
        if m is None:
            self.fail(n, type(n).__name__)
        return m(n)

    def bind(self, lines, rhs):
        t = self.fresh()
        lines.append(f"let {t} ← {rhs}")
        return t

    def e_Constant(self, n):
        if isinstance(n.value, (bool, int, str, bytes)) or n.value is None:
            return [], lean_value(n.value)
        self.fail(n, f"constant {n.value!r}")

    def global_name(self, n, name):
        r = self.tr.repo.resolve(self.mod, name)
        if r is None or r[0] != "def":
            self.fail(n, f"name {name}")
        _, m, d = r
        if isinstance(d, (ast.FunctionDef, ast.AsyncFunctionDef)):
            info = self.tr.function(m.rel, d.name)
            if info["is_async"]:
                self.fail(n, f"coroutine function {name} used as a value")
            if info["needs_fuel"]:
                self.needs_fuel = True
            return [], "(" + info["lean"] + (" fuel" if info["needs_fuel"] else "") + ")"
        if isinstance(d, ast.ClassDef):
            self.fail(n, f"class {name} used as a value")
        try:
            v = self.tr.fold(m, d)
        except Unsupported as e:
            self.fail(n, f"module-level name {name}: {e}")
        if isinstance(v, StructFmt):
            self.fail(n, f"struct object {name} used as a value")
        return [], self.tr.const_atom(m, name, v, f"{m.rel}: {name}")

    def e_Name(self, n):
        if n.id in self.bound:
            return [], "v_" + n.id
        if n.id in self.locals:
            # a local variable of the function that no path to this point has assigned: UnboundLocalError
            lines = []
            return lines, self.bind(lines, f"({self.P('unboundLocal')} : PyM V)")
        return self.global_name(n, n.id)

    def assigned(self, stmts):
        """the threaded variables the statements may assign: locals, the instance (`self`) when an attribute of it is
        assigned or a method that does so is called, the list of yielded values"""
        out = assigned_names(stmts)
        for st in stmts:
            for n in ast.walk(st):
                if self.stateful and isinstance(n, ast.Attribute) and isinstance(n.value, ast.Name) and n.value.id == "self":
                    if isinstance(n.ctx, ast.Store) or self.is_stateful_method(n.attr):
                        if "self" not in out:
                            out.append("self")
                if isinstance(n, ast.Yield) and "_yield" not in out:
                    out.append("_yield")
        return out

    def is_stateful_method(self, name):
        if self.cls is None:
            return False
        m = next((s for s in self.cls.body if isinstance(s, (ast.FunctionDef, ast.AsyncFunctionDef)) and s.name == name), None)
        return m is not None and self.tr.uses_self_state(self.cls, m, set())

    def e_Attribute(self, n):
        root = n
        while isinstance(root, ast.Attribute):
            root = root.value
        if isinstance(root, ast.Name) and (root.id in self.bound or root.id in self.locals):
            # attribute of a value: instance attribute of `self`, field of a data class instance
            lines, a = self.expr(n.value)
            return lines, self.bind(lines, f"{self.P('getattr')} {a} {lean_str(n.attr)}")
        try:
            v = self.tr.fold(self.mod, n)
        except Unsupported as e:
            self.fail(n, f"attribute .{n.attr} ({e})")
        if isinstance(v, EnumMember):
            return [], self.tr.const_atom(self.mod, f"{v.cls}_{v.name}", v.value, f"enum member {v.cls}.{v.name}")
        if isinstance(v, (int, str, bytes)):
            return [], lean_value(v)
        self.fail(n, f"attribute .{n.attr}")

    def e_BinOp(self, n):
        if type(n.op) not in BINOPS:
            self.fail(n, "operator " + type(n.op).__name__)
        l1, a = self.expr(n.left)
        l2, b = self.expr(n.right)
        lines = l1 + l2
        return lines, self.bind(lines, f"{self.P(BINOPS[type(n.op)])} {a} {b}")

    def e_UnaryOp(self, n):
        if isinstance(n.op, ast.USub) and isinstance(n.operand, ast.Constant) and isinstance(n.operand.value, int) \
                and not isinstance(n.operand.value, bool):
            return [], lean_value(-n.operand.value)
        lines, a = self.expr(n.operand)
        if isinstance(n.op, ast.Not):
            return lines, self.bind(lines, f"{self.P('not')} {a}")
        if isinstance(n.op, ast.USub):
            return lines, self.bind(lines, f"{self.P('neg')} {a}")
        self.fail(n, "unary " + type(n.op).__name__)

    def sub(self, fn):
        """run fn in a nested scope (its bindings do not escape): walrus is rejected there"""
        self.nested += 1
        saved = set(self.bound)
        try:
            return fn()
        finally:
            self.nested -= 1
            self.bound = saved

    def do_block(self, lines, atom):
        """a parenthesised do block producing `atom`"""
        return ["(do"] + indent(lines + [f"pure {atom})"])

    def e_BoolOp(self, n):
        # `a or b` / `a and b`: value of the deciding operand, right operand evaluated only if needed
        lines, a = self.expr(n.values[0])
        for v in n.values[1:]:
            l2, b = self.sub(lambda v=v: self.expr(v))
            c = self.fresh()
            lines.append(f"let {c} ← {self.P('truthy')} {a}")
            t = self.fresh()
            keep, other = ("then", "else") if isinstance(n.op, ast.Or) else ("else", "then")
            blk = [f"let {t} ← (if {c}"]
            if isinstance(n.op, ast.Or):
                blk += [f"  then pure {a}", "  else do"] + indent(l2 + [f"pure {b})"], 4)
            else:
                blk += ["  then do"] + indent(l2 + [f"pure {b}"], 4) + [f"  else pure {a})"]
            lines += blk
            a = t
        return lines, a

    def e_IfExp(self, n):
        lines, c0 = self.expr(n.test)
        c = self.fresh()
        lines.append(f"let {c} ← {self.P('truthy')} {c0}")
        l1, a = self.sub(lambda: self.expr(n.body))
        l2, b = self.sub(lambda: self.expr(n.orelse))
        t = self.fresh()
        lines += [f"let {t} ← (if {c}", "  then do"] + indent(l1 + [f"pure {a}"], 4) + ["  else do"] + indent(l2 + [f"pure {b})"], 4)
        return lines, t

    def e_Compare(self, n):
        if len(n.ops) != 1:
            return self.chained_compare(n)
        op, right = n.ops[0], n.comparators[0]
        if isinstance(op, (ast.Is, ast.IsNot)):
            if not (isinstance(right, ast.Constant) and right.value is None):
                self.fail(n, "`is` with something other than None")
            lines, a = self.expr(n.left)
            t = self.fresh()
            lines.append(f"let {t} := {self.P('isNone' if isinstance(op, ast.Is) else 'isNotNone')} {a}")
            return lines, t
        if type(op) not in CMPOPS:
            self.fail(n, "comparison " + type(op).__name__)
        l1, a = self.expr(n.left)
        l2, b = self.expr(right)
        lines = l1 + l2
        return lines, self.bind(lines, f"{self.P(CMPOPS[type(op)])} {a} {b}")

    def chained_compare(self, n):
        # `a op1 b op2 c …`: `a op1 b and b op2 c …`, every operand evaluated at most once, left to right, the later
        # ones only while the comparisons so far hold; the value is the first false comparison or the last one
        if any(type(op) not in CMPOPS for op in n.ops):
            self.fail(n, "chained comparison with `is` / an unknown operator")
        lines, a = self.expr(n.left)

        def rest(a, ops, comps):
            l, b = self.expr(comps[0])
            t = self.bind(l, f"{self.P(CMPOPS[type(ops[0])])} {a} {b}")
            if len(ops) == 1:
                return l, t
            c = self.fresh()
            l.append(f"let {c} ← {self.P('truthy')} {t}")
            l2, r = rest(b, ops[1:], comps[1:])
            u = self.fresh()
            l += [f"let {u} ← (if {c}", "  then do"] + indent(l2 + [f"pure {r}"], 4) + [f"  else pure {t})"]
            return l, u
        l, r = self.sub(lambda: rest(a, list(n.ops), list(n.comparators)))
        return lines + l, r

    def e_Subscript(self, n):
        lines, a = self.expr(n.value)
        s = n.slice
        if isinstance(s, ast.Slice):
            if s.step is not None:
                self.fail(n, "slice step")
            lo = hi = "V.none"
            if s.lower is not None:
                l1, lo = self.expr(s.lower)
                lines += l1
            if s.upper is not None:
                l2, hi = self.expr(s.upper)
                lines += l2
            return lines, self.bind(lines, f"{self.P('slice')} {a} {lo} {hi}")
        l1, i = self.expr(s)
        lines += l1
        return lines, self.bind(lines, f"{self.P('index')} {a} {i}")

    def seq(self, elts):
        lines, atoms = [], []
        for e in elts:
            if isinstance(e, ast.Starred):
                self.fail(e, "starred element")
            l, a = self.expr(e)
            lines += l
            atoms.append(a)
        return lines, atoms

    def e_List(self, n):
        lines, atoms = self.seq(n.elts)
        return lines, "(V.list [" + ", ".join(atoms) + "])"

    def e_Tuple(self, n):
        lines, atoms = self.seq(n.elts)
        return lines, "(V.tuple [" + ", ".join(atoms) + "])"

    def e_Dict(self, n):
        # a dict display with constant string keys (evaluated left to right)
        keys, lines, atoms = [], [], []
        for k, v in zip(n.keys, n.values):
            if k is None:
                self.fail(n, "** in a dict display")
            try:
                kv = self.tr.fold(self.mod, k)
            except Unsupported as e:
                self.fail(n, f"dict display with a key that is not a constant ({e})")
            if not isinstance(kv, str) or kv in keys:
                self.fail(n, "dict display with a non-string or repeated key")
            keys.append(kv)
            l, a = self.expr(v)
            lines += l
            atoms.append(a)
        return lines, "(V.dict [" + ", ".join(lean_str(k) for k in keys) + "] [" + ", ".join(atoms) + "])"

    def e_NamedExpr(self, n):
        if self.nested:
            self.fail(n, "assignment expression inside a nested scope (lambda / comprehension / short-circuit operand)")
        lines, a = self.expr(n.value)
        lines.append(f"let v_{n.target.id} := {a}")
        self.bound.add(n.target.id)
        return lines, "v_" + n.target.id

    def e_Lambda(self, n):
        a = n.args
        if a.vararg or a.kwarg or a.kwonlyargs or a.defaults or a.posonlyargs:
            self.fail(n, "lambda with defaults / *args")
        names = [p.arg for p in a.args]

        def body():
            self.bound |= set(names)
            return self.expr(n.body)
        lines, atom = self.sub(body)
        if not self.is_async:
            pass
        head = "(fun " + " ".join("v_" + x for x in names) + " => (do"
        return [], "\n".join([head] + indent(lines + [f"pure {atom} : PyM V))"], 4))

    def comp_nest(self, n, gens, elt_fn):
        """the list of the elements of a comprehension with the `for` clauses gens (evaluated eagerly, in Python's order:
        the iterable of an inner clause is evaluated once per element of the outer one): -> (lines, atom)"""
        g = gens[0]
        if g.is_async:
            self.fail(n, "comprehension target")
        var, unpack, tnames = self.comp_target(n, g.target)
        lines, it = self.expr(g.iter)

        def body():
            self.bound |= set(tnames)
            out, conds = list(unpack), []
            for c in g.ifs:
                l, a = self.expr(c)
                out += l
                t = self.fresh()
                out.append(f"let {t} ← {self.P('truthy')} {a}")
                conds.append(t)
            l, a = elt_fn() if len(gens) == 1 else self.comp_nest(n, gens[1:], elt_fn)
            if conds:
                out += [f"if {' && '.join(conds)} then do"] + indent(l + [f"pure (some {a})"]) + ["else pure Option.none"]
            else:
                out += l + [f"pure (some {a})"]
            return out
        blk = self.sub(body)
        t = self.fresh()
        lines += [f"let {t} ← {self.P('listComp')} {it} (fun {var} => (do"] + indent(blk, 4) + ["    : PyM (Option V)))"]
        if len(gens) > 1:
            t2 = self.fresh()
            lines.append(f"let {t2} ← {self.P('flatten')} {t}")
            t = t2
        return lines, t

    def comp_target(self, n, target):
        """the target of a comprehension clause: -> (lambda variable, lines unpacking it, names bound)"""
        if isinstance(target, ast.Name):
            return "v_" + target.id, [], [target.id]
        if isinstance(target, ast.Tuple) and all(isinstance(e, ast.Name) for e in target.elts) and 2 <= len(target.elts) <= 5:
            names = [e.id for e in target.elts]
            x = "x" + self.fresh()
            return x, [f"let ({', '.join('v_' + y for y in names)}) ← {self.P('unpack' + str(len(names)))} {x}"], names
        self.fail(n, "comprehension target")

    def e_DictComp(self, n):
        # `{k: v for …}`: the pairs (key evaluated before value) in order, then `dict(pairs)` (a later equal key overwrites
        # the value and keeps the first position)
        def pair():
            l1, k = self.expr(n.key)
            l2, v = self.expr(n.value)
            return l1 + l2, f"(V.tuple [{k}, {v}])"
        if self.has_stateful_call(n.key) or self.has_stateful_call(n.value):
            self.fail(n, "dict comprehension calling a method that assigns attributes of self")
        lines, a = self.comp_nest(n, n.generators, pair)
        return lines, self.bind(lines, f"{self.P('dict_')} {a}")

    def has_stateful_call(self, node):
        for m in ast.walk(node):
            if isinstance(m, ast.Call) and isinstance(m.func, ast.Attribute) and isinstance(m.func.value, ast.Name) \
                    and m.func.value.id == "self" and self.is_stateful_method(m.func.attr):
                return True
        return False

    def stateful_comp(self, n, ge):
        """`[e for x in it]` / the generator expression given to list(...) / dict(...), where e calls a method that assigns
        attributes of `self`: a for loop threading the instance and the list built so far -> (lines, atom of the list)"""
        if self.nested or not self.stateful:
            self.fail(n, "comprehension calling a method that assigns attributes of self, inside a nested scope")
        if len(ge.generators) != 1 or ge.generators[0].ifs or ge.generators[0].is_async:
            self.fail(n, "comprehension calling a method that assigns attributes of self: several clauses / a condition")
        if any(isinstance(m, (ast.NamedExpr, ast.Lambda, ast.ListComp, ast.GeneratorExp, ast.DictComp, ast.SetComp)) for m in ast.walk(ge.elt)):
            self.fail(n, "comprehension calling a method that assigns attributes of self: nested scope / assignment expression in the element")
        g = ge.generators[0]
        var, unpack, tnames = self.comp_target(n, g.target)
        lines, it = self.expr(g.iter)
        saved = set(self.bound)
        self.bound |= set(tnames)
        l, a = self.expr(ge.elt)
        self.bound = saved
        acc = "acc" + self.fresh()
        body = list(unpack) + l + [f"let {acc} ← {self.P('yield_')} {acc} {a}", f"pure ({acc}, v_self)"]
        lines += [f"let ({acc}, v_self) ← {self.P('forLoop')} {it} (V.list [], v_self) (fun {var} ({acc}, v_self) => do"] + indent(body, 4) + ["  )"]
        return lines, acc

    def comprehension(self, n, elt):
        if len(n.generators) != 1:
            self.fail(n, "comprehension with several `for` clauses")
        g = n.generators[0]
        if g.is_async or not isinstance(g.target, ast.Name):
            self.fail(n, "comprehension target")
        lines, it = self.expr(g.iter)
        return lines, it, g

    def e_ListComp(self, n):
        if self.has_stateful_call(n.elt):
            return self.stateful_comp(n, n)
        if len(n.generators) > 1 or not isinstance(n.generators[0].target, ast.Name):
            return self.comp_nest(n, n.generators, lambda: self.expr(n.elt))
        lines, it, g = self.comprehension(n, n.elt)

        def body():
            self.bound.add(g.target.id)
            out = []
            conds = []
            for c in g.ifs:
                l, a = self.expr(c)
                out += l
                t = self.fresh()
                out.append(f"let {t} ← {self.P('truthy')} {a}")
                conds.append(t)
            l, a = self.expr(n.elt)
            if conds:
                out += [f"if {' && '.join(conds)} then do"] + indent(l + [f"pure (some {a})"]) + ["else pure Option.none"]
            else:
                out += l + [f"pure (some {a})"]
            return out
        blk = self.sub(body)
        t = self.fresh()
        lines += [f"let {t} ← {self.P('listComp')} {it} (fun v_{g.target.id} => (do"] + indent(blk, 4) + ["    : PyM (Option V)))"]
        return lines, t

    def gen_call(self, n, prim):
        ge = n.args[0]
        lines, it, g = self.comprehension(ge, ge.elt)
        if g.ifs:
            self.fail(n, "generator expression with a condition")

        def body():
            self.bound.add(g.target.id)
            return self.expr(ge.elt)
        l, a = self.sub(body)
        t = self.fresh()
        lines += [f"let {t} ← {self.P(prim)} {it} (fun v_{g.target.id} => (do"] + indent(l + [f"pure {a} : PyM V))"], 4)
        return lines, t

    def e_Await(self, n):
        if not self.is_async:
            self.fail(n, "await outside a coroutine")
        if not isinstance(n.value, ast.Call):
            self.fail(n, "await of something other than a call")
        return self.call(n.value, awaited=True)

    def e_Call(self, n):
        return self.call(n, awaited=False)

    def kwargs(self, n):
        out = {}
        for k in n.keywords:
            if k.arg is None:
                self.fail(n, "**kwargs in a call")
            out[k.arg] = k.value
        return out

    def call(self, n, awaited):
        f = n.func
        # --- reader primitives and own methods
        if isinstance(f, ast.Attribute) and isinstance(f.value, ast.Attribute) and isinstance(f.value.value, ast.Name) \
                and f.value.value.id == "self" and self.info["has_self"]:
            if f.value.attr == "_reader" and f.attr in ("read", "readexactly") and awaited and len(n.args) == 1 and not n.keywords:
                lines, a = self.expr(n.args[0])
                return lines, self.bind(lines, f"{self.P('reader_' + f.attr)} {a}")
            self.fail(n, f"self.{f.value.attr}.{f.attr}(...)")
        if isinstance(f, ast.Attribute) and isinstance(f.value, ast.Name) and f.value.id == "self" and self.info["has_self"]:
            qual = self.cls.name + "." + f.attr
            info = self.tr.function(self.mod.rel, qual)
            return self.user_call(n, info, awaited)
        if isinstance(f, ast.Name) and f.id not in self.bound:
            r = self.tr.repo.resolve(self.mod, f.id)
            if r is None:
                return self.builtin(n, f.id)
            if r[0] == "ext":
                if r[1] == "functools" and r[2] == "reduce":
                    return self.builtin(n, "reduce")
                self.fail(n, f"call of {r[1]}.{r[2]}")
            _, m, d = r
            if isinstance(d, (ast.FunctionDef, ast.AsyncFunctionDef)):
                return self.user_call(n, self.tr.function(m.rel, d.name), awaited)
            if isinstance(d, ast.ClassDef):
                return self.class_call(n, m, d)
            self.fail(n, f"call of module-level value {f.id}")
        if isinstance(f, ast.Attribute):
            # int.from_bytes
            if isinstance(f.value, ast.Name) and f.value.id == "int" and "int" not in self.bound and f.attr == "from_bytes":
                kw = self.kwargs(n)
                args = list(n.args)
                if len(args) == 1 and set(kw) == {"byteorder"}:
                    args.append(kw["byteorder"])
                if len(args) != 2 or (kw and len(n.args) != 1):
                    self.fail(n, "int.from_bytes argument form")
                lines, atoms = self.seq(args)
                return lines, self.bind(lines, f"{self.P('int_from_bytes')} {atoms[0]} {atoms[1]}")
            # Frame.create(...)
            if isinstance(f.value, ast.Name) and f.value.id not in self.bound:
                r = self.tr.repo.resolve(self.mod, f.value.id)
                if r and r[0] == "def" and isinstance(r[2], ast.ClassDef):
                    cls = r[2]
                    if cls.name == "Frame" and f.attr == "create" and awaited and r[1].rel == "pyplumio/frames/__init__.py":
                        return self.frame_create(n, r[1], cls)
                    if f.attr == "from_bytes" and not n.keywords and len(n.args) in (1, 2):
                        # TRUSTED primitive (contract: Props/TieTypes.lean about the translated classes): X.from_bytes(data, offset)
                        # of a struct-backed wire type; the struct format is folded from the class in the SOURCE
                        fmt = self.tr.wire_format(r[1], cls)
                        lines, atoms = self.seq(n.args)
                        off = atoms[1] if len(atoms) == 2 else "(V.int 0)"
                        return lines, self.bind(lines, f"{self.P('wire_from_bytes')} {lean_str(cls.name)} {lean_str(fmt)} {atoms[0]} {off}")
                    self.fail(n, f"{cls.name}.{f.attr}(...)")
                if r and r[0] == "def":
                    # method of a module-level constant object: struct_header.unpack_from(buffer)
                    try:
                        v = self.tr.fold(r[1], r[2])
                    except Unsupported as e:
                        self.fail(n, f"{f.value.id}.{f.attr}: {e}")
                    if isinstance(v, StructFmt) and f.attr == "unpack_from" and len(n.args) == 1 and not n.keywords:
                        lines, a = self.expr(n.args[0])
                        return lines, self.bind(lines, f"{self.P('struct_unpack_from')} {lean_str(v.fmt)} {a}")
                    if isinstance(v, tuple) and all(isinstance(x, (str, int)) for x in v) and f.attr == "index" \
                            and len(n.args) == 1 and not n.keywords:
                        # CONST.index(x) on a module-level tuple of scalars
                        c = self.tr.const_atom(r[1], f.value.id, v, f"{r[1].rel}: {f.value.id}")
                        lines, a = self.expr(n.args[0])
                        return lines, self.bind(lines, f"{self.P('seq_index')} {c} {a}")
                    self.fail(n, f"method {f.attr} of module-level value {f.value.id}")
                if r and r[0] == "ext":
                    if r[1] == "math" and r[2] is None and f.attr == "isnan" and len(n.args) == 1 and not n.keywords:
                        lines, a = self.expr(n.args[0])
                        return lines, self.bind(lines, f"{self.P('math_isnan')} {a}")
                    self.fail(n, f"call of {r[1]}.{f.attr}")
            # methods of values
            if f.attr == "to_bytes":
                kw = self.kwargs(n)
                if n.args or set(kw) != {"length", "byteorder"}:
                    self.fail(n, ".to_bytes argument form (keywords length=, byteorder= expected)")
                lines, a = self.expr(f.value)
                # the attribute lookup comes before the arguments (AttributeError wins over an error in an argument)
                lines.append(f"{self.P('attr_to_bytes')} {a}")
                # keyword arguments are evaluated in the order written
                vals = {}
                for k in n.keywords:
                    l, x = self.expr(k.value)
                    lines += l
                    vals[k.arg] = x
                return lines, self.bind(lines, f"{self.P('int_to_bytes')} {a} {vals['length']} {vals['byteorder']}")
            if f.attr == "get_nowait" and len(n.args) == 2 and not n.keywords:
                # TRUSTED primitive: EventManager.get_nowait(name, default) of the owning device = data.get(name, default)
                lines, a = self.expr(f.value)
                l2, atoms = self.seq(n.args)
                lines += l2
                return lines, self.bind(lines, f"{self.P('device_get_nowait')} {a} {atoms[0]} {atoms[1]}")
            if f.attr == "get" and len(n.args) == 2 and not n.keywords:
                lines, a = self.expr(f.value)
                l2, atoms = self.seq(n.args)
                lines += l2
                return lines, self.bind(lines, f"{self.P('dict_get')} {a} {atoms[0]} {atoms[1]}")
            self.fail(n, f"method call .{f.attr}(...)")
        self.fail(n, "call form")

    def builtin(self, n, name):
        if n.keywords:
            self.fail(n, f"{name}(...) with keywords")
        args = n.args
        if name in ("any", "all") and len(args) == 1 and isinstance(args[0], ast.GeneratorExp):
            return self.gen_call(n, "anyGen" if name == "any" else "allGen")
        if name in ("bytearray", "bytes") and len(args) == 1 and isinstance(args[0], ast.GeneratorExp):
            # the constructor consumes the generator item by item: each item is checked (Py.byteItem) as it is produced
            ge = args[0]

            def item():
                l, a = self.expr(ge.elt)
                return l, self.bind(l, f"{self.P('byteItem')} {a}")
            lines, a = self.comp_nest(ge, ge.generators, item)
            return lines, self.bind(lines, f"{self.P('bytearray')} {a}")
        if name in ("list", "dict") and len(args) == 1 and isinstance(args[0], ast.GeneratorExp):
            # the constructor consumes the generator completely, here and now: the list of its items, then list(...) / dict(...)
            ge = args[0]
            if self.has_stateful_call(ge.elt):
                lines, a = self.stateful_comp(n, ge)
            else:
                lines, a = self.comp_nest(ge, ge.generators, lambda: self.expr(ge.elt))
            return lines, self.bind(lines, f"{self.P(name + '_')} {a}")
        if any(isinstance(a, (ast.GeneratorExp, ast.Starred)) for a in args):
            self.fail(n, f"{name}(...) of a generator expression / starred argument")
        if name == "int" and len(args) == 1 and isinstance(args[0], ast.Call) and isinstance(args[0].func, ast.Attribute) \
                and isinstance(args[0].func.value, ast.Name) and args[0].func.value.id not in self.bound \
                and self.tr.is_ext(self.mod, args[0].func.value.id, "math") and args[0].func.attr == "pow" \
                and len(args[0].args) == 2 and not args[0].keywords:
            # TRUSTED primitive: int(math.pow(a, b)) as ONE operation (the float in between is never a value of the model)
            lines, atoms = self.seq(args[0].args)
            return lines, self.bind(lines, f"{self.P('int_math_pow')} {atoms[0]} {atoms[1]}")
        if name == "enumerate" and len(args) == 1:
            lines, a = self.expr(args[0])
            return lines, self.bind(lines, f"{self.P('enumerate')} {a}")
        if name in ("list", "dict") and len(args) == 1:
            # list(it) / dict(it): consumes the iterable completely, here and now — the one place where a call of a
            # generator function is accepted (the generator is translated eagerly)
            if isinstance(args[0], ast.Call):
                self.gen_ok = id(args[0])
            lines, a = self.expr(args[0])
            return lines, self.bind(lines, f"{self.P(name + '_')} {a}")
        lines, atoms = self.seq(args)
        one = {"bool": "bool", "len": "len", "reversed": "reversed", "bytearray": "bytearray", "bytes": "bytearray", "int": "int_"}
        if name in one and len(atoms) == 1:
            return lines, self.bind(lines, f"{self.P(one[name])} {atoms[0]}")
        if name in ("bytearray", "bytes") and not atoms:
            return lines, "(V.bytes [])"
        if name == "range":
            if len(atoms) == 1:
                return lines, self.bind(lines, f"{self.P('range')} (V.int 0) {atoms[0]}")
            if len(atoms) == 2:
                return lines, self.bind(lines, f"{self.P('range')} {atoms[0]} {atoms[1]}")
            if len(atoms) == 3:
                return lines, self.bind(lines, f"{self.P('rangeStep')} {atoms[0]} {atoms[1]} {atoms[2]}")
        if name == "reduce":
            if len(atoms) == 2:
                return lines, self.bind(lines, f"{self.P('reduce')} {atoms[0]} {atoms[1]}")
            if len(atoms) == 3:
                return lines, self.bind(lines, f"{self.P('reduceInit')} {atoms[0]} {atoms[1]} {atoms[2]}")
        self.fail(n, f"call of {name} with {len(atoms)} argument(s)")

    def user_call(self, n, info, awaited):
        if info["is_async"] != awaited:
            self.fail(n, "coroutine called without await (or await of a plain function)")
        if info["is_async"] and not self.is_async:
            self.fail(n, "coroutine called from a plain function")
        kw = self.kwargs(n)
        params = list(info["params"])
        if info.get("generator") and self.gen_ok != id(n):
            self.fail(n, f"call of the generator function {info['qual']} other than as the argument of list(...) / dict(...)")
        if info.get("stateful"):
            if self.nested:
                self.fail(n, f"call of {info['qual']} (assigns attributes of self) inside a nested scope")
            if not self.stateful:
                self.fail(n, f"call of {info['qual']} (uses attributes of self) from a function without the instance")
            params = params[1:]
        if info.get("vararg"):
            params = params[:-1]
        if len(n.args) > len(params) and not info.get("vararg"):
            self.fail(n, "too many arguments")
        lines, atoms = self.seq(n.args)
        given = dict(zip(params, atoms))
        extra = atoms[len(params):]
        for k in n.keywords:
            if k.arg not in params or k.arg in given:
                self.fail(n, f"keyword argument {k.arg}")
            l, a = self.expr(k.value)
            lines += l
            given[k.arg] = a
        full = []
        for p in params:
            if p in given:
                full.append(given[p])
            elif p in info["defaults"]:
                full.append(lean_value(info["defaults"][p]))
            else:
                self.fail(n, f"missing argument {p}")
        if info["needs_fuel"]:
            self.needs_fuel = True
        if info.get("vararg"):
            full.append("(V.tuple [" + ", ".join(extra) + "])")
        if info.get("stateful"):
            full.insert(0, "v_self")
        app = info["lean"] + (" fuel" if info["needs_fuel"] else "") + "".join(" " + a for a in full)
        if info.get("stateful"):
            t = self.fresh()
            lines.append(f"let ({t}, v_self) ← {app}")
            return lines, t
        return lines, self.bind(lines, app)

    def class_call(self, n, m, cls):
        kind = self.tr.class_kind(cls)
        if kind == "enum":
            if len(n.args) != 1 or n.keywords:
                self.fail(n, f"{cls.name}(...) argument form")
            lines, a = self.expr(n.args[0])
            return lines, self.bind(lines, f"{self.P('enum_call')} {self.tr.enum_atom(m, cls)} {a}")
        fields = self.tr.class_fields(cls)
        if kind == "namedtuple":
            if len(n.args) == 1 and isinstance(n.args[0], ast.Starred) and not n.keywords:
                lines, a = self.expr(n.args[0].value)
                return lines, self.bind(lines, f"{self.P('namedtuple')} {len(fields)} {a}")
            self.fail(n, f"{cls.name}(...) argument form (only {cls.name}(*seq))")
        if kind == "dataclass":
            if any(isinstance(s, ast.FunctionDef) and s.name in ("__init__", "__post_init__", "__new__") for s in cls.body):
                self.fail(n, f"data class {cls.name} with its own __init__ / __post_init__")
            lines, atoms = self.seq(n.args)
            given = dict(zip(fields, atoms))
            if len(atoms) > len(fields):
                self.fail(n, "too many arguments")
            for k in n.keywords:
                if k.arg is None or k.arg not in fields or k.arg in given:
                    self.fail(n, f"keyword argument {k.arg}")
                l, a = self.expr(k.value)
                lines += l
                given[k.arg] = a
            if set(given) != set(fields):
                self.fail(n, f"{cls.name}(...): not every field given")
            return lines, f"({self.P('mkobj')} {lean_str(cls.name)} [" + ", ".join(f"({lean_str(k)}, {given[k]})" for k in fields) + "])"
        self.fail(n, f"construction of class {cls.name}")

    def frame_create(self, n, m, cls):
        # TRUSTED primitive; checked here: the class method exists and all arguments are keywords
        if not any(isinstance(s, ast.AsyncFunctionDef) and s.name == "create" for s in cls.body):
            self.fail(n, "Frame.create is not an async class method any more")
        if n.args:
            self.fail(n, "Frame.create with positional arguments")
        r = self.tr.repo.resolve(m, "FrameType")
        if not (r and r[0] == "def" and isinstance(r[2], ast.ClassDef)):
            self.fail(n, "FrameType not found")
        en = self.tr.enum_atom(r[1], r[2])
        lines, pairs = [], []
        for k in n.keywords:
            if k.arg is None:
                self.fail(n, "**kwargs")
            l, a = self.expr(k.value)
            lines += l
            pairs.append(f"({lean_str(k.arg)}, {a})")
        return lines, self.bind(lines, f"{self.P('frame_create')} {en} [" + ", ".join(pairs) + "]")

    # ------------------------------------------------------------------ statements (continuation passing)
    def translate(self):
        for n in ast.walk(self.node):
            if isinstance(n, (ast.FunctionDef, ast.AsyncFunctionDef)) and n is not self.node:
                self.fail(n, "nested function")
            if isinstance(n, (ast.Global, ast.Nonlocal, ast.YieldFrom, ast.AsyncWith, ast.AsyncFor,
                              ast.Delete, ast.Assert, ast.Match)):
                self.fail(n, type(n).__name__)
            if isinstance(n, ast.Name) and n.id == "self" and self.info["has_self"]:
                pass
        if self.generator:
            ok = {id(st.value) for st in ast.walk(self.node) if isinstance(st, ast.Expr) and isinstance(st.value, ast.Yield)}
            for n in ast.walk(self.node):
                if isinstance(n, ast.Yield) and (id(n) not in ok or n.value is None):
                    self.fail(n, "yield other than the statement `yield <value>`")
                if isinstance(n, ast.Return) and n.value is not None:
                    self.fail(n, "return with a value inside a generator")
            if self.is_async:
                self.fail(self.node, "asynchronous generator")
        self.check_self()
        wrap = (lambda atom: f"({atom}, v_self)") if self.stateful else (lambda atom: atom)
        self.wrap = wrap
        self.ret = lambda atom: [f"pure {wrap(atom)}"]
        self.top_ret = self.ret
        self.cont = None
        self.brk = None
        if self.generator:
            # the values yielded so far; falling off the end (or a bare `return`) ends the generator
            self.retval = lambda: "v__yield"
            return ["let v__yield := V.list []"] + self.block(list(self.node.body), lambda: self.ret("v__yield"))
        self.retval = lambda: "V.none"
        return self.block(list(self.node.body), lambda: self.ret("V.none"))

    def check_self(self):
        if not self.info["has_self"]:
            return
        if self.stateful:
            # attributes of the instance are read / assigned through Py.getattr / Py.setattr on `v_self`; the instance
            # itself must not escape (be passed on, returned, stored)
            ok = set()
            for n in ast.walk(self.node):
                if isinstance(n, ast.Attribute) and isinstance(n.value, ast.Name) and n.value.id == "self":
                    ok.add(id(n.value))
            for n in ast.walk(self.node):
                if isinstance(n, ast.Name) and n.id == "self" and id(n) not in ok:
                    self.fail(n, "use of `self` other than self.<attribute> / self.<method>()")
            return
        ok = set()
        for n in ast.walk(self.node):
            if isinstance(n, ast.Call) and isinstance(n.func, ast.Attribute):
                f = n.func
                if isinstance(f.value, ast.Name) and f.value.id == "self":
                    ok.add(id(f.value))
                if isinstance(f.value, ast.Attribute) and isinstance(f.value.value, ast.Name) and f.value.value.id == "self":
                    ok.add(id(f.value.value))
        for n in ast.walk(self.node):
            if isinstance(n, ast.Name) and n.id == "self" and id(n) not in ok:
                self.fail(n, "use of `self` other than self._reader.read / readexactly / self.<method>()")

    def block(self, stmts, k):
        """lines for the statements followed by continuation k (a thunk giving lines)"""
        out = []
        for i, st in enumerate(stmts):
            rest = stmts[i + 1:]
            done = self.stmt(st, rest, k, out)
            if done:
                return out
        out += k()
        return out

    def stmt(self, st, rest, k, out):
        """appends the statement's lines to out; returns True when it has consumed `rest` and k"""
        if isinstance(st, ast.Expr) and isinstance(st.value, ast.Constant) and isinstance(st.value.value, str):
            return False
        comment = "-- " + self.src(st)
        if isinstance(st, ast.Expr):
            v = st.value
            if isinstance(v, ast.Call) and isinstance(v.func, ast.Attribute) and isinstance(v.func.value, ast.Name) \
                    and v.func.value.id == "_LOGGER":
                out.append(comment + "      (ignored: logging)")
                return False
            out.append(comment)
            if is_append_stmt(st):
                x = v.func.value.id
                self.check_own_list(st, x)
                lines, a = self.expr(v.args[0])
                out += lines + [f"let v_{x} ← {self.P('list_append')} v_{x} {a}"]
                return False
            if isinstance(v, ast.Yield):
                lines, a = self.expr(v.value)
                out += lines + [f"let v__yield ← {self.P('yield_')} v__yield {a}"]
                return False
            lines, a = self.expr(v)
            if lines and lines[-1].startswith(f"let {a} ← "):
                lines[-1] = "let _ ← " + lines[-1][len(f"let {a} ← "):]
            out += lines
            return False
        if isinstance(st, ast.Pass):
            return False
        out.append(comment)
        if isinstance(st, (ast.Assign, ast.AnnAssign, ast.AugAssign)):
            self.assign(st, out)
            return False
        if isinstance(st, ast.Return):
            if st.value is None:
                out += self.ret(self.retval())
            else:
                lines, a = self.expr(st.value)
                out += lines + self.ret(a)
            return True
        if isinstance(st, ast.Raise):
            out.append(self.raise_(st))
            return True
        if isinstance(st, ast.Continue):
            if self.cont is None:
                self.fail(st, "continue outside a while loop")
            out += self.cont()
            return True
        if isinstance(st, ast.Break):
            if self.brk is None:
                self.fail(st, "break outside a while loop")
            out += self.brk()
            return True
        if isinstance(st, ast.If):
            return self.if_(st, rest, k, out)
        if isinstance(st, ast.For):
            self.for_(st, out)
            return False
        if isinstance(st, ast.While):
            self.while_(st, rest, k, out)
            return True
        if isinstance(st, ast.Try):
            return self.try_(st, rest, k, out)
        if isinstance(st, ast.With):
            return self.try_(self.with_suppress(st), rest, k, out)
        self.fail(st, type(st).__name__)

    def assign(self, st, out):
        if isinstance(st, ast.Assign):
            if len(st.targets) != 1:
                self.fail(st, "chained assignment")
            target, value = st.targets[0], st.value
        elif isinstance(st, ast.AnnAssign):
            if st.value is None:
                return
            target, value = st.target, st.value
        else:
            if type(st.op) not in BINOPS:
                self.fail(st, "operator " + type(st.op).__name__)
            if self.is_self_attr(st.target):
                # self.x op= e : read the attribute, evaluate e, operate, assign the attribute
                l1, a = self.expr(ast.Attribute(value=st.target.value, attr=st.target.attr, ctx=ast.Load(), lineno=st.lineno))
                l2, b = self.expr(st.value)
                out += l1 + l2
                t = self.fresh()
                out.append(f"let {t} ← {self.P(BINOPS[type(st.op)])} {a} {b}")
                out.append(f"let v_self ← {self.P('setattr')} v_self {lean_str(st.target.attr)} {t}")
                return
            if not isinstance(st.target, ast.Name):
                self.fail(st, "augmented assignment to something other than a name")
            # x op= e  on immutable values (ints, bytes, str): x = x op e
            l1, a = self.expr(ast.Name(id=st.target.id, ctx=ast.Load(), lineno=st.lineno))
            l2, b = self.expr(st.value)
            out += l1 + l2
            out.append(f"let v_{st.target.id} ← {self.P(BINOPS[type(st.op)])} {a} {b}")
            return
        lines, a = self.expr(value)
        out += lines
        if isinstance(target, ast.Name):
            out.append(f"let v_{target.id} := {a}")
            self.bound.add(target.id)
            return
        if self.is_self_attr(target):
            out.append(f"let v_self ← {self.P('setattr')} v_self {lean_str(target.attr)} {a}")
            return
        if isinstance(target, ast.Tuple) and all(isinstance(e, ast.Name) for e in target.elts) and 2 <= len(target.elts) <= 5:
            names = [e.id for e in target.elts]
            out.append(f"let ({', '.join('v_' + x for x in names)}) ← {self.P('unpack' + str(len(names)))} {a}")
            self.bound |= set(names)
            return
        if isinstance(target, ast.Subscript) and isinstance(target.value, ast.Name) and not isinstance(target.slice, ast.Slice) \
                and target.value.id in self.bound and not self.nested:
            # x[k] = v : value, then container, then key (Python's order); a value operation, x is rebound
            x = target.value.id
            l, kk = self.expr(target.slice)
            out += l
            out.append(f"let v_{x} ← {self.P('setitem')} v_{x} {kk} {a}")
            return
        self.fail(st, "assignment target (slice / attribute assignment, item assignment to something other than a local name)")

    def check_own_list(self, st, x):
        """`x.append(e)` is a value operation (`x = x + [e]`) only when nobody else can see the list: x is a local assigned
        exactly once, from a list display / comprehension of this function, and every read of x other than as the
        receiver of an append statement comes after the (outermost) statement holding the last append has ended"""
        if self.nested:
            self.fail(st, f"{x}.append(...) inside a nested scope")
        if x in self.info["params"] or x not in self.bound:
            self.fail(st, f"{x}.append(...): {x} is a parameter / not a local list of this function (the caller sees the mutation)")
        stores, appends, recv = [], [], set()
        for n in ast.walk(self.node):
            if isinstance(n, (ast.Assign, ast.AnnAssign)) and getattr(n, "value", None) is not None:
                for t in (n.targets if isinstance(n, ast.Assign) else [n.target]):
                    if any(isinstance(m, ast.Name) and m.id == x for m in ast.walk(t)):
                        stores.append(n)
            elif isinstance(n, (ast.AugAssign, ast.NamedExpr, ast.For, ast.comprehension)):
                if any(isinstance(m, ast.Name) and m.id == x and isinstance(m.ctx, ast.Store) for m in ast.walk(n.target)):
                    self.fail(st, f"{x}.append(...): {x} is also assigned by an augmented assignment / loop / assignment expression")
            if is_append_stmt(n) and n.value.func.value.id == x:
                appends.append(n)
                recv.add(id(n.value.func.value))
        if len(stores) != 1 or not isinstance(stores[0].value, (ast.List, ast.ListComp)) \
                or not (isinstance(stores[0], ast.AnnAssign) or isinstance(stores[0].targets[0], ast.Name)):
            self.fail(st, f"{x}.append(...): {x} is not assigned exactly once from a list display / comprehension (the list may be shared)")
        last = max(a.lineno for a in appends)
        top = next(t for t in self.node.body if t.lineno <= last <= t.end_lineno)
        for n in ast.walk(self.node):
            if isinstance(n, ast.Name) and n.id == x and isinstance(n.ctx, ast.Load) and id(n) not in recv and n.lineno <= top.end_lineno:
                self.fail(st, f"{x}.append(...): {x} is read (line {n.lineno}) before the last append to it has finished (aliasing)")

    def is_self_attr(self, t):
        if isinstance(t, ast.Attribute) and isinstance(t.value, ast.Name) and t.value.id == "self" and self.stateful:
            if self.nested:
                self.fail(t, "assignment to an attribute of self inside a nested scope")
            return True
        return False

    def raise_(self, st):
        e = st.exc
        if e is None:
            self.fail(st, "bare raise")
        name = None
        if isinstance(e, ast.Name):
            name = e.id
        elif isinstance(e, ast.Call) and isinstance(e.func, ast.Name):
            name = e.func.id
            for a in e.args:
                if not isinstance(a, (ast.Constant, ast.JoinedStr)):
                    self.fail(st, "exception argument other than a (formatted) string")
        if name not in EXCEPTIONS:
            self.fail(st, f"raise of {name}")
        return f"throw PyErr.{EXCEPTIONS[name]}"

    def merged(self, branches, out, wrap):
        """control-flow statement without return/continue/break inside: the variables assigned in
        the branches are threaded as a tuple.  branches: list of statement lists."""
        names = []
        for b in branches:
            for x in self.assigned(b):
                if x not in names:
                    names.append(x)
        for x in names:
            if x not in self.bound:
                # must be assigned in every branch before the join
                if not all(x in self.assigned(b) and b for b in branches):
                    raise Unsupported(f"{self.mod.rel} in {self.info['qual']}: variable {x} is bound on some paths only")
        return names

    def branch(self, stmts, names):
        saved = set(self.bound)
        lines = self.block(stmts, lambda: [f"pure {self.tuple_pat(names)}"])
        self.bound = saved
        return lines

    def if_(self, st, rest, k, out):
        t = st.test
        if isinstance(t, ast.BoolOp) and isinstance(t.op, ast.And) and any(isinstance(x, ast.NamedExpr) for x in ast.walk(t)):
            # `if A and B: S else: T` with assignment expressions in the operands is
            # `if A: (if B: S else: T) else: T` — the names B binds are unbound on the path where A is false
            restt = t.values[1] if len(t.values) == 2 else ast.BoolOp(op=ast.And(), values=t.values[1:])
            inner = ast.copy_location(ast.If(test=ast.copy_location(restt, t), body=st.body, orelse=st.orelse), st)
            outer = ast.copy_location(ast.If(test=t.values[0], body=[inner], orelse=st.orelse), st)
            inner.end_lineno = outer.end_lineno = st.end_lineno
            return self.if_(outer, rest, k, out)
        lines, c0 = self.expr(st.test)
        out += lines
        c = self.fresh()
        out.append(f"let {c} ← {self.P('truthy')} {c0}")
        if has_transfer(st.body) or has_transfer(st.orelse):
            # continuation passing: the rest of the block is copied into both branches
            saved = set(self.bound)
            k2 = lambda: self.block(list(rest), k)
            a = self.block(list(st.body), k2)
            self.bound = set(saved)
            b = self.block(list(st.orelse), k2)
            out += [f"if {c} then do"] + indent(a) + ["else do"] + indent(b)
            return True
        names = self.merged([st.body, st.orelse] if st.orelse else [st.body], out, None)
        a = self.branch(st.body, names)
        b = self.branch(st.orelse, names) if st.orelse else [f"pure {self.tuple_pat(names)}"]
        mon = "IOM" if self.is_async else "PyM"
        ty = "Unit" if not names else " × ".join("V" for _ in names)
        out += [f"let {self.tuple_pat(names)} ← (if {c} then (do"] + indent(a, 4) + ["  ) else (do"] + indent(b, 4) + [f"  : {mon} ({ty})))"]
        self.bound |= set(names)
        return False

    def for_(self, st, out):
        if st.orelse or not isinstance(st.target, ast.Name):
            self.fail(st, "for ... else / tuple target")
        if has_transfer(st.body):
            self.fail(st, "return / continue / break inside a for loop")
        t = st.target.id
        for n in ast.walk(self.node):
            if isinstance(n, ast.Name) and n.id == t and not (st.lineno <= n.lineno <= st.end_lineno):
                self.fail(st, f"loop variable {t} used outside the loop")
        lines, it = self.expr(st.iter)
        out += lines
        names = [x for x in self.assigned(st.body) if x != t]
        for x in list(names):
            if x not in self.bound:
                # a variable first assigned inside the loop and never mentioned outside it is local to one iteration
                # (a read before its assignment in an iteration is then an unbound name: rejected / UnboundLocalError)
                if any(isinstance(n, ast.Name) and n.id == x and not (st.lineno <= n.lineno <= st.end_lineno)
                       for n in ast.walk(self.node)):
                    self.fail(st, f"variable {x} first assigned inside a for loop and used outside it")
                names.remove(x)
        saved = set(self.bound)
        self.bound.add(t)
        body = self.block(list(st.body), lambda: [f"pure {self.tuple_pat(names)}"])
        self.bound = saved
        prim = "forLoopIO" if self.is_async else "forLoop"
        out += [f"let {self.tuple_pat(names)} ← {self.P(prim)} {it} {self.tuple_pat(names)} (fun v_{t} {self.tuple_pat(names)} => do"] + indent(body, 4) + ["  )"]

    def while_(self, st, rest, k, out):
        if st.orelse:
            self.fail(st, "while ... else")
        if self.loop is not None:
            self.fail(st, "nested while loops")
        for n in ast.walk(st):
            if isinstance(n, (ast.While, ast.For)) and n is not st and has_transfer(n.body if hasattr(n, "body") else []):
                self.fail(n, "loop with return/continue/break nested in a while loop")
        self.needs_fuel = True
        names = self.assigned([st])
        walrus = [n.target.id for n in ast.walk(st.test) if isinstance(n, ast.NamedExpr)]
        init = []
        for x in names:
            if x in self.bound:
                init.append("v_" + x)
            elif x in walrus:
                init.append("V.none")      # assigned by the loop condition before any use
            else:
                self.fail(st, f"variable {x} first assigned inside a while loop")
        pat = self.tuple_pat(names)
        init_t = "()" if not init else (init[0] if len(init) == 1 else "(" + ", ".join(init) + ")")
        saved_bound = set(self.bound)
        saved = (self.ret, self.cont, self.brk, self.loop)
        self.loop = names
        self.bound |= set(names)
        self.ret = lambda atom: [f"pure (Step.ret {self.wrap(atom)})"]
        self.cont = lambda: [f"pure (Step.next {pat})"]
        self.brk = lambda: [f"pure (Step.done {pat})"]
        lines, c0 = self.expr(st.test)
        c = self.fresh()
        body = self.block(list(st.body), self.cont)
        it = lines + [f"let {c} ← {self.P('truthy')} {c0}", f"if {c} then do"] + indent(body) + [f"else pure (Step.done {pat})"]
        self.ret, self.cont, self.brk, self.loop = saved
        # after the loop: the rest of the block
        after = self.block(list(rest), k)
        self.bound = saved_bound | set(names)
        prim = "whileLoopIO" if self.is_async else "whileLoop"
        out += [f"{self.P(prim)} fuel {init_t}", f"  (fun {pat} => do"] + indent(it, 4) + ["  )", f"  (fun {pat} => do"] + indent(after, 4) + ["  )"]

    def with_suppress(self, st):
        """`with suppress(E1, …): S` (contextlib.suppress, no `as`, S ONE statement without return / continue / break)
        is `try: S  except (E1, …): pass`"""
        it = st.items[0] if len(st.items) == 1 else None
        c = it.context_expr if it is not None else None
        if it is None or it.optional_vars is not None or not (isinstance(c, ast.Call) and isinstance(c.func, ast.Name) and not c.keywords
                                                                and c.args and all(isinstance(a, ast.Name) for a in c.args)):
            self.fail(st, "with statement other than `with suppress(<exception classes>):`")
        r = self.tr.repo.resolve(self.mod, c.func.id)
        if c.func.id in self.locals or not (r and r[0] == "ext" and r[1] == "contextlib" and r[2] == "suppress"):
            self.fail(st, f"with {c.func.id}(...): only contextlib.suppress is understood")
        if len(st.body) != 1 or has_transfer(st.body) or isinstance(st.body[0], (ast.For, ast.While, ast.If, ast.Try, ast.With)):
            self.fail(st, "with suppress(...): a body other than one simple statement")
        h = ast.ExceptHandler(type=ast.Tuple(elts=list(c.args), ctx=ast.Load()) if len(c.args) > 1 else c.args[0], name=None,
                              body=[ast.copy_location(ast.Pass(), st)])
        ast.copy_location(h, st)
        t = ast.Try(body=st.body, handlers=[h], orelse=[], finalbody=[])
        ast.copy_location(t, st)
        t.end_lineno = st.end_lineno
        return t

    def catch_list(self, st, h):
        t = h.type
        if t is None:
            self.fail(st, "bare except")
        names = [e for e in t.elts] if isinstance(t, ast.Tuple) else [t]
        out = []
        for e in names:
            if not isinstance(e, ast.Name):
                self.fail(st, "except clause")
            if e.id == "Exception":
                out.append("Catch.exception")
            elif e.id in EXCEPTIONS:
                out.append(f"Catch.cls PyErr.{EXCEPTIONS[e.id]}")
            else:
                self.fail(st, f"except {e.id}")
        return "[" + ", ".join(out) + "]"

    def try_finally(self, st, rest, k, out):
        """`try: S  finally: F` where S assigns nothing (no local, no attribute of self, no yield) and F has no
        return / continue / break: the outcome of S (fell through / returned a value / raised) is a VALUE `PyM (Option V)`;
        F runs next, whatever the outcome (an exception of F supersedes it); then the outcome takes effect"""
        if self.is_async:
            self.fail(st, "try ... finally in a coroutine")
        if self.assigned(st.body):
            self.fail(st, "try ... finally whose body assigns a variable / an attribute of self / yields")
        if has_transfer(st.finalbody) or any(isinstance(n, (ast.While, ast.Raise)) for f in st.finalbody for n in ast.walk(f)):
            self.fail(st, "return / continue / break / raise / while inside a finally block")
        if any(isinstance(n, (ast.Continue, ast.Break, ast.NamedExpr)) for b in st.body for n in ast.walk(b)):
            self.fail(st, "continue / break / assignment expression inside try ... finally")
        t, r = self.fresh(), self.fresh()
        saved, saved_bound = (self.ret, self.cont, self.brk), set(self.bound)
        self.ret = lambda atom: [f"pure (some {atom})"]
        self.cont = self.brk = None
        body = self.block(list(st.body), lambda: ["pure Option.none"])
        self.ret, self.cont, self.brk = saved
        self.bound = saved_bound
        out += [f"let {t} : PyM (Option V) := (do"] + indent(body, 4) + ["  )", "-- finally:"]
        out += self.block(list(st.finalbody), lambda: [])
        out += [f"match {t} with", "| .error e => throw e", f"| .ok (some {r}) => do"] + indent(self.ret(r)) + \
               ["| .ok Option.none => do"] + indent(self.block(list(rest), k))
        return True

    def try_(self, st, rest, k, out):
        if st.finalbody and not st.handlers and not st.orelse:
            return self.try_finally(st, rest, k, out)
        if st.finalbody or st.orelse or len(st.handlers) != 1:
            self.fail(st, "try with finally / else / several handlers")
        h = st.handlers[0]
        cs = self.catch_list(st, h)
        if h.name:
            for n in ast.walk(ast.Module(body=h.body, type_ignores=[])):
                if isinstance(n, ast.Name) and n.id == h.name:
                    # allowed only as `raise X from e` or inside exception messages
                    pass
        prim = "tryExceptIO" if self.is_async else "tryExcept"
        if not has_transfer(st.body) and has_transfer(h.body) and terminates(h.body) and not self.is_async \
                and self.loop is None and self.ret is self.top_ret:
            # the body falls through (assigning `names`), every path of the handler returns / raises: the outcome is a Sum
            names = self.assigned(st.body)
            pat = self.tuple_pat(names)
            ty = "Unit" if not names else " × ".join("V" for _ in names)
            rty = "V × V" if self.stateful else "V"
            saved = set(self.bound)
            body = self.block(list(st.body), lambda: [f"pure (Sum.inl {pat})"])
            self.bound = set(saved)
            self.ret = lambda atom: [f"pure (Sum.inr {self.wrap(atom)})"]
            handler = ["-- " + self.mod.lines[h.lineno - 1].strip()] + self.block(list(h.body), lambda: ["throw PyErr.unsupported"])
            self.ret = self.top_ret
            self.bound = saved | set(names)
            t = self.fresh()
            out += [f"let {t} ← {self.P(prim)} (do"] + indent(body, 4) + [f"    : PyM (Sum ({ty}) ({rty}))) {cs} (do"] + indent(handler, 4) + ["  )"]
            out += [f"match {t} with", "| .inr r => pure r", f"| .inl {pat} => do"] + indent(self.block(list(rest), k))
            return True
        if has_transfer(st.body) or has_transfer(h.body):
            if not terminates(st.body):
                self.fail(st, "try body that both returns and falls through")
            saved = set(self.bound)
            body = self.block(list(st.body), lambda: ["throw PyErr.unsupported"])
            self.bound = set(saved)
            hk = lambda: self.block(list(rest), k)
            handler = ["-- " + self.mod.lines[h.lineno - 1].strip()] + self.block(list(h.body), hk)
            self.bound = saved
            out += [f"{self.P(prim)} (do"] + indent(body, 4) + [f"  ) {cs} (do"] + indent(handler, 4) + ["  )"]
            return True
        names = self.assigned(st.body) + [x for x in self.assigned(h.body) if x not in self.assigned(st.body)]
        for x in names:
            if x not in self.bound and not (x in self.assigned(st.body) and terminates(h.body)):
                self.fail(st, f"variable {x} is bound on some paths only")
        a = self.branch(st.body, names)
        b = ["-- " + self.mod.lines[h.lineno - 1].strip()] + self.branch(h.body, names)
        out += [f"let {self.tuple_pat(names)} ← {self.P(prim)} (do"] + indent(a, 4) + [f"  ) {cs} (do"] + indent(b, 4) + ["  )"]
        self.bound |= set(names)
        return False


def main():
    if len(sys.argv) != 3:
        print(__doc__)
        return 2
    repo, outdir = sys.argv[1], sys.argv[2]
    tr = Translator(repo)
    errors = []
    for rel, qual in TARGETS:
        try:
            tr.function(rel, qual)
        except Unsupported as e:
            errors.append(f"{qual}: {e}")
        except (OSError, SyntaxError) as e:
            errors.append(f"{rel}: {qual}: {e}")
    for e in errors:
        print("py2lean: " + e)
    if errors:
        print(f"py2lean: {len(errors)} function(s) outside the subset are NOT in Generated/PyCode.lean: the tie theorems about them "
              "cannot be re-checked against this source")
    text = tr.emit()
    path = os.path.join(outdir, "PyCode.lean")
    try:
        with open(path) as f:
            if f.read() == text:
                print(f"py2lean: {len(tr.order)} functions, unchanged")
                return 1 if errors else 0
    except FileNotFoundError:
        pass
    os.makedirs(outdir, exist_ok=True)
    with open(path, "w") as f:
        f.write(text)
    print(f"py2lean: {len(tr.order)} functions written to {path}")
    return 1 if errors else 0


if __name__ == "__main__":
    sys.exit(main())

#!/usr/bin/env python3
"""Single entry point of the verification machinery.

  check.py --setup                                   build everything once (MANIFEST.setup_cmd)
  check.py --property C07 --tier quick|thorough      decide one property on /repo's current tree
  check.py --property C07 --replay evidence/replay/C07-0.json

Per property (see DESIGN.md section 2.5):
  1. translator: regenerate lean/PlumVerif/Generated from $VERIF_REPO (default /repo)
  2. `lake build` of the property's theorem module (and the model driver); extra
     kernel obligations (C17 chunks) where a property has them
  3. audit: no sorry/admit/axiom/native_decide/... in the sources, `#print axioms`
     of every property theorem within {propext, Classical.choice, Quot.sound}
  4. correspondence harness: implementation vs executable model on generated inputs,
     the property's own predicate judged on what the implementation did
  5. verdict, evidence/<id>.json, exit 0 / 1 (+ VIOLATION line) / 2 (machinery error)
"""
import argparse
import fcntl
import hashlib
import json
import os
import re
import subprocess
import sys
import time

VERIF = os.path.dirname(os.path.abspath(__file__))
LEAN = os.path.join(VERIF, "lean")
REPO = os.environ.get("VERIF_REPO", "/repo")
PY = os.environ.get("VERIF_PYTHON", "/venv/bin/python")
ALLOWED_AXIOMS = {"propext", "Classical.choice", "Quot.sound"}
FORBIDDEN = re.compile(r"\bsorry\b|\badmit\b|^\s*axiom\s|\bnative_decide\b|\bbv_decide\b|implemented_by|\bunsafe\s|maxHeartbeats\s+0\b|\bextern\b", re.M)

sys.path.insert(0, VERIF)
import registry  # noqa: E402  (per-property metadata)


def log(*a):
    print(*a, file=sys.stderr, flush=True)


def run(cmd, cwd=None, timeout=None, env=None):
    p = subprocess.run(cmd, cwd=cwd, stdout=subprocess.PIPE, stderr=subprocess.STDOUT, text=True, timeout=timeout, env=env)
    return p.returncode, p.stdout


class Lock:
    def __enter__(self):
        os.makedirs(os.path.join(LEAN, ".lake"), exist_ok=True)
        self.f = open(os.path.join(LEAN, ".lake", "verif.lock"), "w")
        fcntl.flock(self.f, fcntl.LOCK_EX)
        return self

    def __exit__(self, *a):
        fcntl.flock(self.f, fcntl.LOCK_UN)
        self.f.close()


def strip_comments(src):
    src = re.sub(r"/-.*?-/", " ", src, flags=re.S)
    return re.sub(r"--[^\n]*", "", src)


def lean_sources():
    out = [os.path.join(LEAN, "Main.lean"), os.path.join(LEAN, "PlumVerif.lean")]
    for root, _, files in os.walk(os.path.join(LEAN, "PlumVerif")):
        for fn in files:
            if fn.endswith(".lean"):
                out.append(os.path.join(root, fn))
    return sorted(out)


def grep_audit():
    hits = []
    for p in lean_sources():
        with open(p) as f:
            src = strip_comments(f.read())
        for m in FORBIDDEN.finditer(src):
            hits.append(f"{os.path.relpath(p, LEAN)}: {m.group(0).strip()}")
    return hits


def translate():
    os.makedirs(os.path.join(VERIF, "build"), exist_ok=True)
    rc, out = run([PY, os.path.join(VERIF, "tools", "gen_tables.py"), REPO,
                   os.path.join(LEAN, "PlumVerif", "Generated"), os.path.join(VERIF, "build", "tables.json")])
    return rc, out


def lake_build(targets, timeout=3000):
    t0 = time.time()
    rc, out = run(["lake", "build"] + targets, cwd=LEAN, timeout=timeout)
    failed = re.findall(r"^✖ \[\d+/\d+\] (?:Building|Running) (\S+)", out, re.M)
    errors = [ln for ln in out.splitlines() if ln.startswith("error:")][:20]
    return dict(rc=rc, failed=failed, errors=errors, wall_s=round(time.time() - t0, 2), tail=out[-3000:] if rc else "")


def theorem_names(prop):
    path = os.path.join(LEAN, "PlumVerif", "Props", f"{prop}.lean")
    if not os.path.exists(path):
        return []
    with open(path) as f:
        src = strip_comments(f.read())
    names = []
    ns = []
    for ln in src.splitlines():
        m = re.match(r"\s*namespace\s+(\S+)", ln)
        if m:
            ns.append(m.group(1))
            continue
        m = re.match(r"\s*end\s+(\S+)", ln)
        if m and ns and ns[-1] == m.group(1):
            ns.pop()
            continue
        m = re.match(r"\s*(?:@\[[^\]]*\]\s*)?(?:private\s+|protected\s+)?theorem\s+([^\s:({\[]+)", ln)
        if m:
            names.append(".".join(ns + [m.group(1)]))
    return names


def print_axioms(prop, names):
    """returns {theorem: [axioms]} using `#print axioms`; missing theorem -> None"""
    if not names:
        return {}
    d = os.path.join(LEAN, ".lake", "audit")
    os.makedirs(d, exist_ok=True)
    path = os.path.join(d, f"{prop}_{os.getpid()}.lean")
    with open(path, "w") as f:
        f.write(f"import PlumVerif.Props.{prop}\n")
        for n in names:
            f.write(f"#print axioms {n}\n")
    rc, out = run(["lake", "env", "lean", path], cwd=LEAN, timeout=1200)
    os.unlink(path)
    res = {n: None for n in names}
    flat = re.sub(r"\s+", " ", out)
    for n in names:
        m = re.search(r"'" + re.escape(n) + r"' depends on axioms: \[([^\]]*)\]", flat)
        if m:
            res[n] = [a.strip() for a in m.group(1).split(",") if a.strip()]
        elif re.search(r"'" + re.escape(n) + r"' does not depend on any axioms", flat):
            res[n] = []
    return res, (out if rc else "")


def run_harness(prop, tier, seed, replay=None, timeout=None):
    os.makedirs(os.path.join(VERIF, "build"), exist_ok=True)
    out = os.path.join(VERIF, "build", f"harness_{prop}_{os.getpid()}.json")
    cmd = [PY, os.path.join(VERIF, "harness", "run.py"), prop, tier, str(seed), out]
    if replay:
        cmd.append(replay)
    env = dict(os.environ)
    env["VERIF_REPO"] = REPO
    env["PYTHONDONTWRITEBYTECODE"] = "1"
    env.pop("PYTHONPATH", None)
    try:
        p = subprocess.run(cmd, cwd=VERIF, env=env, stdout=subprocess.PIPE, stderr=subprocess.STDOUT, text=True, timeout=timeout)
    except subprocess.TimeoutExpired:
        return dict(status="error", error=f"harness timeout after {timeout}s")
    try:
        with open(out) as f:
            j = json.load(f)
        os.unlink(out)
    except Exception as e:  # noqa: BLE001
        return dict(status="error", error=f"harness produced no result ({e}); rc={p.returncode}; output: {p.stdout[-3000:]}")
    j["stdout_tail"] = p.stdout[-1500:]
    return j


def load_known():
    p = os.path.join(VERIF, "known_findings.json")
    if not os.path.exists(p):
        return dict(open=[], fixed=[])
    with open(p) as f:
        return json.load(f)


def write_json(path, obj):
    os.makedirs(os.path.dirname(path), exist_ok=True)
    tmp = path + f".tmp{os.getpid()}"
    with open(tmp, "w") as f:
        json.dump(obj, f, indent=1, default=str)
        f.write("\n")
    os.replace(tmp, path)


def setup():
    t0 = time.time()
    with Lock():
        rc, out = translate()
        if rc:
            log(out)
            return 2
        b = lake_build(["PlumVerif", "driver"])
        if b["rc"]:
            log(b["tail"])
            return 2
        for prop, meta in sorted(registry.PROPS.items()):
            extra = meta.get("extra_obligations")
            if extra:
                r = extra(dict(lean=LEAN, verif=VERIF, repo=REPO, log=log))
                if not r.get("ok"):
                    log(f"setup: extra obligations of {prop} not discharged: {r}")
                    return 2
    log(f"setup done in {time.time() - t0:.1f}s")
    return 0


def check(prop, tier, seed, replay=None):
    t0 = time.time()
    meta = registry.PROPS[prop]
    evidence_path = os.path.join(VERIF, "evidence", f"{prop}.json")
    problems = []       # broken proof obligations / audit problems (strings)
    build_info = {}
    with Lock():
        rc, out = translate()
        if rc:
            # the translator could not read the tables from the source: the model is no longer tied
            problems.append("translator failed: " + out[-800:])
            build_info["translator"] = out[-800:]
        b = lake_build(["driver"])
        build_info["driver"] = b
        driver_ok = b["rc"] == 0
        if not driver_ok:
            problems.append(f"model/driver does not build: {b['failed']} {b['errors'][:3]}")
        pb = lake_build([f"PlumVerif.Props.{prop}"])
        build_info["props"] = pb
        props_ok = pb["rc"] == 0
        if not props_ok:
            problems.append(f"proof obligation broken: lake build PlumVerif.Props.{prop} failed in {pb['failed']}: {pb['errors'][:3]}")
        extra_res = None
        if meta.get("extra_obligations"):
            extra_res = meta["extra_obligations"](dict(lean=LEAN, verif=VERIF, repo=REPO, log=log))
            if not extra_res.get("ok"):
                problems.append(f"extra kernel obligations not discharged: {extra_res.get('failed')}")
    names = theorem_names(prop)
    axioms = {}
    if props_ok and names:
        axioms, aout = print_axioms(prop, names)
        for n, ax in axioms.items():
            if ax is None:
                problems.append(f"audit: could not print axioms of {n}")
            elif not set(ax) <= ALLOWED_AXIOMS:
                problems.append(f"audit: {n} depends on {sorted(set(ax) - ALLOWED_AXIOMS)}")
    hits = grep_audit()
    if hits:
        problems.append("audit: forbidden tokens in Lean sources: " + "; ".join(hits[:10]))
    obligations = len(names) + (extra_res.get("obligations", 0) if extra_res else 0)
    discharged = (sum(1 for n in names if axioms.get(n) is not None and set(axioms[n]) <= ALLOWED_AXIOMS) if props_ok else 0)
    discharged += extra_res.get("discharged", 0) if extra_res else 0

    # correspondence
    timeout = meta.get("timeout", {}).get(tier, 900 if tier == "quick" else 3600)
    h = run_harness(prop, tier, seed, replay=replay, timeout=timeout)
    if h.get("status") != "ok":
        log(f"{prop}: harness error: {h.get('error')}\n{h.get('traceback', '')}\n{h.get('stdout_tail', '')}")
        if not driver_ok:
            # without the model there is no correspondence; the broken build is the finding
            h = dict(status="ok", evaluations=0, distinct_nontrivial=0, rule="harness could not run: model does not build",
                     samples=[], failures=[], distribution={}, notes=[h.get("error")], exhaustive=False, extra={})
        else:
            write_evidence(evidence_path, prop, tier, seed, meta, names, axioms, obligations, discharged, h, problems, t0, build_info, error=h.get("error"))
            return 2

    known = load_known()
    open_ids = {k["id"]: k for k in known.get("open", []) if k["property"] == prop}
    failures = h.get("failures", [])
    known_hits, new_fail = {}, []
    for f in failures:
        fid = f.get("finding")
        if fid and fid in open_ids:
            known_hits.setdefault(fid, f)
        else:
            new_fail.append(f)
    for fid, f in sorted(known_hits.items()):
        print(f"KNOWN-FINDING: property={prop} {fid}: {open_ids[fid]['what']}")
    violations = 0
    exit_code = 0
    if new_fail or problems:
        spec = [f for f in new_fail if f["kind"] == "spec"]
        corr = [f for f in new_fail if f["kind"] != "spec"]
        rp = os.path.join(VERIF, "evidence", "replay", f"{prop}-{seed}.json")
        if spec:
            f = spec[0]
            write_json(rp, dict(property=prop, kind="failing-input", seed=seed, tier=tier, failure=f,
                                other_failures=len(new_fail) - 1, broken_obligations=problems))
            print(f"VIOLATION property={prop} replay={os.path.relpath(rp, VERIF)}")
            violations = len(spec)
        else:
            what = problems + [f"correspondence broken: {c['clause']}" for c in corr[:3]]
            write_json(rp, dict(property=prop, kind="no-failing-input-found", seed=seed, tier=tier,
                                broken=what, first_difference=corr[0] if corr else None,
                                searched=dict(evaluations=h.get("evaluations"), tier=tier),
                                build=build_info))
            print(f"VIOLATION property={prop} replay={os.path.relpath(rp, VERIF)} no-failing-input-found")
            violations = max(1, len(corr))
        exit_code = 1
    write_evidence(evidence_path, prop, tier, seed, meta, names, axioms, obligations, discharged, h, problems, t0, build_info,
                   violations=violations, known=sorted(known_hits))
    return exit_code


def write_evidence(path, prop, tier, seed, meta, names, axioms, obligations, discharged, h, problems, t0, build_info,
                   violations=0, known=(), error=None):
    cov = dict(
        obligations=max(obligations, 1) if names else obligations,
        discharged=discharged,
        checker_cmd=f"cd lean && lake build PlumVerif.Props.{prop} && lake env lean <#print axioms of each theorem>"
                    + (" ; " + meta["extra_cmd"] if meta.get("extra_cmd") else ""),
        trusted_base=[
            "Lean 4.33.0 kernel; axioms of each theorem as listed under theorems (allowed: propext, Classical.choice, Quot.sound)",
            "tools/gen_tables.py (translator: tables/constants read from the imported source)",
            "harness (correspondence: implementation vs executable Lean model through the line-protocol driver)",
        ] + meta.get("trusted", []),
        theorems=[dict(name=n, axioms=axioms.get(n)) for n in names],
        evaluations=h.get("evaluations", 0),
        distinct_nontrivial=h.get("distinct_nontrivial", 0),
        rule=h.get("rule", ""),
        samples=h.get("samples", []) or [dict(note="no samples recorded")],
        exhaustive=bool(h.get("exhaustive")),
        input_distribution=h.get("distribution", {}),
        correspondence_failures=len(h.get("failures", [])),
        broken_obligations=problems,
        known_findings_reproduced=list(known),
        clauses=meta.get("clauses", {}),
        notes=h.get("notes", []),
        extra=h.get("extra", {}),
        build=dict(driver_wall_s=build_info.get("driver", {}).get("wall_s"), props_wall_s=build_info.get("props", {}).get("wall_s")),
    )
    if error:
        cov["error"] = error
    ev = dict(property_id=prop, tier=tier, seed=seed, level=meta.get("level", "proof"), coverage=cov,
              assumptions=meta.get("assumptions", []), wall_s=round(time.time() - t0, 2), violations=violations)
    write_json(path, ev)


def main():
    ap = argparse.ArgumentParser()
    ap.add_argument("--setup", action="store_true")
    ap.add_argument("--property")
    ap.add_argument("--tier", default=os.environ.get("VERIF_TIER", "quick"), choices=["quick", "thorough"])
    ap.add_argument("--replay")
    a = ap.parse_args()
    if a.setup:
        return setup()
    if not a.property or a.property not in registry.PROPS:
        log("unknown property; known: " + " ".join(sorted(registry.PROPS)))
        return 2
    seed = int(os.environ.get("VERIF_SEED", "0") or 0)
    try:
        return check(a.property, a.tier, seed, replay=a.replay)
    except subprocess.TimeoutExpired as e:
        log(f"timeout: {e}")
        return 2


if __name__ == "__main__":
    sys.exit(main())

#!/usr/bin/env python3
"""Single entry point of the verification machinery.

  check.py --setup                                   build everything once (MANIFEST.setup_cmd)
  check.py --property C07 --tier quick|thorough      decide one property on /repo's current tree
  check.py --property C07 --replay evidence/replay/C07-0.json

Per property (see DESIGN.md section 2.5):
  1. translator: regenerate lean/PlumVerif/Generated from $VERIF_REPO (default /repo)
  2. `lake build` of the property's theorem module (and the model driver); extra
     kernel obligations (C17 chunks) where a property has them
  3. audit: no sorry/admit/axiom/native_decide/... in the sources, `#print axioms`
     of every property theorem within {propext, Classical.choice, Quot.sound}
  4. correspondence harness: implementation vs executable model on generated inputs,
     the property's own predicate judged on what the implementation did
  5. verdict, evidence/<id>.json, exit 0 / 1 (+ VIOLATION line) / 2 (machinery error)
"""
import argparse
import fcntl
import hashlib
import json
import atexit
import shutil
import os
import re
import subprocess
import sys
import time

VERIF = os.path.dirname(os.path.abspath(__file__))
LEAN = os.path.join(VERIF, "lean")
REPO = os.environ.get("VERIF_REPO", "/repo")
PY = os.environ.get("VERIF_PYTHON", "/venv/bin/python")
ALLOWED_AXIOMS = {"propext", "Classical.choice", "Quot.sound"}
FORBIDDEN = re.compile(r"\bsorry\b|\badmit\b|^\s*axiom\s|\bnative_decide\b|\bbv_decide\b|implemented_by|\bunsafe\s|maxHeartbeats\s+0\b|\bextern\b", re.M)

sys.path.insert(0, VERIF)
import registry  # noqa: E402  (per-property metadata)


def log(*a):
    print(*a, file=sys.stderr, flush=True)


def run(cmd, cwd=None, timeout=None, env=None):
    p = subprocess.run(cmd, cwd=cwd, stdout=subprocess.PIPE, stderr=subprocess.STDOUT, text=True, timeout=timeout, env=env)
    return p.returncode, p.stdout


class Lock:
    def __enter__(self):
        os.makedirs(os.path.join(LEAN, ".lake"), exist_ok=True)
        self.f = open(os.path.join(LEAN, ".lake", "verif.lock"), "w")
        fcntl.flock(self.f, fcntl.LOCK_EX)
        return self

    def share(self):
        """builds are done: keep readers of the build products out of the way of the next builder only"""
        fcntl.flock(self.f, fcntl.LOCK_SH)

    def __exit__(self, *a):
        fcntl.flock(self.f, fcntl.LOCK_UN)
        self.f.close()


def strip_comments(src):
    src = re.sub(r"/-.*?-/", " ", src, flags=re.S)
    return re.sub(r"--[^\n]*", "", src)


def lean_sources():
    out = [os.path.join(LEAN, "Main.lean"), os.path.join(LEAN, "PlumVerif.lean")]
    for root, _, files in os.walk(os.path.join(LEAN, "PlumVerif")):
        for fn in files:
            if fn.endswith(".lean"):
                out.append(os.path.join(root, fn))
    return sorted(out)


def grep_audit():
    hits = []
    for p in lean_sources():
        with open(p) as f:
            src = strip_comments(f.read())
        for m in FORBIDDEN.finditer(src):
            hits.append(f"{os.path.relpath(p, LEAN)}: {m.group(0).strip()}")
    return hits


def translate():
    os.makedirs(os.path.join(VERIF, "build"), exist_ok=True)
    rc, out = run([PY, os.path.join(VERIF, "tools", "gen_tables.py"), REPO,
                   os.path.join(LEAN, "PlumVerif", "Generated"), os.path.join(VERIF, "build", "tables.json")])
    # code translator: the source text of the byte-level core functions -> Generated/PyCode.lean (tied to the
    # hand-written model by the theorems of Props/Tie*.lean); a construct outside its subset is a failure
    # (a function outside the translator's subset is left out of PyCode.lean: the Tie* modules about it then fail to
    # build, which is how the broken code tie reaches the properties concerned — see CODE_TIE below)
    rc2, out2 = run([sys.executable, os.path.join(VERIF, "tools", "py2lean.py"), REPO, os.path.join(LEAN, "PlumVerif", "Generated")])
    CODE_TIE["translator_rc"], CODE_TIE["translator"] = rc2, out2[-1500:]
    # second part (classes: wire types, network / version structures, frame object) -> Generated/PyCodeTypes.lean
    rc3, out3 = run([sys.executable, os.path.join(VERIF, "tools", "py2lean_types.py"), REPO, os.path.join(LEAN, "PlumVerif", "Generated")])
    CODE_TIE["translator_rc"], CODE_TIE["translator"] = (rc2 or rc3), (out2[-1000:] + out3[-1000:])
    return rc, out


# Code tie (tools/py2lean.py + Props/Tie*.lean).  VERIF_CODE_TIE=strict: a tie theorem that no longer builds is a broken
# proof obligation like any other (VIOLATION ... no-failing-input-found unless a failing input is found).  Default `soft`:
# the check widens the failing-input search, and if the property's own theorems and the correspondence harness are intact
# the verdict rests on the differential tie as before; the broken code tie is reported on a CODE-TIE-BROKEN line and in the
# evidence, it does not turn a behaviour-preserving rewrite of a translated function red.
CODE_TIE = {}


def write_root():
    """lean/PlumVerif.lean imports every module of the library, so `lake build PlumVerif`
    (setup) checks all of them; regenerated from the directory listing."""
    mods = []
    base = os.path.join(LEAN, "PlumVerif")
    for root, _, files in os.walk(base):
        for fn in files:
            if fn.endswith(".lean"):
                rel = os.path.relpath(os.path.join(root, fn), LEAN)[:-5]
                mods.append(rel.replace(os.sep, "."))
    content = "-- GENERATED by check.py (all modules of the library). Do not edit.\n" + "".join(f"import {m}\n" for m in sorted(mods))
    path = os.path.join(LEAN, "PlumVerif.lean")
    try:
        with open(path) as f:
            if f.read() == content:
                return
    except FileNotFoundError:
        pass
    with open(path, "w") as f:
        f.write(content)


MAIN_TEMPLATE = """-- GENERATED by check.py from lean/drivers.txt. Do not edit.
{imports}
/-
Line-protocol driver: one request per line on stdin, one answer per line on
stdout.  Unknown or ill-formed requests answer `bad-op`; nothing is defaulted.
-/
open PlumVerif

def handlers : List (List String → Option String) := [{handlers}]

def answer (line : String) : String :=
  let ws := (line.splitOn " ").filter (· ≠ "")
  match handlers.findSome? (· ws) with
  | some r => r
  | none => "bad-op"

partial def loop (inp : IO.FS.Stream) (out : IO.FS.Stream) : IO Unit := do
  let line ← inp.getLine
  if line.isEmpty then return ()
  out.putStrLn (answer (line.trimAscii.toString))
  out.flush
  loop inp out

def main : IO Unit := do loop (← IO.getStdin) (← IO.getStdout)
"""


def write_main():
    mods, hs = [], []
    with open(os.path.join(LEAN, "drivers.txt")) as f:
        for ln in f:
            ln = ln.split("#", 1)[0].split()
            if len(ln) == 2:
                if ln[0] not in mods:
                    mods.append(ln[0])
                hs.append(ln[1])
    content = MAIN_TEMPLATE.format(imports="\n".join(f"import {m}" for m in mods), handlers=", ".join(hs))
    path = os.path.join(LEAN, "Main.lean")
    try:
        with open(path) as f:
            if f.read() == content:
                return
    except FileNotFoundError:
        pass
    with open(path, "w") as f:
        f.write(content)


def lake_build(targets, timeout=3000):
    t0 = time.time()
    rc, out = run(["lake", "build"] + targets, cwd=LEAN, timeout=timeout)
    failed = re.findall(r"^✖ \[\d+/\d+\] (?:Building|Running) (\S+)", out, re.M)
    errors = [ln for ln in out.splitlines() if ln.startswith("error:")][:20]
    return dict(rc=rc, failed=failed, errors=errors, wall_s=round(time.time() - t0, 2), tail=out[-3000:] if rc else "")


def module_closure(mods):
    """the PlumVerif.* modules the given modules import, transitively (read from the sources)"""
    seen, todo = [], list(mods)
    while todo:
        m = todo.pop()
        if m in seen:
            continue
        path = os.path.join(LEAN, *m.split(".")) + ".lean"
        if not os.path.exists(path):
            continue
        seen.append(m)
        with open(path) as f:
            for ln in f:
                mm = re.match(r"\s*import\s+(PlumVerif\.\S+)", ln)
                if mm:
                    todo.append(mm.group(1))
    return sorted(seen)


def leanchecker(prop, modules=None):
    """thorough tier: the toolchain's independent re-checker replays every declaration of the property's
    theorem modules and of every model / proof module they import in the kernel"""
    mods = module_closure([f"PlumVerif.Props.{m}" for m in (modules or prop_modules(prop))])
    t0 = time.time()
    try:
        rc, out = run(["lake", "env", "leanchecker"] + mods, cwd=LEAN, timeout=3000)
    except subprocess.TimeoutExpired:
        rc, out = 124, "leanchecker timeout"
    return dict(rc=rc, modules=len(mods), wall_s=round(time.time() - t0, 1), tail=out.strip()[-600:])


def prop_modules(prop):
    """theorem modules of a property: registry `prop_modules` or just Props/<prop>.lean"""
    return registry.PROPS.get(prop, {}).get("prop_modules") or [prop]


def theorem_names(prop, modules=None):
    names = []
    for mod in (modules if modules is not None else prop_modules(prop)):
        names += theorem_names_of(mod)
    return names


def theorem_names_of(mod):
    path = os.path.join(LEAN, "PlumVerif", "Props", f"{mod}.lean")
    if not os.path.exists(path):
        return []
    with open(path) as f:
        src = strip_comments(f.read())
    names = []
    ns = []
    for ln in src.splitlines():
        m = re.match(r"\s*namespace\s+(\S+)", ln)
        if m:
            ns.append(m.group(1))
            continue
        m = re.match(r"\s*end\s+(\S+)", ln)
        if m and ns and ns[-1] == m.group(1):
            ns.pop()
            continue
        m = re.match(r"\s*(?:@\[[^\]]*\]\s*)?(?:private\s+|protected\s+)?theorem\s+([^\s:({\[]+)", ln)
        if m:
            names.append(".".join(ns + [m.group(1)]))
    return names


def print_axioms(prop, names, modules=None):
    """returns {theorem: [axioms]} using `#print axioms`; missing theorem -> None"""
    if not names:
        return {}
    d = os.path.join(LEAN, ".lake", "audit")
    os.makedirs(d, exist_ok=True)
    path = os.path.join(d, f"{prop}_{os.getpid()}.lean")
    with open(path, "w") as f:
        for mod in (modules if modules is not None else prop_modules(prop)):
            f.write(f"import PlumVerif.Props.{mod}\n")
        for n in names:
            f.write(f"#print axioms {n}\n")
    rc, out = run(["lake", "env", "lean", path], cwd=LEAN, timeout=1200)
    os.unlink(path)
    res = {n: None for n in names}
    flat = re.sub(r"\s+", " ", out)
    for n in names:
        m = re.search(r"'" + re.escape(n) + r"' depends on axioms: \[([^\]]*)\]", flat)
        if m:
            res[n] = [a.strip() for a in m.group(1).split(",") if a.strip()]
        elif re.search(r"'" + re.escape(n) + r"' does not depend on any axioms", flat):
            res[n] = []
    return res, (out if rc else "")


DRIVER_COPY = None


def run_harness(prop, tier, seed, replay=None, timeout=None):
    os.makedirs(os.path.join(VERIF, "build"), exist_ok=True)
    out = os.path.join(VERIF, "build", f"harness_{prop}_{os.getpid()}.json")
    cmd = [PY, os.path.join(VERIF, "harness", "run.py"), prop, tier, str(seed), out]
    if replay:
        cmd.append(replay)
    env = dict(os.environ)
    env["VERIF_REPO"] = REPO
    if DRIVER_COPY and os.path.exists(DRIVER_COPY):
        env["VERIF_DRIVER"] = DRIVER_COPY
    env["PYTHONDONTWRITEBYTECODE"] = "1"
    env.pop("PYTHONPATH", None)
    try:
        p = subprocess.run(cmd, cwd=VERIF, env=env, stdout=subprocess.PIPE, stderr=subprocess.STDOUT, text=True, timeout=timeout)
    except subprocess.TimeoutExpired:
        return dict(status="error", error=f"harness timeout after {timeout}s")
    try:
        with open(out) as f:
            j = json.load(f)
        os.unlink(out)
    except Exception as e:  # noqa: BLE001
        return dict(status="error", error=f"harness produced no result ({e}); rc={p.returncode}; output: {p.stdout[-3000:]}")
    j["stdout_tail"] = p.stdout[-1500:]
    return j


def control_run(prop, tier, seed, timeout):
    """Run the same harness against the committed tree (git HEAD) of the repository under test.
    'ok' / 'error', or None when REPO is not a git work tree with local modifications."""
    global REPO
    try:
        rc, out = run(["git", "-C", REPO, "status", "--porcelain", "--untracked-files=no"], timeout=60)
        if rc != 0 or not out.strip():
            return None
        import shutil
        import tempfile
        tmp = tempfile.mkdtemp(prefix="verif-control.", dir="/tmp")
        try:
            p = subprocess.run(f"git -C {REPO} archive HEAD | tar -x -C {tmp}", shell=True, stdout=subprocess.PIPE, stderr=subprocess.STDOUT)
            if p.returncode != 0:
                return None
            vf = os.path.join(REPO, "pyplumio", "_version.py")
            if os.path.exists(vf):
                shutil.copy(vf, os.path.join(tmp, "pyplumio", "_version.py"))
            saved = REPO
            REPO = tmp
            try:
                h = run_harness(prop, tier, seed, timeout=timeout)
            finally:
                REPO = saved
            return "ok" if h.get("status") == "ok" else "error"
        finally:
            shutil.rmtree(tmp, ignore_errors=True)
    except Exception:  # noqa: BLE001
        return None


def load_known():
    p = os.path.join(VERIF, "known_findings.json")
    if not os.path.exists(p):
        return dict(open=[], fixed=[])
    with open(p) as f:
        return json.load(f)


def write_json(path, obj):
    os.makedirs(os.path.dirname(path), exist_ok=True)
    tmp = path + f".tmp{os.getpid()}"
    with open(tmp, "w") as f:
        json.dump(obj, f, indent=1, default=str)
        f.write("\n")
    os.replace(tmp, path)


def setup():
    t0 = time.time()
    with Lock() as lock:
        rc, out = translate()
        if rc:
            log(out)
            return 2
        write_root()
        write_main()
        b = lake_build(["PlumVerif", "driver"])
        if b["rc"]:
            log(b["tail"])
            return 2
        for prop, meta in sorted(registry.PROPS.items()):
            extra = meta.get("extra_obligations")
            if extra:
                r = extra(dict(lean=LEAN, verif=VERIF, repo=REPO, log=log))
                if not r.get("ok"):
                    log(f"setup: extra obligations of {prop} not discharged: {r}")
                    return 2
    log(f"setup done in {time.time() - t0:.1f}s")
    return 0


def check(prop, tier, seed, replay=None):
    t0 = time.time()
    meta = registry.PROPS[prop]
    evidence_path = os.path.join(VERIF, "evidence", f"{prop}.json")
    problems = []       # broken proof obligations / audit problems (strings)
    build_info = {}
    with Lock() as lock:
        rc, out = translate()
        if rc:
            # the translator could not read the tables from the source: the model is no longer tied
            problems.append("translator failed: " + out[-800:])
            build_info["translator"] = out[-800:]
        if tier == "thorough" and meta.get("uses_tables") and not rc:
            # guard the translator itself: a second, AST-based reading of the same tables
            arc, aout = run([sys.executable, os.path.join(VERIF, "tools", "ast_tables.py"), REPO,
                             os.path.join(VERIF, "build", "tables.json")])
            build_info["ast_cross_check"] = aout.strip()[-500:]
            if arc:
                problems.append("translator cross-check: AST reading of the tables differs from the reflection dump: " + aout[-400:])
        write_main()
        b = lake_build(["driver"])
        build_info["driver"] = b
        driver_ok = b["rc"] == 0
        if driver_ok:
            # a private copy of the driver: a concurrent check against another tree may rebuild the shared binary
            global DRIVER_COPY
            DRIVER_COPY = os.path.join(VERIF, "build", f"driver_{prop}_{os.getpid()}")
            os.makedirs(os.path.dirname(DRIVER_COPY), exist_ok=True)
            shutil.copy2(os.path.join(LEAN, ".lake", "build", "bin", "driver"), DRIVER_COPY)
            atexit.register(lambda path=DRIVER_COPY: os.path.exists(path) and os.unlink(path))
        if not driver_ok:
            problems.append(f"model/driver does not build: {b['failed']} {b['errors'][:3]}")
        main_mods = [m for m in prop_modules(prop) if not m.startswith("Tie")]
        tie_mods = [m for m in prop_modules(prop) if m.startswith("Tie")]
        pb = lake_build([f"PlumVerif.Props.{m}" for m in main_mods])
        build_info["props"] = pb
        props_ok = pb["rc"] == 0
        if not props_ok:
            problems.append(f"proof obligation broken: lake build PlumVerif.Props.{prop} failed in {pb['failed']}: {pb['errors'][:3]}")
        # code tie: theorems `translated source = model` (one module per area); built one by one so that a rewrite of one
        # function breaks the tie of that area only
        tie_problems, tie_built = [], []
        for m in tie_mods:
            tb = lake_build([f"PlumVerif.Props.{m}"])
            if tb["rc"]:
                tie_problems.append(f"code tie broken: lake build PlumVerif.Props.{m} failed in {tb['failed']}: {tb['errors'][:3]}"
                                    + (" | translator: " + CODE_TIE.get("translator", "")[-400:] if CODE_TIE.get("translator_rc") else ""))
            else:
                tie_built.append(m)
        tie_mode = os.environ.get("VERIF_CODE_TIE", "soft")
        build_info["code_tie"] = dict(mode=tie_mode, modules=tie_mods, built=tie_built, broken=tie_problems,
                                      translator=CODE_TIE.get("translator", "").strip()[-600:])
        if tie_mode == "strict":
            problems += tie_problems
            tie_problems = []
        audit_mods = (main_mods if props_ok else []) + tie_built
        extra_res = None
        if meta.get("extra_obligations"):
            extra_res = meta["extra_obligations"](dict(lean=LEAN, verif=VERIF, repo=REPO, log=log))
            build_info["extra"] = extra_res
            if not extra_res.get("ok"):
                problems.append(f"extra kernel obligations not discharged: {extra_res.get('failed')}")
        if tier == "thorough" and props_ok:
            lc = leanchecker(prop, audit_mods)
            build_info["leanchecker"] = lc
            if lc["rc"]:
                problems.append(f"leanchecker rejects the compiled modules: {lc['tail'][-300:]}")
        # (still under the lock, shared: a concurrent check against another tree may rebuild the .olean files read here)
        lock.share()
        names = theorem_names(prop)
        audit_names = theorem_names(prop, audit_mods)
        axioms = {}
        if audit_names:
            axioms, aout = print_axioms(prop, audit_names, audit_mods)
    if audit_names:
        for n, ax in axioms.items():
            if ax is None:
                problems.append(f"audit: could not print axioms of {n}")
            elif not set(ax) <= ALLOWED_AXIOMS:
                problems.append(f"audit: {n} depends on {sorted(set(ax) - ALLOWED_AXIOMS)}")
    hits = grep_audit()
    if hits:
        problems.append("audit: forbidden tokens in Lean sources: " + "; ".join(hits[:10]))
    obligations = len(names) + (extra_res.get("obligations", 0) if extra_res else 0)
    discharged = sum(1 for n in audit_names if axioms.get(n) is not None and set(axioms[n]) <= ALLOWED_AXIOMS)
    discharged += extra_res.get("discharged", 0) if extra_res else 0

    # correspondence
    timeout = meta.get("timeout", {}).get(tier, 900 if tier == "quick" else 3600)
    h = run_harness(prop, tier, seed, replay=replay, timeout=timeout)
    if h.get("status") != "ok":
        log(f"{prop}: harness error: {h.get('error')}\n{h.get('traceback', '')}\n{h.get('stdout_tail', '')}")
        tb = h.get("traceback", "") or ""
        impl_raised = (os.path.join(os.path.realpath(REPO), "pyplumio") in tb) or (os.path.join(REPO, "pyplumio") in tb)
        if not driver_ok:
            # without the model there is no correspondence; the broken build is the finding
            h = dict(status="ok", evaluations=0, distinct_nontrivial=0, rule="harness could not run: model does not build",
                     samples=[], failures=[], distribution={}, notes=[h.get("error")], exhaustive=False, extra={})
        elif impl_raised:
            # the implementation raised something the harness (written against the behaviour of the
            # unchanged tree) does not expect at that point: the correspondence is broken there
            problems.append("correspondence broken: the implementation raised an exception the harness does not expect: "
                            + str(h.get("error")) + " | " + " / ".join(tb.strip().splitlines()[-6:]))
            h = dict(status="ok", evaluations=0, distinct_nontrivial=0, rule="harness aborted by an unexpected exception from the implementation",
                     samples=[dict(traceback_tail=tb.strip().splitlines()[-8:])], failures=[], distribution={}, notes=[h.get("error")],
                     exhaustive=False, extra={})
        else:
            # The harness itself aborted.  It is written against the behaviour of the unchanged tree and never aborts
            # there; so either the implementation now does something the harness takes for granted not to happen
            # (a precondition of a scenario no longer holds: the correspondence is broken), or the machinery is at
            # fault.  Decide by a control run against the committed tree (git HEAD) of the repository under test.
            err = str(h.get("error") or "")
            machinery = any(k in err for k in ("DriverError", "harness timeout", "MemoryError", "produced no result"))
            ctrl = None if machinery else control_run(prop, tier, seed, timeout)
            if machinery or ctrl == "error":
                write_evidence(evidence_path, prop, tier, seed, meta, names, axioms, obligations, discharged, h, problems, t0, build_info, error=h.get("error"))
                return 2
            problems.append("correspondence broken: the harness aborted on this tree (" + err + ")"
                            + (" while it runs to completion on the committed tree (git HEAD)" if ctrl == "ok" else "")
                            + " | " + " / ".join(tb.strip().splitlines()[-6:]))
            h = dict(status="ok", evaluations=0, distinct_nontrivial=0, rule="harness aborted: a scenario precondition that holds on the unchanged tree no longer holds",
                     samples=[dict(traceback_tail=tb.strip().splitlines()[-8:])], failures=[], distribution={}, notes=[err],
                     exhaustive=False, extra=dict(control_run=ctrl))

    known = load_known()
    open_ids = {k["id"]: k for k in known.get("open", []) if k["property"] == prop}
    failures = h.get("failures", [])
    known_hits, new_fail = {}, []
    for f in failures:
        fid = f.get("finding")
        if fid and fid in open_ids:
            known_hits.setdefault(fid, f)
        else:
            new_fail.append(f)
    for fid, f in sorted(known_hits.items()):
        print(f"KNOWN-FINDING: property={prop} {fid}: {open_ids[fid]['what']}")
    violations = 0
    exit_code = 0
    searched = [dict(tier=tier, seed=seed, evaluations=h.get("evaluations"))]
    if (new_fail or problems or tie_problems) and not any(f["kind"] == "spec" for f in new_fail) and not replay and driver_ok:
        # A proof obligation or the correspondence is broken but no observation violates the
        # property itself yet: widen the search for a concrete failing input (other seeds, the
        # thorough generators) within a time budget.
        budget = float(os.environ.get("VERIF_SEARCH_S", "120" if tier == "quick" else "600"))
        if not (new_fail or problems):
            # only the code tie is broken (soft mode): a shorter search keeps a rewritten tree within the tier's budget
            budget = float(os.environ.get("VERIF_TIE_SEARCH_S", "45" if tier == "quick" else "300"))
        t_search = time.time()
        for k, (stier, sseed) in enumerate([("quick", seed + 1), ("thorough", seed), ("quick", seed + 2), ("thorough", seed + 1)]):
            left = budget - (time.time() - t_search)
            if left < 10:
                break
            h2 = run_harness(prop, stier, sseed, timeout=left)
            searched.append(dict(tier=stier, seed=sseed, evaluations=h2.get("evaluations"), status=h2.get("status")))
            if h2.get("status") != "ok":
                continue
            hit = [f for f in h2.get("failures", []) if f["kind"] == "spec" and not (f.get("finding") in open_ids)]
            if hit:
                new_fail = hit + new_fail
                break
    if new_fail or problems:
        spec = [f for f in new_fail if f["kind"] == "spec"]
        corr = [f for f in new_fail if f["kind"] != "spec"]
        rp = os.path.join(VERIF, "evidence", "replay", f"{prop}-{seed}.json")
        if spec:
            f = spec[0]
            write_json(rp, dict(property=prop, kind="failing-input", seed=seed, tier=tier, failure=f,
                                other_failures=len(new_fail) - 1, broken_obligations=problems, searched=searched))
            print(f"VIOLATION property={prop} replay={os.path.relpath(rp, VERIF)}")
            violations = len(spec)
        else:
            what = problems + [f"correspondence broken: {c['clause']}" for c in corr[:3]]
            write_json(rp, dict(property=prop, kind="no-failing-input-found", seed=seed, tier=tier,
                                broken=what, first_difference=corr[0] if corr else None,
                                searched=searched,
                                build=build_info))
            print(f"VIOLATION property={prop} replay={os.path.relpath(rp, VERIF)} no-failing-input-found")
            violations = max(1, len(corr))
        exit_code = 1
    elif tie_problems:
        print(f"CODE-TIE-BROKEN property={prop} modules={','.join(m for m in tie_mods if m not in tie_built)} "
              f"(no failing input in {sum((x.get('evaluations') or 0) for x in searched)} evaluations; the verdict rests on the property's own "
              f"theorems + the differential tie; VERIF_CODE_TIE=strict makes this a violation)")
        build_info["code_tie"]["searched"] = searched
    write_evidence(evidence_path, prop, tier, seed, meta, names, axioms, obligations, discharged, h, problems, t0, build_info,
                   violations=violations, known=sorted(known_hits))
    return exit_code


def write_evidence(path, prop, tier, seed, meta, names, axioms, obligations, discharged, h, problems, t0, build_info,
                   violations=0, known=(), error=None):
    cov = dict(
        obligations=max(obligations, 1) if names else obligations,
        discharged=discharged,
        checker_cmd=f"cd lean && lake build PlumVerif.Props.{prop} && lake env lean <#print axioms of each theorem>"
                    + (" ; " + meta["extra_cmd"] if meta.get("extra_cmd") else ""),
        trusted_base=[
            "Lean 4.33.0 kernel; axioms of each theorem as listed under theorems (allowed: propext, Classical.choice, Quot.sound)",
            "tools/gen_tables.py (translator: tables/constants read from the imported source)",
            "tools/py2lean.py + lean/PlumVerif/Model/PyPrelude.lean (code translator: Python subset -> Lean, semantics of the primitives; "
            "validated by harness/pycode.py: generated definitions vs the real functions, value or exception class)",
            "harness (correspondence: implementation vs executable Lean model through the line-protocol driver)",
        ] + meta.get("trusted", []),
        theorems=[dict(name=n, axioms=axioms.get(n)) for n in names],
        evaluations=h.get("evaluations", 0),
        distinct_nontrivial=h.get("distinct_nontrivial", 0),
        rule=h.get("rule", ""),
        samples=h.get("samples", []) or [dict(note="no samples recorded")],
        exhaustive=bool(h.get("exhaustive")),
        input_distribution=h.get("distribution", {}),
        correspondence_failures=len(h.get("failures", [])),
        broken_obligations=problems,
        known_findings_reproduced=list(known),
        clauses=meta.get("clauses", {}),
        notes=h.get("notes", []),
        extra=h.get("extra", {}),
        build=dict(driver_wall_s=build_info.get("driver", {}).get("wall_s"), props_wall_s=build_info.get("props", {}).get("wall_s"),
                   ast_cross_check=build_info.get("ast_cross_check"), leanchecker=build_info.get("leanchecker")),
    )
    if build_info.get("extra"):
        cov["extra_obligations"] = build_info["extra"]
    if build_info.get("code_tie", {}).get("modules"):
        cov["code_tie"] = build_info["code_tie"]
    if error:
        cov["error"] = error
    ev = dict(property_id=prop, tier=tier, seed=seed, level=meta.get("level", "proof"), coverage=cov,
              assumptions=meta.get("assumptions", []), wall_s=round(time.time() - t0, 2), violations=violations)
    write_json(path, ev)


def main():
    ap = argparse.ArgumentParser()
    ap.add_argument("--setup", action="store_true")
    ap.add_argument("--property")
    ap.add_argument("--tier", default=os.environ.get("VERIF_TIER", "quick"), choices=["quick", "thorough"])
    ap.add_argument("--replay")
    a = ap.parse_args()
    if a.setup:
        return setup()
    if not a.property or a.property not in registry.PROPS:
        log("unknown property; known: " + " ".join(sorted(registry.PROPS)))
        return 2
    seed = int(os.environ.get("VERIF_SEED", "0") or 0)
    try:
        return check(a.property, a.tier, seed, replay=a.replay)
    except subprocess.TimeoutExpired as e:
        log(f"timeout: {e}")
        return 2


if __name__ == "__main__":
    sys.exit(main())

import PlumVerif.Generated.Consts
import PlumVerif.Generated.Params
import PlumVerif.Model.Basic
import PlumVerif.Model.Frame

import PlumVerif.Model.Basic
/-
C18 as executable predicates, written from the property statement (literals are the
statement's: 48 slots, 7 days, Sunday first).  Half-hour aligned times are given by their slot
number `0..47` (slot `i` begins `i * 30` minutes after midnight).
-/
namespace PlumVerif.C18
open PlumVerif

/-- the slot an aligned END time addresses: 00:00 means the last slot of the day -/
def endSlot (j : Nat) : Nat := if j = 0 then 47 else j

/-- judge one `set_state(state, start, end)` call with aligned start `i` / end `j`:
`raised` = it raised ValueError, `after` = the day afterwards -/
def specSet (before : List Bool) (stateValid on : Bool) (i j : Nat) (raised : Bool) (after : List Bool) : Bool :=
  if stateValid && decide (i < endSlot j) then
    -- changes exactly the slots start..end, sets all of them to the state, keeps 48 slots
    !raised && after.length == 48 &&
      (List.range 48).all fun k =>
        after.getD k false == (if i ≤ k ∧ k ≤ endSlot j then on else before.getD k false)
  else
    -- invalid state or end not after start: ValueError, nothing changes
    raised && after == before

/-- slot `i` of day `d` (Sunday = 0) in a 7 × 48 bitmap of 42 bytes: days in order, six bytes
a day, earliest slot in the most significant bit -/
def slotBit (bm : List Byte) (d i : Nat) : Bool :=
  (bm.getD (6 * d + i / 8) 0).toNat.testBit (7 - i % 8)

/-- judge the payload of a commit: the schedule's index, switch, parameter, then a 7 × 48
bitmap whose every slot is `expected d i` -/
def specCommit (idx sw par : Nat) (expected : Nat → Nat → Bool) (payload : List Byte) : Bool :=
  payload.length == 46 && payload.take 4 == [1, idx.toUInt8, sw.toUInt8, par.toUInt8] &&
    (List.range 7).all fun d => (List.range 48).all fun i => slotBit (payload.drop 4) d i == expected d i

/-- one `set_state` call with aligned times on the committed schedule, as the statement reads it:
day (Sunday = 0), whether the state is one of the four and whether it is an "on" state, start
slot `i`, end slot number `j` (0 = 00:00) -/
structure SlotEdit where
  day : Nat
  valid : Bool
  on : Bool
  i : Nat
  j : Nat
deriving Repr

/-- what the edit does to slot `k` of day `d` currently holding `v`: an invalid state or an end
not after the start changes nothing; otherwise the slots `i .. endSlot j` of its day take the state -/
def SlotEdit.apply (ed : SlotEdit) (d k : Nat) (v : Bool) : Bool :=
  if ed.valid = true ∧ ed.i < endSlot ed.j ∧ ed.day = d ∧ ed.i ≤ k ∧ k ≤ endSlot ed.j then ed.on else v

/-- "the received bitmap with exactly the edits applied", slot by slot -/
def expectedSlot (base : Nat → Nat → Bool) (edits : List SlotEdit) (d k : Nat) : Bool :=
  edits.foldl (fun v ed => ed.apply d k v) (base d k)

end PlumVerif.C18

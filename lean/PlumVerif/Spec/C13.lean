import PlumVerif.Model.EventsObs
/-
C13 as an executable judge over an OBSERVATION, written from the property statement.
Input: the callback scripts (the callbacks are the harness's own: how each function suspends
and what it returns), the history of API calls `ops`, and what was observed: the invocation
log (dispatch, callback function, value received), a snapshot after every loop run, and how
every get / wait_for ended.  Nothing of the machine's state is used.

  threading   each awaited callback received the value produced by those before it in the same
              dispatch, starting from the dispatched value (None keeps the value)
  order       the callbacks a dispatch awaited are, in subscription order, those subscribed to its
              name (and not unsubscribed) at one moment between its creation and the end — checked
              exactly on the functions that were only ever subscribed plainly (a once-wrapper may
              legitimately be skipped)
  once        a function subscribed only through subscribe_once, k times, is awaited at most k times
  stored      data[name] changes only in a loop run in which a dispatch of that name finished, and
              then holds the final value of such a dispatch
  getters     a returned value is the final value of a finished dispatch of that name; a getter that
              found a value returned at once; a waiter still waiting has no value and its deadline is
              ahead; a timed-out waiter raised exactly at start + timeout
-/
namespace PlumVerif.C13

/-! ### reading the history -/

def dispOf : Op → Option (Nat × Nat)
  | .disp n v => some (n, v)
  | _ => none

/-- (name, dispatched value) of every dispatch, in creation order -/
def dispList (ops : List Op) : List (Nat × Nat) := ops.filterMap dispOf

def waitOf : Op → Option (Nat × Option Nat)
  | .get n t => some (n, t)
  | _ => none

def waitList (ops : List Op) : List (Nat × Option Nat) := ops.filterMap waitOf

/-- index of the op that created each dispatch -/
def dispIdxFrom : Nat → List Op → List Nat
  | _, [] => []
  | k, .disp _ _ :: r => k :: dispIdxFrom (k + 1) r
  | k, _ :: r => dispIdxFrom (k + 1) r

/-- the plain (not once) callbacks subscribed to `n`, in subscription order, after the calls `ops` -/
def simStep (n : Nat) (l : List Nat) : Op → List Nat
  | .sub n' c => if n' = n then l ++ [c] else l
  | .unsub n' c => if n' = n then l.erase c else l
  | _ => l

def plainSim (ops : List Op) (n : Nat) : List Nat := ops.foldl (simStep n) []

def isOnceOf (cb : Nat) : Op → Bool
  | .once _ c => c == cb
  | _ => false

def isSubOf (cb : Nat) : Op → Bool
  | .sub _ c => c == cb
  | _ => false

/-! ### clauses -/

/-- the callbacks of one dispatch, (function, value received), in log order -/
def entriesOf (log : List LogO) (i : Nat) : List (Nat × Nat) :=
  (log.filter (·.task == i)).map fun e => (e.cb, e.val)

def threadOK (sc : Nat → Script) : Nat → List (Nat × Nat) → Bool
  | _, [] => true
  | v, (cb, got) :: r => got == v && threadOK sc ((sc cb).ret.apply v) r

/-- the value a dispatch ends with, given what it awaited -/
def threadFinal (sc : Nat → Script) : Nat → List (Nat × Nat) → Nat
  | v, [] => v
  | v, (cb, _) :: r => threadFinal sc ((sc cb).ret.apply v) r

def threading (sc : Nat → Script) (ops : List Op) (o : Obs) : Bool :=
  (List.range (dispList ops).length).all fun i =>
    match (dispList ops)[i]? with
    | some (_, v) => threadOK sc v (entriesOf o.log i)
    | none => true

def lastDone (o : Obs) (i : Nat) : Bool :=
  match o.snaps.getLast? with
  | some sn => sn.done.getD i false
  | none => false

/-- the function was never subscribed through subscribe_once -/
def plainOnly (ops : List Op) (cb : Nat) : Bool := !ops.any (isOnceOf cb)

def orderAt (ops : List Op) (o : Obs) (i n a k : Nat) : Bool :=
  decide (a < k) &&
    (if lastDone o i then
      ((entriesOf o.log i).map (·.1)).filter (plainOnly ops) == (plainSim (ops.take k) n).filter (plainOnly ops)
     else (((entriesOf o.log i).map (·.1)).filter (plainOnly ops)).isPrefixOf ((plainSim (ops.take k) n).filter (plainOnly ops)))

def order (ops : List Op) (o : Obs) : Bool :=
  (List.range (dispList ops).length).all fun i =>
    match (dispList ops)[i]?, (dispIdxFrom 0 ops)[i]? with
    | some (n, _), some a => (List.range (ops.length + 1)).any fun k => orderAt ops o i n a k
    | _, _ => true

def onceOnly (ops : List Op) (o : Obs) : Bool :=
  ops.all fun op =>
    match op with
    | .once _ cb =>
      ops.any (isSubOf cb) || decide ((o.log.filter (·.cb == cb)).length ≤ (ops.filter (isOnceOf cb)).length)
    | _ => true

def finalOf (sc : Nat → Script) (ops : List Op) (o : Obs) (i : Nat) : Option Nat :=
  ((dispList ops)[i]?).map fun (_, v) => threadFinal sc v (entriesOf o.log i)

def nameOf (ops : List Op) (i : Nat) : Option Nat := ((dispList ops)[i]?).map (·.1)

/-- one loop run: from snapshot `p` to snapshot `q` -/
def storedStep (sc : Nat → Script) (ops : List Op) (o : Obs) (p q : Snap) : Bool :=
  let newly := (List.range q.done.length).filter fun i => q.done.getD i false && !p.done.getD i false
  (List.range 3).all fun n =>
    let fresh := newly.filter fun i => nameOf ops i == some n
    let okVal := fresh.any fun i => (q.data.getD n none).isSome && q.data.getD n none == finalOf sc ops o i
    if fresh.isEmpty then q.data.getD n none == p.data.getD n none else okVal

def storedFrom (sc : Nat → Script) (ops : List Op) (o : Obs) : Snap → List Snap → Bool
  | _, [] => true
  | p, q :: r => storedStep sc ops o p q && storedFrom sc ops o q r

def snap0 : Snap := ⟨0, 0, [none, none, none], [], [], []⟩

def stored (sc : Nat → Script) (ops : List Op) (o : Obs) : Bool := storedFrom sc ops o snap0 o.snaps

def waitingOK (ops : List Op) (sn : Snap) : Bool :=
  (List.range sn.ws.length).all fun j =>
    match sn.ws[j]?, (waitList ops)[j]? with
    | some (.waiting dl), some (n, _) =>
      (decide (3 ≤ n) || sn.data.getD n none == none) &&
        (match dl with | some d => decide (sn.now < d) | none => true)
    | _, _ => true

def getters (sc : Nat → Script) (ops : List Op) (o : Obs) : Bool :=
  o.snaps.all (waitingOK ops) &&
  (List.range o.wmeta.length).all fun j =>
    match o.wmeta[j]?, (waitList ops)[j]? with
    | some m, some (n, to) =>
      (match m.fin with
      | .returned v a =>
        (!m.had || a == m.t0) &&
          (List.range (dispList ops).length).any fun i =>
            nameOf ops i == some n && lastDone o i && finalOf sc ops o i == some v
      | .timedOut a => (match to with | some t => a == m.t0 + t | none => false)
      | _ => true)
    | _, _ => true

def spec (sc : Nat → Script) (ops : List Op) (o : Obs) : Bool :=
  threading sc ops o && order ops o && onceOnly ops o && stored sc ops o && getters sc ops o

/-! ### the tightened judge (audit item 4)

`spec` accepts (a) a finished dispatch that never awaited a once-callback that was live all along,
(b) a snapshot moment anywhere up to the END of the history, (c) a getter result that is the final
value of a dispatch finished only by the end of the history.  `specT` adds three clauses:

  onceDue   a function subscribed only through subscribe_once is awaited AT LEAST once for every
            registration that nobody unsubscribed and after which a dispatch of its name was created
            that has finished
  orderT    as `order`, with the snapshot moment no later than the loop run in which the dispatch is
            first seen started (suspended or finished): a callback subscribed after that does not count
  gettersT  a returned value is the final value of a dispatch of that name that is finished in the
            snapshot in which the getter is first seen returned — at return time, not at the end -/

/-- the subscription instance number (`sid`) the op at index `a` creates: subscriptions so far -/
def sidAt (ops : List Op) (a : Nat) : Nat :=
  ((ops.take a).filter fun op => match op with | .sub .. | .once .. => true | _ => false).length

def isUnsuboOf (sid : Nat) : Op → Bool
  | .unsubo _ x => x == sid
  | _ => false

/-- the registration at op index `a` (`once n cb`) is due: never unsubscribed through its wrapper,
and a dispatch of `n` created after it has finished -/
def dueAt (ops : List Op) (o : Obs) (a n : Nat) : Bool :=
  !ops.any (isUnsuboOf (sidAt ops a)) &&
    (List.range (dispList ops).length).any fun i =>
      nameOf ops i == some n && lastDone o i &&
        (match (dispIdxFrom 0 ops)[i]? with | some b => decide (a < b) | none => false)

def onceDue (ops : List Op) (o : Obs) : Bool :=
  ops.all fun op =>
    match op with
    | .once _ cb =>
      ops.any (isSubOf cb) ||
        decide (((List.range ops.length).filter fun a =>
            match ops[a]? with
            | some (Op.once n c) => c == cb && dueAt ops o a n
            | _ => false).length ≤ (o.log.filter (·.cb == cb)).length)
    | _ => true

/-- op index of the loop run in which dispatch `i` is first seen suspended or finished -/
def firstSeen (ops : List Op) (o : Obs) (i : Nat) : Nat :=
  match o.snaps.find? fun sn => sn.done.getD i false || (sn.susp.getD i none).isSome with
  | some sn => sn.op
  | none => ops.length

def orderT (ops : List Op) (o : Obs) : Bool :=
  (List.range (dispList ops).length).all fun i =>
    match (dispList ops)[i]?, (dispIdxFrom 0 ops)[i]? with
    | some (n, _), some a => (List.range (firstSeen ops o i + 1)).any fun k => orderAt ops o i n a k
    | _, _ => true

def gettersT (sc : Nat → Script) (ops : List Op) (o : Obs) : Bool :=
  (List.range o.wmeta.length).all fun j =>
    match o.wmeta[j]?, (waitList ops)[j]? with
    | some m, some (n, _) =>
      (match m.fin with
      | .returned v a =>
        (match o.snaps.find? fun sn => sn.ws.getD j .notYet == .returned v a with
         | some sn =>
           (List.range (dispList ops).length).any fun i =>
             nameOf ops i == some n && sn.done.getD i false && finalOf sc ops o i == some v
         | none => false)
      | _ => true)
    | _, _ => true

def specT (sc : Nat → Script) (ops : List Op) (o : Obs) : Bool :=
  spec sc ops o && onceDue ops o && orderT ops o && gettersT sc ops o

end PlumVerif.C13

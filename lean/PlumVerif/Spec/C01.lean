import PlumVerif.Model.Frame
/-
C01 as an executable predicate, written from the property statement (literals are the
statement's, not the code's):  a delivery `f` is justified by the bytes `fr` consumed for it
(after any skipped bytes before the start delimiter).
-/
namespace PlumVerif.C01

/-- the statement's "known device" addresses: broadcast, ecoMAX, ecoSTER, ecoNET -/
def knownSenders : List Byte := [0, 69, 81, 86]

def wf (fr : List Byte) (f : Fields) : Bool :=
  let n := fr.length
  fr.head? == some 0x68                                              -- begins with the start delimiter
  && (fr.getD 1 0).toNat + 256 * (fr.getD 2 0).toNat == n            -- LE16 length field = bytes consumed
  && decide (10 ≤ n) && decide (n ≤ 1000)                            -- between 10 and 1000
  && fr.getD (n - 2) 0 == bcc (fr.take (n - 2))                      -- checksum = XOR of every byte before it
  && (fr.getD 3 0 == 86 || fr.getD 3 0 == 0)                         -- library or broadcast
  && knownSenders.contains (fr.getD 4 0)                             -- known sender
  && f.rcpt == fr.getD 3 0 && f.sender == fr.getD 4 0                -- delivered fields are exactly those bytes
  && f.etype == fr.getD 5 0 && f.ever == fr.getD 6 0
  && f.kind == fr.getD 7 0
  && f.payload == (fr.drop 8).take (n - 10)

/-- judge what an implementation did on one `read()` call: `consumed` are all bytes the call
took from the stream, `delivered` is what it returned (none = ignored / rejected / lost). -/
def spec (consumed : List Byte) (delivered : Option Fields) : Bool :=
  match delivered with
  | none => true
  | some f => wf (consumed.dropWhile (· != 0x68)) f

end PlumVerif.C01

import PlumVerif.Model.Setup
/-
C16 as an executable predicate over an observation of one set-up run, written from the statement:

  "Once sensor data has been seen, device set-up finishes within retries x timeout for every
   subset of set-up requests the controller leaves unanswered: the device becomes 'loaded', every
   unanswered kind is listed as failed, no answered kind is listed as failed as long as product
   information was among the answers, each unanswered request was transmitted `retries` times,
   and the data of every answered request is available."

A kind counts as answered when its response was handled before `sensors + retries x timeout`.

`spec` reads "the data of every answered request is available" with the same proviso as the clause
about the failed list: for the kinds whose handler needs product information (`dep`), only when
product information was among the answers.  That proviso is NOT in the statement: `specFull` adds
the clause as written.  The code does not satisfy it (open finding F11: with the product request
unanswered on every attempt the handlers of answered ecoMAX / mixer parameters wait for ever in
`await self.get("product")`, the data never becomes available) — `Props/C16`: `holds` for `spec`,
`holds_full_false` and `full_fails_exactly_when` for `specFull`.
-/
namespace PlumVerif.C16
open PlumVerif.Setup

structure Obs where
  t0 : Nat                        -- time the sensor data was handled
  answers : List (Option Nat)     -- per kind: time its response was handled
  complete : Bool                 -- the clock was driven past sensors + retries x timeout (or set-up finished)
  loadedAt : Option Nat           -- virtual time at which 'loaded' was dispatched
  errors : List Nat               -- device.data['frame_errors'] as table positions
  tx : List Nat                   -- requests written per kind
  present : List Bool             -- `provides` name in device.data at the end

def answered (c : Cfg) (o : Obs) (k : Nat) : Bool :=
  match o.answers.getD k none with
  | some a => decide (a < o.t0 + c.R * c.T)
  | none => false

def nodupB : List Nat → Bool
  | [] => true
  | a :: l => !l.contains a && nodupB l

def spec (c : Cfg) (o : Obs) : Bool :=
  match o.loadedAt with
  | none => !o.complete                                               -- set-up always completes …
  | some t =>
    decide (t ≤ o.t0 + c.R * c.T)                                     -- … within retries x timeout
    && o.errors.all (fun k => decide (k < c.n))
    && nodupB o.errors                                                  -- a kind is listed once
    && (kinds c).all (fun k =>
      (answered c o k || o.errors.contains k)                         -- every unanswered kind is listed
      && (!(answered c o c.product && answered c o k) || !o.errors.contains k)  -- no answered kind, if product answered
      && (answered c o k || o.tx.getD k 0 == c.R)                     -- unanswered: transmitted `retries` times
      && (!(answered c o k && (!c.dep k || answered c o c.product)) || o.present.getD k false))  -- data available

/-- the last clause as written: the data of EVERY answered request is available (no proviso) -/
def literalData (c : Cfg) (o : Obs) : Bool :=
  (kinds c).all (fun k => !answered c o k || o.present.getD k false)

/-- the statement read literally -/
def specFull (c : Cfg) (o : Obs) : Bool :=
  spec c o && (match o.loadedAt with | none => true | some _ => literalData c o)

/-- the input class of finding F11: product information unanswered, a kind whose handler waits for it answered -/
def f11Input (c : Cfg) (o : Obs) : Bool :=
  !answered c o c.product && (kinds c).any (fun k => c.dep k && answered c o k)

/-! ### the observation of a model run (what the harness records of an implementation run) -/

/-- time of the first response of each kind: `a k` so far, updated by one event happening in state `s` -/
def noteAnswer (a : Nat → Option Nat) (s : St) : Ev → (Nat → Option Nat)
  | .answer k => fun j => if j = k then (match a k with | none => some s.now | some t => some t) else a j
  | _ => a

def answerTimes (c : Cfg) : St → (Nat → Option Nat) → List Ev → (Nat → Option Nat)
  | _, a, [] => a
  | s, a, e :: es => answerTimes c (step c s e).1 (noteAnswer a s e) es

/-- the events after the first sensor data -/
def afterSensors : List Ev → Option (List Ev)
  | [] => none
  | .sensors :: r => some r
  | _ :: r => afterSensors r

def isLoaded (s : St) : Bool :=
  match s.phase with
  | .loaded => true
  | _ => false

def observe (c : Cfg) (es : List Ev) : Obs :=
  let s := (run c init es).1
  { t0 := s.t0
    answers := (kinds c).map (answerTimes c init (fun _ => none) es)
    complete := isLoaded s || (match afterSensors es with
      | some post => decide (c.R ≤ post.count .timer)
      | none => false)
    loadedAt := if isLoaded s then some s.loadedAt else none
    errors := s.errors
    tx := (kinds c).map s.tx
    present := (kinds c).map (avail c s) }

end PlumVerif.C16

import PlumVerif.Model.Entry
/-
C10 as an executable predicate over what a run shows at one instant, written from the
statement: "at most one device object per controller address: however many frames from a
new address arrive while the first is still being set up, every caller of get('ecomax')
receives the same object at every time, that object receives every frame from the address,
and the device's set-up requests are started once."

Objects are named by canonical numbers: the first object ever seen in a run is 0, the next
distinct one 1, … (harness: by `id()`; model: creation order).  Snapshots are cumulative
(everything dispatched / handled / returned so far), so "at every time" is "in every
snapshot".  `fa` / `ga` are the addresses of the frames fed / of the get() calls made, in
order (frame f has address `fa[f]`, get() call g asks for `ga[g]`).
-/
namespace PlumVerif.C10
open PlumVerif.Entry

/-- one instant (of a quiescent loop) -/
def snapOk (fa ga : List Nat) (o : Snap) : Bool :=
  (o.dispatched.map (·.1)).Nodup                                 -- each address is announced at most once …
  && (o.dispatched.map (·.2)).Nodup                              -- … and no object serves two addresses
  && o.published == o.dispatched                                 -- what was announced is, and stays, the entry
  && o.created == o.dispatched.length                            -- one device object per announced address, no others
  && o.setups == o.created                                       -- set-up started once per device object
  -- every get() caller that returned received the entry of the address it asked for
  && (List.range o.gets.length).all (fun g =>
        match o.gets.getD g none with
        | none => true
        | some d => o.published.contains (ga.getD g 0, d))
  -- every frame handled so far was handled by the entry of its address, once
  && o.handled.all (fun p => o.published.contains (fa.getD p.1 0, p.2))
  && (o.handled.map (·.1)).Nodup

/-- the end of a complete run (all imports released, loop quiescent): every frame from an
address that has a device class has been handled (by that address's object, `snapOk`), frames
from an address without one are dropped, every get() for an address that got an entry has
returned -/
def finalOk (fa ga : List Nat) (cr : Nat → Bool) (o : Snap) : Bool :=
  snapOk fa ga o
  && o.held == 0
  && (List.range fa.length).all (fun f =>
        (o.handled.map (·.1)).contains f == cr (fa.getD f 0))
  && o.gets.length == ga.length
  && (List.range ga.length).all (fun g =>
        (o.gets.getD g none).isSome == (o.published.map (·.1)).contains (ga.getD g 0))

/-- a whole observed run -/
def spec (fa ga : List Nat) (cr : Nat → Bool) (snaps : List Snap) : Bool :=
  snaps.all (snapOk fa ga) && (match snaps.getLast? with | some o => finalOk fa ga cr o | none => true)

end PlumVerif.C10

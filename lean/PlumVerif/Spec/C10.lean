import PlumVerif.Model.Entry
/-
C10 as an executable predicate over what a run shows at one instant, written from the
statement: "at most one device object per controller address: however many frames from a
new address arrive while the first is still being set up, every caller of get('ecomax')
receives the same object at every time, that object receives every frame from the address,
and the device's set-up requests are started once."

Objects are named by canonical numbers: the first object ever seen in a run is 0, the next
distinct one 1, … (harness: by `id()`; model: creation order).  Snapshots are cumulative
(everything dispatched / handled / returned so far), so "at every time" is "in every
snapshot".
-/
namespace PlumVerif.C10
open PlumVerif.Entry

/-- one instant -/
def snapOk (o : Snap) : Bool :=
  decide (o.created ≤ 1)                                   -- at most one device object
  && decide (o.setups ≤ 1) && decide (o.setups ≤ o.created) -- set-up started (at most) once, only for a created device
  && decide (o.dispatched.length ≤ 1)                      -- announced at most once
  && o.dispatched.all (· == 0)                             -- … and it is THE object
  && (o.published == none || o.published == some 0)
  && o.gets.all (fun g => g == none || g == some 0)         -- every get() caller received that object
  && o.handled.all (fun p => p.2 == 0)                      -- every frame was handled by that object
  && (o.handled.map (·.1)).Nodup                            -- … once
  -- whoever holds an object holds a published one whose set-up has been started
  && ((o.handled.isEmpty && o.gets.all (· == none))
      || (o.published == some 0 && o.created == 1 && o.setups == 1))

/-- the end of a complete run (all imports released, loop quiescent): every one of the
`frames` frames fed has been handled, every get() has returned -/
def finalOk (frames : Nat) (o : Snap) : Bool :=
  snapOk o
  && (List.range frames).all (fun f => (o.handled.map (·.1)).count f == 1)
  && decide (o.handled.length = frames)
  && (frames == 0 || o.gets.all (· == some 0))
  && o.held == 0

/-- a whole observed run -/
def spec (frames : Nat) (snaps : List Snap) : Bool :=
  snaps.all snapOk && (match snaps.getLast? with | some o => finalOk frames o | none => true)

end PlumVerif.C10

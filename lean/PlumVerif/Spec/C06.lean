import PlumVerif.Model.ParamSet
/-
C06 as a decidable predicate over one observed call of `set`, written from the statement:

  "Setting any parameter to a value whose raw encoding lies below the minimum or above the maximum
   the controller last reported raises ValueError, transmits nothing and leaves the locally held
   value unchanged.  Every set request that is transmitted carries a raw value within those
   inclusive bounds."

`raw` is the raw encoding of the requested value (C17's `toRaw`), `t` the triple held at the call.
One carve-out, as in DESIGN.md: a requested value equal to the value already held is a no-op
(returns True) even if the controller reported that value outside its own bounds — nothing is
transmitted and nothing changes, but no ValueError is raised.
-/
namespace PlumVerif.C06
open PlumVerif.ParamSet

structure Obs where
  raisedValueError : Bool
  after : Int           -- locally held raw value after the call
  tx : List Int         -- raw values carried by the set requests queued by the call
deriving Repr, DecidableEq, Inhabited

def spec (raw : Int) (t : Triple) (o : Obs) : Bool :=
  (if raw ≠ t.value ∧ (raw < t.min ∨ raw > t.max) then
      o.raisedValueError && o.tx.isEmpty && o.after == t.value
   else true) &&
  (if raw = t.value then o.tx.isEmpty && o.after == t.value else true) &&
  o.tx.all (fun r => decide (t.min ≤ r) && decide (r ≤ t.max))

end PlumVerif.C06

import PlumVerif.Model.Versions
/-
C15 as an executable judge, written from the property statement: it keeps its own record of
"the version the library last recorded" per request kind and says, for every announcement of
a history, which refresh requests must have been queued.

The statement quantifies over request kinds and codes unknown to the library.  A version entry
for a *known response/message* code is outside it; the judge stops constraining a history at
the first such entry that would need a refresh (what the code does there — the callback
raises — is tied by the correspondence, not claimed by the statement).
-/
namespace PlumVerif.C15

/-- a known *request* kind: the library can build a request frame of this type -/
def isRequestKind (k : Nat) : Bool := Gen.requestKinds.contains k

/-- known to the library, but not a request kind -/
def isForeign (k : Nat) : Bool := known k && !isRequestKind k

structure Judge where
  seen : List Entry      -- last recorded version per kind (newest first)
  unsupported : List Nat
  deriving Repr

/-- the refreshes an announcement (as a dict, in order) must queue; `none` marks the point
where a foreign entry ends what the statement speaks about -/
def expected (j : Judge) : List Entry → List Nat × Judge × Bool
  | [] => ([], j, true)
  | (k, v) :: r =>
    if !j.unsupported.contains k && (j.seen.lookup k != some v) then
      if isRequestKind k then
        let (q, j', ok) := expected { j with seen := (k, v) :: j.seen } r
        (k :: q, j', ok)
      else if isForeign k then ([], j, false)
      else expected j r            -- unknown to the library: nothing
    else expected j r              -- unchanged version or unsupported kind: nothing

/-- judge a history: events paired with the request kinds observed on the device queue after
each; `true` when every observation is what the statement prescribes (up to a foreign entry) -/
def judge (j : Judge) : List (Ev × List Nat) → Bool
  | [] => true
  | (.errors ks, obs) :: r => obs.isEmpty && judge { j with unsupported := ks } r
  | (.announce w, obs) :: r =>
    match expected j (dictOf w) with
    | (q, j', true) => obs == q && judge j' r
    | (q, _, false) => q.isPrefixOf obs    -- beyond the statement: only the justified prefix is required

def spec (evs : List Ev) (obs : List (List Nat)) : Bool :=
  evs.length == obs.length && judge ⟨[], []⟩ (evs.zip obs)


/-- the same judge for histories that contain failed `request()` calls: such a call queues its
own attempts and nothing else, and it must not change what later announcements do -/
def judge2 (j : Judge) : List (Ev2 × List Nat) → Bool
  | [] => true
  | (.request k n, obs) :: r => obs == List.replicate n k && judge2 j r
  | (.ev (.errors ks), obs) :: r => obs.isEmpty && judge2 { j with unsupported := ks } r
  | (.ev (.announce w), obs) :: r =>
    match expected j (dictOf w) with
    | (q, j', true) => obs == q && judge2 j' r
    | (q, _, false) => q.isPrefixOf obs

def spec2 (evs : List Ev2) (obs : List (List Nat)) : Bool :=
  evs.length == obs.length && judge2 ⟨[], []⟩ (evs.zip obs)

end PlumVerif.C15

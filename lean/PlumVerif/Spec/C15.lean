import PlumVerif.Model.Versions
/-
C15 as an executable judge, written from the property statement: it keeps its own record of
"the version the library last recorded" per request kind and says, for every announcement of
a history, which refresh requests must have been queued.

The statement quantifies over request kinds and codes unknown to the library.  A version entry
for a *known response/message* code is outside it; at the first such entry that would need a
refresh the judge follows what the code is disclosed to do there (the callback raises: the rest
of THAT announcement queues and records nothing) and goes on judging the rest of the history
from the record as it stood at that entry.

`expected` is a transcription of the model's `process` in the statement's vocabulary (own record
per kind, "request kind" / "unknown" / "foreign" instead of `known` / `creatable`);
`Props/C15.lean: expected_process` proves the two agree, so the judge adds no independent content
beyond the reading of the statement — it is what is applied to the IMPLEMENTATION's queue.
-/
namespace PlumVerif.C15

/-- a known *request* kind: the library can build a request frame of this type -/
def isRequestKind (k : Nat) : Bool := Gen.requestKinds.contains k

/-- known to the library, but not a request kind -/
def isForeign (k : Nat) : Bool := known k && !isRequestKind k

structure Judge where
  seen : List Entry      -- last recorded version per kind (newest first)
  unsupported : List Nat
  deriving Repr

/-- the refreshes an announcement (as a dict, in order) must queue; `none` marks the point
where a foreign entry ends what the statement speaks about -/
def expected (j : Judge) : List Entry → List Nat × Judge × Bool
  | [] => ([], j, true)
  | (k, v) :: r =>
    if !j.unsupported.contains k && (j.seen.lookup k != some v) then
      if isRequestKind k then
        let (q, j', ok) := expected { j with seen := (k, v) :: j.seen } r
        (k :: q, j', ok)
      else if isForeign k then ([], j, false)
      else expected j r            -- unknown to the library: nothing
    else expected j r              -- unchanged version or unsupported kind: nothing

/-- judge a history: events paired with the request kinds observed on the device queue after
each; `true` when every observation is what the statement prescribes (an announcement is cut
short at a foreign entry, the history goes on) -/
def judge (j : Judge) : List (Ev × List Nat) → Bool
  | [] => true
  | (.errors ks, obs) :: r => obs.isEmpty && judge { j with unsupported := ks } r
  | (.announce w, obs) :: r =>
    match expected j (dictOf w) with
    | (q, j', _) => obs == q && judge j' r

def spec (evs : List Ev) (obs : List (List Nat)) : Bool :=
  evs.length == obs.length && judge ⟨[], []⟩ (evs.zip obs)


/-- the same judge for histories that contain failed `request()` calls: such a call queues its
own attempts and nothing else, and it must not change what later announcements do -/
def judge2 (j : Judge) : List (Ev2 × List Nat) → Bool
  | [] => true
  | (.request k n, obs) :: r => obs == List.replicate n k && judge2 j r
  | (.ev (.errors ks), obs) :: r => obs.isEmpty && judge2 { j with unsupported := ks } r
  | (.ev (.announce w), obs) :: r =>
    match expected j (dictOf w) with
    | (q, j', _) => obs == q && judge2 j' r

def spec2 (evs : List Ev2) (obs : List (List Nat)) : Bool :=
  evs.length == obs.length && judge2 ⟨[], []⟩ (evs.zip obs)

/-- several devices on one queue: the judge keeps one record per device address; the frames
observed on the shared queue after an event at device `a` must be the refreshes the statement
prescribes for `a`'s announcement, each addressed TO THAT DEVICE -/
def judgeSys (js : Nat → Judge) : List ((Nat × Ev2) × List Frame) → Bool
  | [] => true
  | ((a, .request k n), obs) :: r => obs == (List.replicate n k).map (⟨·, a⟩) && judgeSys js r
  | ((a, .ev (.errors ks)), obs) :: r =>
    obs.isEmpty && judgeSys (fun b => if b = a then { js a with unsupported := ks } else js b) r
  | ((a, .ev (.announce w)), obs) :: r =>
    match expected (js a) (dictOf w) with
    | (q, j', _) => obs == q.map (⟨·, a⟩) && judgeSys (fun b => if b = a then j' else js b) r

def specSys (evs : List (Nat × Ev2)) (obs : List (List Frame)) : Bool :=
  evs.length == obs.length && judgeSys (fun _ => ⟨[], []⟩) (evs.zip obs)

end PlumVerif.C15

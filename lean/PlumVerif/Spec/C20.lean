import PlumVerif.Model.Filters
/-
C20 as executable predicates, written from the property statement.  Everything here is a
function of the *history* (the calls made so far and what reached the wrapped callback so
far), never of a filter's internal state:

* `differs`            "differ (for numbers: by more than the tolerance)", tolerance 0.1
* `lastDelivered`      the value most recently handed to the callback
* `sinceDelivery`      the values of the calls made after that delivery
* `lastDeliveryTime`   the clock reading of that delivery
* `recorded`           the reference value of `delta` (the first value, then every value that
                       differs from the reference)

`expect… pre os c` is what the statement prescribes for call `c` after the calls `pre` with
outcomes `os`; `stepwise` checks a whole observed run against it, call by call.
-/
namespace PlumVerif.C20

/-- "differ": numbers by more than 0.1 (sixteenths: 10·|a−b| > 16); parameters when an update
is pending or (value, min, max) changed; a value following a PARAMETER is compared the way
`Parameter.__eq__` does (the parameter's value against `int()` of a number, 1 / 0 for "on" / "off");
anything else when not equal -/
def differs : Val → Val → Bool
  | .param v mn mx _, .param v' mn' mx' p' => p' || v != v' || mn != mn' || mx != mx'
  -- a parameter against a plain value: the parameter's value against the integer part of the number / on = 1, off = 0
  | .param v _ _ _, y => match y.paramNorm with | some n => v != n | Option.none => true
  | x, y =>
    match x.numOf, y.numOf with
    | some a, some b => decide (16 < 10 * (a - b).natAbs)   -- numbers (True / False count as 1 / 0)
    | _, _ => x != y

def Out.value? : Out → Option Val
  | .deliver v => some v
  | _ => none

def lastDelivered (os : List Out) : Option Val := os.reverse.findSome? Out.value?

def sinceDelivery (pre : List Call) (os : List Out) : List Val :=
  (((pre.zip os).reverse.takeWhile fun p => p.2.value?.isNone).map fun p => p.1.v).reverse

def lastDeliveryTime (pre : List Call) (os : List Out) : Option Int :=
  (pre.zip os).reverse.findSome? fun p => p.2.value?.map fun _ => p.1.t

/-- length of the longest suffix of `l` all of whose elements satisfy `p` -/
def trailing (p : Val → Bool) (l : List Val) : Nat := (l.reverse.takeWhile p).length

def numSum : List Val → Int
  | [] => 0
  | v :: r => v.numOf.getD 0 + numSum r

/-- the reference value of `delta` after the calls -/
def recorded (vs : List Val) : Option Val :=
  vs.foldl (fun r v => match r with
    | none => some v
    | some d => if differs d v then some v else r) none

/-- on_change: the first value, and thereafter exactly the values that differ from the last
one delivered -/
def expectOnChange (_pre : List Call) (os : List Out) (c : Call) : Out :=
  match lastDelivered os with
  | none => .deliver c.v
  | some d => if differs d c.v then .deliver c.v else .skip

/-- debounce: the first value; thereafter a value is delivered once the last `n` consecutive
calls since the last delivery (this one included) all differed from the last delivered value -/
def expectDebounce (n : Nat) (pre : List Call) (os : List Out) (c : Call) : Out :=
  match lastDelivered os with
  | none => .deliver c.v
  | some d => if n ≤ trailing (differs d) (sinceDelivery pre os ++ [c.v]) then .deliver c.v else .skip

/-- throttle: delivered iff nothing was delivered yet or at least `secs` passed since the last
delivery -/
def expectThrottle (secs : Int) (pre : List Call) (os : List Out) (c : Call) : Out :=
  match lastDeliveryTime pre os with
  | none => .deliver c.v
  | some l => if secs ≤ c.t - l then .deliver c.v else .skip

/-- delta: when the value differs from the reference, the difference to it (numbers: new − old;
lists: the elements of new not in old; parameters: raises — open finding F4) -/
def expectDelta (pre : List Call) (_os : List Out) (c : Call) : Out :=
  match recorded (pre.map Call.v) with
  | none => .skip
  | some d =>
    if differs d c.v then
      match d, c.v with
      | .list a, .list b => .deliver (.list (b.filter fun x => !a.contains x))
      | .param .., .param .. => .raised
      -- mixed parameter / plain value (see `differs`): number − Parameter is not defined (raises, like F4);
      -- Parameter − number is the parameter's value minus the integer part of the number
      | .param .., .num _ => .raised
      | .param .., .bool _ => .raised
      | .param .., _ => .skip
      | .num n, .param v _ _ _ => .deliver (.num ((v - n.tdiv 16) * 16))
      | .bool b, .param v _ _ _ => .deliver (.num ((v - (if b then 1 else 0)) * 16))
      | _, .param .. => .skip
      | x, y =>
        match x.numOf, y.numOf with
        | some a, some b => .deliver (.num (b - a))
        | _, _ => .skip
    else .skip

/-- aggregate: once `secs` passed since the last delivery (or since the filter was built at `t0`)
the sum of the values since then is delivered; non-numeric values are refused -/
def expectAggregate (secs t0 : Int) (pre : List Call) (os : List Out) (c : Call) : Out :=
  match c.v.numOf with
  | some n =>
    if secs ≤ c.t - (lastDeliveryTime pre os).getD t0 then
      .deliver (.num (numSum (sinceDelivery pre os) + n))
    else .skip
  | Option.none => .raised

def expectCustom (p : Pred) (_pre : List Call) (_os : List Out) (c : Call) : Out :=
  if p.eval c.v then .deliver c.v else .skip

/-- `p` holds of every prefix of an observed run (the calls made so far, their outcomes);
the two lists are given newest first -/
def everyPrefixRev (p : List Call → List Out → Bool) : List Call → List Out → Bool
  | [], [] => p [] []
  | c :: pre, o :: os => p (c :: pre).reverse (o :: os).reverse && everyPrefixRev p pre os
  | _, _ => false

def everyPrefix (p : List Call → List Out → Bool) (cs : List Call) (os : List Out) : Bool :=
  everyPrefixRev p cs.reverse os.reverse

/-- the outcome of the latest call is what `e` prescribes after the earlier calls -/
def stepOK (e : List Call → List Out → Call → Out) (cs : List Call) (os : List Out) : Bool :=
  match cs.reverse, os.reverse with
  | [], [] => true
  | c :: pre, o :: os' => o == e pre.reverse os'.reverse c
  | _, _ => false

/-- an observed run agrees, call by call, with what the statement prescribes -/
def stepwise (e : List Call → List Out → Call → Out) : List Call → List Out → Bool :=
  everyPrefix (stepOK e)

def deliveredSum (os : List Out) : Int := numSum (os.filterMap Out.value?)

def Val.isNum : Val → Bool
  | .num _ => true
  | _ => false

/-- delta over numbers: the delivered differences add up to the total change (last value −
first value) up to the tolerance -/
def deltaTotal (cs : List Call) (os : List Out) : Bool :=
  match cs.head?, cs.getLast? with
  | some ⟨_, .num a⟩, some ⟨_, .num z⟩ =>
    !(cs.all fun c => c.v.isNum) || decide (10 * (deliveredSum os - (z - a)).natAbs ≤ 16)
  | _, _ => true

/-- aggregate: when the latest call delivered, the delivered sums add up to the sum of all
(numeric) inputs so far — nothing is lost, nothing is counted twice -/
def aggregateTotal (cs : List Call) (os : List Out) : Bool :=
  match os.getLast? with
  | some (.deliver _) => deliveredSum os == numSum (cs.map Call.v)
  | _ => true

/-- delivered values are passed on unmodified and in order: for the pass-through filters the
delivered values are a subsequence of the inputs, each at its own call -/
def passedUnmodified (cs : List Call) (os : List Out) : Bool :=
  cs.length == os.length &&
  (cs.zip os).all fun p => match p.2 with
    | .deliver v => v == p.1.v
    | _ => true

/-- the judge for one (non-chain) filter: `cs` the calls, `os` what was observed per call -/
def spec : Filter → List Call → List Out → Bool
  | .onChange, cs, os => stepwise expectOnChange cs os && passedUnmodified cs os
  | .debounce n, cs, os => stepwise (expectDebounce n) cs os && passedUnmodified cs os
  | .throttle s, cs, os => stepwise (expectThrottle s) cs os && passedUnmodified cs os
  | .delta, cs, os => stepwise expectDelta cs os && everyPrefix deltaTotal cs os
  | .aggregate s t0, cs, os => stepwise (expectAggregate s t0) cs os && everyPrefix aggregateTotal cs os
  | .custom p, cs, os => stepwise (expectCustom p) cs os && passedUnmodified cs os
  | .chain _ _, _, _ => false   -- chains are judged stage by stage

end PlumVerif.C20

import PlumVerif.Spec.C08L
/-
C06 over the LIFETIME of a parameter: any number of `set()` calls — one after the other or OVERLAPPING —
interleaved with controller reports that move the bounds, as an executable predicate over an observation
(events with the outputs each produced, `C08L.Item`), written from the statement:

  "Setting any parameter to a value whose raw encoding lies below the minimum or above the maximum the
   controller last reported raises ValueError, transmits nothing and leaves the locally held value
   unchanged.  Every set request that is transmitted carries a raw value within those inclusive bounds."

`outside` lists every set request seen on the write queue that carries a value outside the bounds of the
LAST controller report handled before it (second sentence, literally).  `refusals` checks the first sentence
on every call event: a call whose value lies outside the last reported bounds (and is not one of the values
the library may hold right now) ends in that very step with ValueError and transmits nothing.

Open finding F7 (the range is checked once, when the call is made; a report handled while the call is
suspended in ITS OWN request construction or ITS OWN retry sleep can move the bounds under it) is a
predicate over the history, decided by the check-once machine `SetL`: an out-of-bounds transmission is
covered by F7 iff the machine — which transmits a call's first attempt as soon as that call's own request
construction is answered, at once when the executor answers synchronously — produces the same set request
in the same step.  A transmission the machine does not make there (e.g. a first attempt that was delayed
behind ANOTHER call's retry sleeps and never re-validated) is not F7.
-/
namespace PlumVerif.C06L
open PlumVerif.SetM PlumVerif.SetL PlumVerif.C08L

/-- a set request outside the last reported bounds: index of the event whose step queued it, the value carried,
the bounds in force -/
structure Outside where
  k : Nat
  v : Nat
  lo : Nat
  hi : Nat
deriving Repr, DecidableEq, Inhabited

def txOf (outs : List OOut) : List Nat :=
  outs.filterMap fun x => match x.o with
    | .txSet v _ => some v
    | _ => none

/-- every transmitted set request that lies outside the bounds the controller reported last -/
def outside (lo hi k : Nat) : List Item → List Outside
  | [] => []
  | it :: rest =>
    match it.ev with
    | .report t =>
      ((txOf it.outs).filter (fun v => v < t.min || v > t.max)).map (fun v => ⟨k, v, t.min, t.max⟩)
        ++ outside t.min t.max (k + 1) rest
    | _ =>
      ((txOf it.outs).filter (fun v => v < lo || v > hi)).map (fun v => ⟨k, v, lo, hi⟩)
        ++ outside lo hi (k + 1) rest

/-- second sentence of the statement over a whole observation -/
def txSpec (held : Triple) (obs : List Item) : Bool := (outside held.min held.max 0 obs).isEmpty

/-- first sentence on every call event: out of the last reported bounds ⇒ ValueError in that step, nothing
transmitted by that step.  `poss`: the values the library may hold right now, seen from outside (the value of the
last report and of every call accepted since: a request equal to the held value is the documented no-op).
Index of the first bad call. -/
def firstBadRefusal (lo hi : Nat) (poss : List Nat) (k nextId : Nat) : List Item → Option Nat
  | [] => none
  | it :: rest =>
    match it.ev with
    | .report t => firstBadRefusal t.min t.max [t.value] (k + 1) nextId rest
    | .call v _ _ =>
      if (v < lo ∨ v > hi) ∧ ¬ poss.contains v then
        match it.outs with
        | [⟨some i, .raise _⟩] => if i = nextId then firstBadRefusal lo hi poss (k + 1) (nextId + 1) rest else some k
        | _ => some k
      else
        firstBadRefusal lo hi (v :: poss) (k + 1) (nextId + 1) rest
    | _ => firstBadRefusal lo hi poss (k + 1) nextId rest

/-- the check-once machine makes this very transmission in this very step: open finding F7 -/
def explained (groups : List (List LOut)) (x : Outside) : Bool :=
  match groups[x.k]? with
  | some g => g.any fun y => match y.o with
    | .txSet v _ => v == x.v
    | _ => false
  | none => false

inductive Verdict where
  | pass
  | f7 (x : Outside)            -- only transmissions the check-once machine makes too
  | violation (x : Outside)     -- a transmission outside the last reported bounds that the machine does not make
  | refusal (k : Nat)           -- an out-of-bounds call that did not end with ValueError at once
deriving Repr, DecidableEq, Inhabited

def judge (hold tracking : Bool) (held : Triple) (start : Nat) (obs : List Item) : Verdict :=
  match firstBadRefusal held.min held.max [held.value] 0 0 obs with
  | some k => .refusal k
  | none =>
    let out := outside held.min held.max 0 obs
    let groups := SetL.runGroups (SetL.init held tracking hold start) (obs.map (·.ev))
    match out.find? (fun x => !explained groups x) with
    | some x => .violation x
    | none =>
      match out with
      | [] => .pass
      | x :: _ => .f7 x

/-- the machine's own observation of a history -/
def observe (s : LSt) (es : List Ev) : List Item :=
  List.zipWith (fun e g => (⟨e, g.map (fun y => ⟨match y.o with
    | .ret _ _ => some y.id
    | .raise _ => some y.id
    | _ => none, y.o⟩)⟩ : Item)) es (SetL.runGroups s es)

end PlumVerif.C06L

import PlumVerif.Spec.C08
import PlumVerif.Model.SetL
/-
C08 over the LIFETIME of a parameter (several `set()` calls), as an executable predicate over an
observation: events with the outputs each produced.  Set / re-read requests are seen on the write
queue WITHOUT knowing which call queued them; a return is seen with the number of the call.

What is judged:
  * a call that is a no-op (value = held value) or out of range ends at once with True / ValueError,
    transmits nothing — also while other calls are running;
  * nothing is transmitted while no call is running;
  * a call that is ALONE from start to return (no other call running at any time in between) is judged by
    the one-call statement `C08.onOut` in full: requested value only, at most `retries`, one per `timeout`,
    re-read per attempt, True only after a report ≠ the value held before THAT call, False only after
    `retries` unconfirmed transmissions;
  * while calls OVERLAP: every set request carries the value of some call that is still running, and
    only running calls return.  (Which call returns True/False when is NOT judged for overlapping calls:
    the shared previous-value makes "the value held before that call" meaningless there, see
    `C08.overlap_true_unsound`.)
The locally held value is tracked from outside as a SET of possibilities (`possible`): a report, an accepted
call, and a set request queued in the very step that re-asserted it make it definite; a timer expiry without
a visible set request may have re-asserted a running call's value silently.  A later call is judged as a
no-op only against these possibilities, and is "alone" (fully judged) only when the value is definite.
-/
namespace PlumVerif.C08L
open PlumVerif.SetM PlumVerif.C08

/-- an observed output: the call number is known for returns only -/
structure OOut where
  id : Option Nat
  o : Out
deriving Repr, DecidableEq, Inhabited

structure Item where
  ev : Ev
  outs : List OOut
deriving Repr, DecidableEq, Inhabited

structure Running where
  id : Nat
  v : Nat
  mon : Option Mon      -- the one-call monitor while the call is alone
deriving Repr, DecidableEq, Inhabited

structure LMon where
  tracking : Bool
  lo : Nat                 -- range of the last reported triple (only reports change it)
  hi : Nat
  possible : List Nat      -- values the library may hold locally right now: the last definite one (a report, an
                           --   accepted call, a set request queued in the step that re-asserted it) and the values
                           --   running calls may have silently re-asserted since (request construction can suspend
                           --   between the re-assertion and the visible set request)
  nextId : Nat
  running : List Running
deriving Repr, DecidableEq, Inhabited

def LMon.init (tracking : Bool) (held : Triple) : LMon := ⟨tracking, held.min, held.max, [held.value], 0, []⟩

def taint (rs : List Running) : List Running := rs.map (fun r => { r with mon := none })

/-- feed an input event to the monitor of a call that is alone -/
def feed (rs : List Running) (e : Ev) : List Running :=
  rs.map (fun r => { r with mon := r.mon.map (fun m => onEvent m e) })

def withRunning (m : LMon) (rs : List Running) : LMon := { m with running := rs }

def dropCall (m : LMon) (id : Nat) : LMon := { m with running := m.running.filter (fun r => r.id != id) }

/-- one output of a running call -/
def onOutL (m : LMon) (x : OOut) : Option LMon :=
  match x.o with
  | .txSet v t =>
    match m.running with
    | [] => none                                              -- nothing is transmitted while no call runs
    | [r] =>
      (match r.mon with
       | some one => (onOut one (.txSet v t)).map (fun one' => withRunning m [{ r with mon := some one' }])
       | none => if v = r.v then some m else none)
    | rs => if rs.any (fun r => r.v == v) then some m else none   -- the value of some running call
  | .txRefresh t =>
    match m.running with
    | [] => none
    | [r] =>
      (match r.mon with
       | some one => (onOut one (.txRefresh t)).map (fun one' => withRunning m [{ r with mon := some one' }])
       | none => some m)
    | _ => some m
  | .ret b t =>
    match x.id with
    | none => none
    | some id =>
      match m.running.find? (fun r => r.id == id) with
      | none => none                                          -- only running calls return
      | some r =>
        (match r.mon with
         | some one => (onOut one (.ret b t)).map (fun _ => dropCall m id)
         | none => some (dropCall m id))
  | .raise _ => none                                          -- a call that entered its loop never raises

def onOutsL (m : LMon) : List OOut → Option LMon
  | [] => some m
  | x :: xs => match onOutL m x with
    | none => none
    | some m' => onOutsL m' xs

def lastSet : List OOut → Option Nat
  | [] => none
  | x :: xs => match lastSet xs with
    | some v => some v
    | none => match x.o with
      | .txSet v _ => some v
      | _ => none

def addAll (a b : List Nat) : List Nat := b.foldl (fun acc x => if acc.contains x then acc else acc ++ [x]) a

def stepL (m : LMon) (it : Item) : Option LMon :=
  match it.ev with
  | .call v r T =>
    let id := m.nextId
    let m1 := { m with nextId := id + 1 }
    match it.outs with
    | [⟨some i, .ret true _⟩] =>      -- ended at once with True: a no-op call, touches nothing
      if i = id ∧ m.possible.contains v then some m1 else none
    | [⟨some i, .raise _⟩] =>         -- ended at once with ValueError: out of range, touches nothing
      if i = id ∧ (v < m.lo ∨ v > m.hi) then some m1 else none
    | outs =>                          -- entered its loop: in range, not the held value
      if v < m.lo ∨ v > m.hi ∨ m.possible = [v] then none
      else
        let alone := m.running.isEmpty && m.possible.length == 1
        let one := onEvent (Mon.init m.tracking ⟨m.possible.headD 0, m.lo, m.hi⟩) (.call v r T)
        let rs := if alone then [⟨id, v, some one⟩] else taint m.running ++ [⟨id, v, none⟩]
        onOutsL { m1 with possible := [v], running := rs } outs
  | .report t =>
    onOutsL { m with lo := t.min, hi := t.max, possible := [t.value], running := feed m.running (.report t) } it.outs
  | .setTracking b => onOutsL { m with tracking := b, running := feed m.running (.setTracking b) } it.outs
  | .timer =>
    (onOutsL m it.outs).map (fun m' =>
      match lastSet it.outs with
      | some v => { m' with possible := [v] }                                  -- re-asserted and queued in this step
      | none => { m' with possible := addAll m'.possible (m.running.map (·.v)) })  -- maybe re-asserted silently
  | _ => onOutsL m it.outs

def firstBadL (m : LMon) (k : Nat) : List Item → Option Nat
  | [] => none
  | it :: rest => match stepL m it with
    | none => some k
    | some m' => firstBadL m' (k + 1) rest

def specL (tracking : Bool) (held : Triple) (obs : List Item) : Bool :=
  (firstBadL (LMon.init tracking held) 0 obs).isNone

end PlumVerif.C08L

import PlumVerif.Model.Frame
/-
C02 as an executable predicate, written from the property statement (literals are the
statement's): the bytes `b` that were serialised for a frame with the intended fields `f`
consist of the start delimiter 0x68, a little-endian 16-bit length equal to the total byte
count, recipient, sender, sender type and protocol version, the frame-type code, the payload,
a checksum equal to the XOR of all preceding bytes, and the end delimiter 0x16 — nothing else.
-/
namespace PlumVerif.C02

def spec (f : Fields) (b : List Byte) : Bool :=
  let n := b.length
  decide (10 ≤ n)                                                    -- the ten framing bytes are there
  && b.getD 0 0 == 0x68                                              -- start delimiter
  && (b.getD 1 0).toNat + 256 * (b.getD 2 0).toNat == n              -- LE16 length = total byte count
  && b.getD 3 0 == f.rcpt && b.getD 4 0 == f.sender                  -- recipient, sender
  && b.getD 5 0 == f.etype && b.getD 6 0 == f.ever                   -- sender type, protocol version
  && b.getD 7 0 == f.kind                                            -- frame-type code of its kind
  && (b.drop 8).take (n - 10) == f.payload                           -- the payload
  && b.getD (n - 2) 0 == bcc (b.take (n - 2))                        -- XOR of all preceding bytes
  && b.getD (n - 1) 0 == 0x16                                        -- end delimiter

end PlumVerif.C02

import PlumVerif.Model.Types
/-
C19 as a statement about a wire type, written from the property text: for every representable
value `v` the packed form exists, the reported size is the number of bytes it occupies, and
unpacking from any longer buffer returns `v` and consumes exactly that many bytes.
-/
namespace PlumVerif.C19
open PlumVerif PlumVerif.Types

def Lawful {α : Type} (c : Codec α) (representable : α → Prop) : Prop :=
  ∀ v, representable v →
    ∃ bs, c.pack v = some bs                                   -- the value can be packed
      ∧ c.size v = bs.length                                   -- reported size = bytes occupied
      ∧ ∀ rest, c.unpack (bs ++ rest) = some (v, bs.length)    -- unpack returns it, consumes exactly that

end PlumVerif.C19

import PlumVerif.Model.Types
/-
C19 as a statement about a wire type, written from the property text: for every representable
value `v` the packed form exists, the reported size is the number of bytes it occupies, and
unpacking from any longer buffer returns `v` and consumes exactly that many bytes.
-/
namespace PlumVerif.C19
open PlumVerif PlumVerif.Types

def Lawful {α : Type} (c : Codec α) (representable : α → Prop) : Prop :=
  ∀ v, representable v →
    ∃ bs, c.pack v = some bs                                   -- the value can be packed
      ∧ c.size v = bs.length                                   -- reported size = bytes occupied
      ∧ ∀ rest, c.unpack (bs ++ rest) = some (v, bs.length)    -- unpack returns it, consumes exactly that

/-- the same for a re-used INSTANCE: the wire type is lawful and an instance whose size slot
is that of its value packs as the value does -/
def InstLawful {α : Type} (c : InstCodec α) (representable : α → Prop) : Prop :=
  Lawful c.toCodec representable ∧ ∀ v, representable v → c.packI v (c.size v) = c.pack v

/-- operations the statement speaks about: constructing from a representable value, unpacking
a buffer that starts with the packed form of a representable value (or a buffer the class
refuses), and any number of reads -/
def Canonical {α : Type} (c : InstCodec α) (representable : α → Prop) : Op α → Prop
  | .construct (some v) => representable v
  | .construct none => ∀ v, c.dflt = some v → representable v
  | .unpack d => c.unpack d = none ∨ ∃ v bs rest, representable v ∧ c.pack v = some bs ∧ d = bs ++ rest
  | _ => True

end PlumVerif.C19

import PlumVerif.Model.SetM
/-
C08 as an executable predicate over an *observation*: the history of external events of one
run, each with the clock reading after it and the outputs it produced (frames put on the write
queue with their timestamps, the return of `set`).  Written from the property statement:

  "A set call whose value differs from the locally held one transmits set requests that carry
   the requested value and no other, at most `retries` of them, one per `timeout` interval,
   each followed by a re-read request when the controller does not announce parameter-version
   changes.  It returns True only after the controller has reported, for that parameter, a
   value different from the one held before the call, and returns False only after `retries`
   transmissions have all gone unconfirmed."

The monitor knows only what an outside observer knows: the reports it has seen (hence the
locally held triple before the call), the arguments of the call, whether versions are
tracked at the moment (initially, and after each frame-versions announcement), and the outputs.
"When the controller does not announce parameter-version changes" is read per attempt: the
flag is looked at when the set request is made.  It never looks at the model's state.
-/
namespace PlumVerif.C08
open PlumVerif.SetM

/-- one observed step: the event, the clock after it, what it produced -/
structure Item where
  ev : Ev
  outs : List Out
deriving Repr, DecidableEq, Inhabited

structure Call where
  v : Nat          -- requested raw value
  r : Nat          -- retries
  T : Nat          -- timeout, ms
  prev : Nat       -- value held before the call
  inRange : Bool   -- min ≤ v ≤ max of the triple held before the call
deriving Repr, DecidableEq, Inhabited

structure Mon where
  tracking : Bool          -- the controller currently announces parameter-version changes
  held : Triple            -- last triple reported (or initial) — what the library holds before the call
  call : Option Call
  nTx : Nat                -- set requests seen
  lastTx : Option Nat      -- time of the last set request
  openSet : Bool           -- a set request still waits for its re-read request
  confirmed : Bool         -- a report with value ≠ prev was seen since the call
  returned : Bool
deriving Repr, DecidableEq, Inhabited

def Mon.init (tracking : Bool) (held : Triple) : Mon :=
  { tracking, held, call := none, nTx := 0, lastTx := none, openSet := false, confirmed := false, returned := false }

/-- a set request at `t` comes less than `T` after the previous one -/
def tooEarly (last : Option Nat) (T t : Nat) : Bool :=
  match last with
  | some l => decide (t < l + T)
  | none => false

/-- account for an input event -/
def onEvent (m : Mon) : Ev → Mon
  | .call v r T =>
    match m.call with
    | some _ => m
    | none => { m with call := some ⟨v, r, T, m.held.value, decide (m.held.min ≤ v) && decide (v ≤ m.held.max)⟩ }
  | .report t =>
    match m.call with
    | none => { m with held := t }
    | some c => if t.value ≠ c.prev && !m.returned then { m with confirmed := true } else m
  | .setTracking b => { m with tracking := b }
  | _ => m

/-- check one output against the statement (`none` = violated) -/
def onOut (m : Mon) : Out → Option Mon
  | .txSet v t =>
    match m.call with
    | none => none                                             -- nothing is transmitted without a call
    | some c =>
      if m.returned then none                                  -- nor after it returned
      else if v ≠ c.v then none                                -- the requested value and no other
      else if c.r ≤ m.nTx then none                            -- at most `retries`
      else if tooEarly m.lastTx c.T t then none                 -- one per timeout interval
      else if m.openSet then none                              -- the previous one got its re-read first
      else some { m with nTx := m.nTx + 1, lastTx := some t, openSet := !m.tracking }  -- re-read due iff not tracked now
  | .txRefresh _ =>
    if !m.openSet then none                                    -- exactly one per untracked set request, none otherwise
    else if m.returned then none
    else some { m with openSet := false }
  | .ret true _ =>
    match m.call with
    | none => none
    | some c =>
      if m.returned || m.openSet then none
      else if c.v ≠ c.prev && !m.confirmed then none           -- True only after a report ≠ previous value
      else some { m with returned := true }
  | .ret false _ =>
    match m.call with
    | none => none
    | some c =>
      if m.returned || m.openSet then none
      else if m.nTx ≠ c.r then none                            -- False only after `retries` transmissions …
      else if m.confirmed then none                            -- … all unconfirmed
      else some { m with returned := true }
  | .raise _ =>
    match m.call with
    | none => none
    | some c => if m.returned || c.inRange || m.nTx ≠ 0 then none else some { m with returned := true }

def onOuts (m : Mon) : List Out → Option Mon
  | [] => some m
  | o :: os => match onOut m o with
    | none => none
    | some m' => onOuts m' os

def check (m : Mon) : List Item → Bool
  | [] => true
  | it :: rest =>
    match onOuts (onEvent m it.ev) it.outs with
    | none => false
    | some m' => check m' rest

/-- index of the first item that violates the statement (for diagnostics) -/
def firstBad (m : Mon) (k : Nat) : List Item → Option Nat
  | [] => none
  | it :: rest =>
    match onOuts (onEvent m it.ev) it.outs with
    | none => some k
    | some m' => firstBad m' (k + 1) rest

/-- `tracking`, `held` = the tracking flag and the triple the library holds when the observation starts -/
def spec (tracking : Bool) (held : Triple) (obs : List Item) : Bool :=
  check (Mon.init tracking held) obs

/-- the model's own observation of a history -/
def observe (s : St) : List Ev → List Item
  | [] => []
  | e :: es => let r := step s e; ⟨e, r.2⟩ :: observe r.1 es

end PlumVerif.C08

import PlumVerif.Model.Pool
/-
C09 as an executable predicate over what a complete run shows at quiescence, written from the
statement: "a frame that cannot be decoded is dropped, every valid frame … is still delivered
to its device exactly once, and each program-version or check-device request from the
controller is answered with exactly one response of the matching kind addressed to the
requester, the device-available response carrying the configured network information.  The
accounting of received frames stays balanced so that a later shutdown can complete."
-/
namespace PlumVerif.C09
open PlumVerif.Pool

/-- the reply the statement demands for a received frame (none for anything that is not a
program-version / check-device request from the controller); literals of the statement:
64 → 192, 48 → 176 are connected to the generated frame table in Props/C09.lean -/
def demanded (cfg : Nat) (f : Frame) : Option Resp :=
  match f.controller, f.cls with
  | true, .pvReq => some ⟨.programVersion, f.sender, 0⟩
  | true, .cdReq => some ⟨.deviceAvailable, f.sender, cfg⟩
  | _, _ => none

structure Obs where
  delivered : List Nat     -- ids of the frames whose data reached their device, in order
  responses : List Resp    -- automatic replies written to the transport, in order
  unfinished : Nat         -- read queue's unfinished-task count at the end
  alive : Nat              -- consumer tasks still running at the end
  shutdown : Bool          -- a subsequent `shutdown()` completed
deriving Repr, DecidableEq

/-- a model snapshot as an observation: `shutdown()` first awaits `Queue.join()`, which
returns iff the unfinished count is 0 -/
def Obs.ofSnap (o : Snap) : Obs :=
  { delivered := o.delivered, responses := o.responses, unfinished := o.unfinished, alive := o.alive,
    shutdown := o.unfinished == 0 }

/-- every decodable frame that carries data was delivered exactly once -/
def deliveredOnce (frames : List Frame) (o : Obs) : Bool :=
  frames.all fun f => f.raises || f.items == 0 || o.delivered.count f.id == 1

/-- nothing else was delivered (an undecodable frame is dropped) -/
def onlyValid (frames : List Frame) (o : Obs) : Bool :=
  o.delivered.all fun i => frames.any fun f => f.id == i && !f.raises && decide (0 < f.items)

/-- exactly one reply of the matching kind per controller request, addressed to the requester,
the device-available one carrying the configured network information; no other replies -/
def answered (cfg : Nat) (frames : List Frame) (o : Obs) : Bool :=
  o.responses.isPerm (frames.filterMap (demanded cfg))

/-- the accounting is balanced, no consumer was lost, shutdown can and does complete -/
def balanced (n : Nat) (o : Obs) : Bool :=
  o.unfinished == 0 && o.alive == n && o.shutdown

def spec (n cfg : Nat) (frames : List Frame) (o : Obs) : Bool :=
  deliveredOnce frames o && onlyValid frames o && answered cfg frames o && balanced n o

end PlumVerif.C09

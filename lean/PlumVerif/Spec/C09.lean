import PlumVerif.Model.Pool
/-
C09 as an executable predicate over what a complete run shows at quiescence, written from the
statement: "a frame that cannot be decoded is dropped, every valid frame … is still delivered
to its device exactly once, and each program-version or check-device request from the
controller is answered with exactly one response of the matching kind addressed to the
requester, the device-available response carrying the configured network information.  The
accounting of received frames stays balanced so that a later shutdown can complete."
-/
namespace PlumVerif.C09
open PlumVerif.Pool

/-- what the statement says about one reply frame: (its kind, its recipient, and whether it is
a proper reply: sent by the library and — for a device-available response (176) — carrying the
configured network information, judged with the DECODER of the network structure, not with
the encoder the machine uses) -/
def describe (net : NetInfo) (r : Fields) : Nat × Nat × Bool :=
  (r.kind.toNat, r.rcpt.toNat,
    r.sender == 86 &&
      (r.kind == 192 || (r.kind == 176 && Net.decode r.payload == some net)))

/-- the reply the statement demands for a received frame: a program-version request (64) from
the controller → a program-version response (192) to the requester; a check-device request
(48) → a device-available response (176) to the requester with the configured network
information; nothing for anything else -/
def demanded (f : Frame) : Option (Nat × Nat × Bool) :=
  match f.controller, f.cls with
  | true, .pvReq => some (192, f.sender.toNat, true)
  | true, .cdReq => some (176, f.sender.toNat, true)
  | _, _ => none

structure Obs where
  delivered : List Nat     -- ids of the frames whose data reached their device, in order
  responses : List Fields  -- automatic replies written to the transport, in order
  unfinished : Nat         -- read queue's unfinished-task count at the end
  alive : Nat              -- consumer tasks still running at the end
  shutdown : Bool          -- a subsequent `shutdown()` completed
deriving Repr, DecidableEq

/-- a model snapshot as an observation.  The pool machine does not model `shutdown()`; what it
does know is whether the FIRST thing shutdown does — `await self._queues.join()` on the read
queue — returns, which is iff the unfinished count is 0 (the write queue's side is
`C09Producer.write_balance`, see `C09Producer.shutdown_can_complete`) -/
def Obs.ofSnap (o : Snap) : Obs :=
  { delivered := o.delivered, responses := o.responses, unfinished := o.unfinished, alive := o.alive,
    shutdown := o.unfinished == 0 }

/-- every decodable frame that carries data was delivered exactly once -/
def deliveredOnce (frames : List Frame) (o : Obs) : Bool :=
  frames.all fun f => f.raises || f.items == 0 || o.delivered.count f.id == 1

/-- nothing else was delivered (an undecodable frame is dropped) -/
def onlyValid (frames : List Frame) (o : Obs) : Bool :=
  o.delivered.all fun i => frames.any fun f => f.id == i && !f.raises && decide (0 < f.items)

/-- exactly one reply of the matching kind per controller request, addressed to the requester,
the device-available one carrying the configured network information; no other replies -/
def answered (net : NetInfo) (frames : List Frame) (o : Obs) : Bool :=
  (o.responses.map (describe net)).isPerm (frames.filterMap demanded)

/-- the accounting is balanced, no consumer was lost, shutdown can and does complete -/
def balanced (n : Nat) (o : Obs) : Bool :=
  o.unfinished == 0 && o.alive == n && o.shutdown

def spec (n : Nat) (net : NetInfo) (frames : List Frame) (o : Obs) : Bool :=
  deliveredOnce frames o && onlyValid frames o && answered net frames o && balanced n o

end PlumVerif.C09

import PlumVerif.Model.ProducerExc
/- front end: see `Contain.excOps` in Model/ProducerExc.lean -/
namespace PlumVerif
def excOps : List String → Option String := Contain.excOps
end PlumVerif

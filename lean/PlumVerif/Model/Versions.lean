import PlumVerif.Model.Basic
import PlumVerif.Generated.Consts
import PlumVerif.Generated.Requests
/-
C15 — frame-version announcements (`PhysicalDevice.update_frame_versions`,
devices/__init__.py:140-169; decoding structures/frame_versions.py).

An announcement arrives as a list of (frame type code, version) pairs in wire order; the
decoder turns it into a `dict`, so a code that occurs twice keeps the position of its first
occurrence and the value of its last (`dictOf`).  The subscribed callback then walks the
dict: an entry whose code is a known frame type, is not listed in `frame_errors`, and whose
version differs from the recorded one leads to `Request.create(code)`; that succeeds for
request kinds (`Gen.requestKinds`, by reflection on the handler classes) — the request is
queued and the version recorded — and raises TypeError for a known response/message code,
which ends the callback: the remaining entries are not looked at.
-/
namespace PlumVerif.C15

abbrev Entry := Nat × Nat

/-- `is_known_frame_type` -/
def known (k : Nat) : Bool := Gen.frameTypes.any (·.2 == k)

/-- `Request.create(k)` returns a request frame -/
def creatable (k : Nat) : Bool := Gen.requestKinds.contains k

structure St where
  versions : List Entry      -- `_frame_versions`: newest record of a code first
  unsupported : List Nat     -- `data["frame_errors"]` (empty while not dispatched)
  deriving Repr

def init : St := ⟨[], []⟩

/-- `_frame_versions.get(k)` -/
def recorded (s : St) (k : Nat) : Option Nat := s.versions.lookup k

def record (s : St) (k v : Nat) : St := { s with versions := (k, v) :: s.versions }

/-- known, supported, and not `has_frame_version(k, v)` -/
def needs (s : St) (e : Entry) : Bool :=
  known e.1 && !s.unsupported.contains e.1 && (recorded s e.1 != some e.2)

structure Res where
  st : St
  queued : List Nat     -- kinds of the request frames put on the device queue, in order
  raised : Bool         -- the callback ended with TypeError
  deriving Repr

/-- the loop of `update_frame_versions` over the dict entries -/
def process : St → List Entry → Res
  | s, [] => ⟨s, [], false⟩
  | s, e :: r =>
    if needs s e then
      if creatable e.1 then
        ⟨(process (record s e.1 e.2) r).st, e.1 :: (process (record s e.1 e.2) r).queued,
          (process (record s e.1 e.2) r).raised⟩
      else ⟨s, [], true⟩
    else process s r

/-- `d[k] = v` on an insertion-ordered dict: an existing key keeps its place -/
def dictSet : List Entry → Nat → Nat → List Entry
  | [], k, v => [(k, v)]
  | (a, b) :: r, k, v => if a == k then (a, v) :: r else (a, b) :: dictSet r k v

def dictInsert (d : List Entry) (e : Entry) : List Entry := dictSet d e.1 e.2

/-- `dict(pairs)`: first-occurrence order, last value -/
def dictOf (l : List Entry) : List Entry := l.foldl dictInsert []

/-- one announcement as decoded from the wire -/
def announce (s : St) (wire : List Entry) : Res := process s (dictOf wire)

inductive Ev where
  | announce (wire : List Entry)   -- a sensor-data or regulator-data frame carrying these versions
  | errors (ks : List Nat)         -- `frame_errors` dispatched with these kinds
  deriving Repr

/-- what one external event does: new state, request kinds queued, callback raised -/
def step (s : St) : Ev → Res
  | .announce w => announce s w
  | .errors ks => ⟨{ s with unsupported := ks }, [], false⟩

def run : St → List Ev → List Res
  | _, [] => []
  | s, e :: r => step s e :: run (step s e).st r

def final : St → List Ev → St
  | s, [] => s
  | s, e :: r => final (step s e).st r


/-! ### histories that also contain the public `request()` helper

`PhysicalDevice.request(name, kind, retries, timeout)` puts one request frame of `kind` on the
queue per attempt and waits for `name`; when it gives up it raises — and changes neither the
recorded versions nor the set of unsupported kinds (only set-up's `frame_errors` does). -/

inductive Ev2 where
  | ev (e : Ev)
  | request (k attempts : Nat)     -- a `request()` for kind k that is never answered
  deriving Repr

def step2 (s : St) : Ev2 → Res
  | .ev e => step s e
  | .request k n => ⟨s, List.replicate n k, false⟩

def run2 : St → List Ev2 → List Res
  | _, [] => []
  | s, e :: r => step2 s e :: run2 (step2 s e).st r

def final2 : St → List Ev2 → St
  | s, [] => s
  | s, e :: r => final2 (step2 s e).st r

/-- the history with the `request()` calls left out -/
def strip : List Ev2 → List Ev
  | [] => []
  | .ev e :: r => e :: strip r
  | .request _ _ :: r => strip r

/-! ### several physical devices on one write queue

Every `PhysicalDevice` keeps its own `_frame_versions` and `data`, and all devices of a connection
put their frames on the protocol's ONE write queue.  A refresh is built by
`Request.create(frame_type, recipient=self.address)`: it is addressed to the device whose
announcement is being handled. -/

structure Frame where
  kind : Nat
  recipient : Nat
  deriving DecidableEq, Repr

/-- the request frames behind the queued kinds of a device with address `addr` -/
def Res.frames (addr : Nat) (r : Res) : List Frame := r.queued.map (⟨·, addr⟩)

/-- the devices of a connection, by address -/
abbrev Sys := Nat → St

/-- an event at the device with address `a`: only that device's state moves; what it queues goes
to the shared queue, addressed to `a` -/
def sysStep (sys : Sys) (a : Nat) (e : Ev2) : Sys × List Frame :=
  (fun b => if b = a then (step2 (sys a) e).st else sys b, (step2 (sys a) e).frames a)

def sysRun : Sys → List (Nat × Ev2) → List (List Frame)
  | _, [] => []
  | sys, (a, e) :: r => (sysStep sys a e).2 :: sysRun (sysStep sys a e).1 r

def sysFinal : Sys → List (Nat × Ev2) → Sys
  | sys, [] => sys
  | sys, (a, e) :: r => sysFinal (sysStep sys a e).1 r

/-- the events of one device, in order -/
def eventsOf (b : Nat) (evs : List (Nat × Ev2)) : List Ev2 := (evs.filter (·.1 == b)).map (·.2)

end PlumVerif.C15

import PlumVerif.Model.Conn
/-
Line-protocol front end of the connection machine (C11, C12).

  conn <consumers> <reconnect 0|1> <script> <event> <event> ...

  script : `-` or comma separated open results  o<d><c> (ok, drain mode d, close mode c; modes o r h) | e | h
  event  : C            connect()   (on a connection whose close() has returned: the object is used again, `reopen` first)
           F:p:<addr>   password response from addr      F:s:<m>:<t>  sensor data, m mixers, t thermostats
           F:f          frame for somebody else           F:b          frame with a bad checksum
           F:o:<addr>   frame for us from an address without a device class (get_device_entry raises; nothing observable)
           F:u          wire-valid ecoMAX sensor data with an undecodable payload (handle_frame raises; nothing observable)
           X            the stream breaks (EOF / exception)   XM  EOF in the middle of a frame
           D:<mode>     drain() of the current transport  W:<mode>     wait_closed() of the current transport
           Q:<n>        n requests queued                 P:d:<addr> | P:m:<i> | P:t:<i>  park a task
           A:<ms>       advance virtual time              Z            close()   (after a close() that has returned: again)
           F:v:<n>:<ver> ecoMAX sensor data whose frame-version table announces version <ver> for the first n kinds of
                        `verKinds` (program version, check device)
           G:<addr>     a subscriber of the device-name event of addr blocks      R   every such subscriber returns
           K:<x|t|s>    which Connection class the harness drives (extension point / TcpConnection / SerialConnection
                        on a scripted network): nothing happens in the machine
           S:<k>        the peer sends the first k bytes of a frame and stalls: nothing happens in the machine (the
                        read in progress keeps its deadline; the read timeout is per `read()` call)

answer: one segment per event, joined by `|`:  <outputs>#<state>
  outputs  `;`-joined  <time>/<name>/<args>   in emission order
  state    c,w,wa,p,k,l,r,s,rq,d,b,q,rs,t,z,zt,tie,n   (n: live tasks by coroutine name, `name*count` joined by `+`)
-/
namespace PlumVerif.Conn

def parseMode : Char → Option Mode
  | 'o' => some .ok
  | 'r' => some .raise
  | 'h' => some .hang
  | _ => none

def parseOpenRes (w : String) : Option OpenRes :=
  match w.toList with
  | ['o', d, c] => do let d ← parseMode d; let c ← parseMode c; pure (.ok d c)
  | ['e'] => some .err
  | ['h'] => some .hang
  | _ => none

def parseScript (w : String) : Option (List OpenRes) :=
  if w = "-" then some [] else (w.splitOn ",").mapM parseOpenRes

def parseHEv (w : String) : Option HEv :=
  match w.splitOn ":" with
  | ["C"] => some (.ext .connect)
  | ["F", "p", a] => do let a ← a.toNat?; pure (.ext (.feed (.pw a)))
  | ["F", "s", m, t] => do let m ← m.toNat?; let t ← t.toNat?; pure (.ext (.feed (.sensors m t)))
  | ["F", "v", n, v] => do
    let n ← n.toNat?; let v ← v.toNat?
    if n = 0 ∨ n > verKinds.length then none else pure (.ext (.feed (.versions ((verKinds.take n).map (fun k => (k, v))))))
  | ["F", "f"] => some (.ext (.feed .foreign))
  | ["F", "b"] => some (.ext (.feed .bad))
  | ["F", "u"] => some (.ext (.feed .undec))
  | ["F", "o", a] => do let a ← a.toNat?; pure (.ext (.feed (.orphan a)))
  | ["X"] => some (.ext .readFault)
  | ["XM"] => some (.ext2 (.feed .bad) .readFault)
  | ["D", m] => (match m.toList with | [c] => (parseMode c).map (fun m => .ext (.setDrain m)) | _ => none)
  | ["W", m] => (match m.toList with | [c] => (parseMode c).map (fun m => .ext (.setClose m)) | _ => none)
  | ["Q", n] => do let n ← n.toNat?; pure (.ext (.enq n))
  | ["P", "d", a] => do let a ← a.toNat?; pure (.ext (.park (.dev a)))
  | ["P", "m", i] => do let i ← i.toNat?; pure (.ext (.park (.mixer i)))
  | ["P", "t", i] => do let i ← i.toNat?; pure (.ext (.park (.thermo i)))
  | ["A", n] => do let n ← n.toNat?; pure (.advanceBy n)
  | ["Z"] => some (.ext .close)
  | ["G", a] => do let a ← a.toNat?; pure (.ext (.gate a))
  | ["R"] => some (.ext .release)
  | ["S", k] => do let _ ← k.toNat?; pure (.ext (.advance 0))
  | ["K", _] => some (.ext (.advance 0))
  | _ => none

def b2s (b : Bool) : String := if b then "1" else "0"

def Out.show : Nat × Out → Option String
  | (t, .openCall tag) => some s!"{t}/open/{tag}"
  | (t, .tx tid k) => some s!"{t}/tx/{tid}/{k}"
  | (t, .wclose tid) => some s!"{t}/wclose/{tid}"
  | (t, .ann a true _) => some s!"{t}/ann/{a}/1"
  | (t, .ann a false f) => some s!"{t}/ann/{a}/0/{b2s f}"
  | (t, .deliver a k) => if k = kindUndec then none else some s!"{t}/deliver/{a}/{k}"
  | (t, .newdev a) => some s!"{t}/newdev/{a}"
  | (t, .cfail) => some s!"{t}/cfail"
  | (t, .closed) => some s!"{t}/closed"
  | (_, .fault) => none
  | (_, .put _ _) => none

def showState (s : St) (tie : Bool) : String :=
  let w := match s.writer with | some t => (if s.wopen then toString t else "-") | none => "-"
  let wa := b2s s.writer.isSome
  let (z, zt) := match s.closing with
    | .no => ("n", 0)
    | .joining t0 => ("j", s.now - t0)
    | .joined t0 => ("j", s.now - t0)
    | .wclosing t0 _ => ("w", s.now - t0)
    | .done t0 t1 => ("d", t1 - t0)
  s!"c={b2s s.connected},w={w},wa={wa},p={s.producers},k={s.consumers},l={lostTasks s},r={connTasks s}," ++
  s!"s={setupTasks s},rq={reqTasks s},d={devOwnTasks s},b={subOwnTasks s},q={s.writeQ.length},rs={s.readQ.length},t={s.now},z={z},zt={zt},tie={b2s tie}," ++
  "n=" ++ (let l := (taskNames s).filter (fun p => p.2 != 0)
           if l.isEmpty then "-" else String.intercalate "+" (l.map (fun p => s!"{p.1}*{p.2}")))

def runH (s : St) : List HEv → List String
  | [] => []
  | h :: hs =>
    -- a set-up task that resumes while two or more loss / reconnect cycles run in the same instant: where exactly
    -- its requests land between the start-master requests depends on asyncio's iteration count (not modelled)
    let evs := hevs s h
    let amb := evs.contains .setupGo && decide ((evs.takeWhile (· != .setupGo)).count .lostRun ≥ 2)
    let tie := (match h with | .advanceBy dt => tieWithin s (s.now + dt) 4096 | _ => false) || amb
    let r := hstep s h
    let outs := String.intercalate ";" (r.2.filterMap Out.show)
    ((if outs.isEmpty then "-" else outs) ++ "#" ++ showState r.1 tie) :: runH r.1 hs

def connOps : List String → Option String
  | "conn" :: cfg :: rc :: script :: evs => do
    let cfg ← cfg.toNat?
    let rc ← (if rc = "1" then some true else if rc = "0" then some false else none)
    let script ← parseScript script
    let hs ← evs.mapM parseHEv
    pure (String.intercalate "|" (runH (init cfg rc script) hs))
  | _ => none

end PlumVerif.Conn

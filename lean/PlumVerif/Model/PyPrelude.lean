/-
Semantic prelude of the Python → Lean code translator (`tools/py2lean.py`).

The meaning of the Python primitives that the translated subset uses, as total Lean functions.
Import-free (core Lean only): compiled into the native driver and validated differentially against
CPython by `harness/pycode.py`.  TRUSTED: this file and the translator's syntax-directed mapping.

* Python values are dynamically typed: one sum type `V`.  Unbounded ints are `Int`; `bytes` and
  `bytearray` are both `V.bytes (List UInt8)` (mutability / aliasing is NOT modelled: the translator
  rejects in-place mutation of containers); `str` is `String`; `list` / `tuple` hold `V`s; a `dict`
  with string keys is two parallel lists; an instance of a plain data class is `obj cls keys vals`.
* Every primitive returns `PyM V = Except PyErr V`; the error is the CLASS of the Python exception
  (messages are not modelled).  Two errors are not Python exceptions: `outOfFuel` (a `while` loop
  ran longer than the fuel it was given: tie theorems show it does not occur with the stated fuel)
  and `unsupported` (the prelude does not model this case of the primitive: never guessed).
* Coroutines of the frame reader run in `IOM`: a state monad over the bytes that will still arrive
  on the stream (followed by EOF) that KEEPS the state when an exception is raised.
-/
namespace PlumVerif.Py

inductive PyErr
  | KeyError | ValueError | IndexError | TypeError | AttributeError | OverflowError | StructError
  | OSError | IncompleteReadError
  | FrameDataError | ReadError | ChecksumError | UnknownDeviceError | UnknownFrameError
  | outOfFuel | unsupported
  | UnboundLocalError
deriving Repr, DecidableEq

abbrev PyM := Except PyErr

inductive V
  | none
  | int (i : Int)
  | bool (b : Bool)
  | bytes (b : List UInt8)
  | str (s : String)
  | list (xs : List V)
  | tuple (xs : List V)
  | dict (ks : List String) (vs : List V)
  | obj (cls : String) (ks : List String) (vs : List V)
  /-- a `dict` some key of which is not a string (a dict whose keys are all strings is `dict`) -/
  | map (ks : List V) (vs : List V)
  /-- a wire float: `w` bytes wide (4 / 8), the IEEE bit pattern as a number (DESIGN section 3: opaque bits) -/
  | float (w : Nat) (bits : Nat)

instance : Inhabited V := ⟨V.none⟩

/-- what `except <classes>` catches: the class itself (`Exception` = every Python exception);
`outOfFuel` / `unsupported` are not Python exceptions and are never caught -/
inductive Catch
  | cls (e : PyErr)
  | exception

def catches (cs : List Catch) (e : PyErr) : Bool :=
  match e with
  | .outOfFuel => false
  | .unsupported => false
  | _ => cs.any fun c => match c with
      | .exception => true
      | .cls c => decide (c = e)

/-! ### integers: Python's bit operations on unbounded two's-complement ints -/

/-- bits of `a` that are not in `b` -/
def ldiff (a b : Nat) : Nat := Nat.bitwise (fun x y => x && !y) a b

def iand : Int → Int → Int
  | .ofNat a, .ofNat b => .ofNat (a &&& b)
  | .ofNat a, .negSucc b => .ofNat (ldiff a b)
  | .negSucc a, .ofNat b => .ofNat (ldiff b a)
  | .negSucc a, .negSucc b => .negSucc (a ||| b)

def ior : Int → Int → Int
  | .ofNat a, .ofNat b => .ofNat (a ||| b)
  | .ofNat a, .negSucc b => .negSucc (ldiff b a)
  | .negSucc a, .ofNat b => .negSucc (ldiff a b)
  | .negSucc a, .negSucc b => .negSucc (a &&& b)

def ixor : Int → Int → Int
  | .ofNat a, .ofNat b => .ofNat (a ^^^ b)
  | .ofNat a, .negSucc b => .negSucc (a ^^^ b)
  | .negSucc a, .ofNat b => .negSucc (a ^^^ b)
  | .negSucc a, .negSucc b => .ofNat (a ^^^ b)

/-- a number where Python's arithmetic accepts one: `int`, or `bool` as 0 / 1 -/
def asInt? : V → Option Int
  | .int i => some i
  | .bool b => some (if b then 1 else 0)
  | _ => Option.none

def bothBool? : V → V → Option (Bool × Bool)
  | .bool a, .bool b => some (a, b)
  | _, _ => Option.none

/-- `a ^ b` -/
def xor (a b : V) : PyM V :=
  match bothBool? a b with
  | some (x, y) => pure (.bool (x != y))
  | Option.none =>
    match asInt? a, asInt? b with
    | some x, some y => pure (.int (ixor x y))
    | _, _ => throw .TypeError

/-- `a & b` -/
def and (a b : V) : PyM V :=
  match bothBool? a b with
  | some (x, y) => pure (.bool (x && y))
  | Option.none =>
    match asInt? a, asInt? b with
    | some x, some y => pure (.int (iand x y))
    | _, _ => throw .TypeError

/-- `d[k] = v` on the two parallel lists of a string-keyed dict: an existing key keeps its position -/
def dictSet (ks : List String) (vs : List V) (k : String) (v : V) : List String × List V :=
  match ks, vs with
  | k' :: ks', v' :: vs' =>
    if k' = k then (k' :: ks', v :: vs')
    else let r := dictSet ks' vs' k v; (k' :: r.1, v' :: r.2)
  | _, _ => ([k], [v])

/-- `d1 | d2` / `d1 |= d2` of two string-keyed dicts (aliasing of `|=` is not modelled) -/
def dictMerge (ks : List String) (vs : List V) : List String → List V → List String × List V
  | k :: ks2, v :: vs2 => let r := dictSet ks vs k v; dictMerge r.1 r.2 ks2 vs2
  | _, _ => (ks, vs)

/-- `a | b`: ints / bools, and the union of two string-keyed dicts -/
def or (a b : V) : PyM V :=
  match a, b with
  | .dict ks vs, .dict ks2 vs2 => let r := dictMerge ks vs ks2 vs2; pure (.dict r.1 r.2)
  | _, _ =>
  match bothBool? a b with
  | some (x, y) => pure (.bool (x || y))
  | Option.none =>
    match asInt? a, asInt? b with
    | some x, some y => pure (.int (ior x y))
    | _, _ => throw .TypeError

/-- `a << b` (negative count: ValueError) -/
def lshift (a b : V) : PyM V :=
  match asInt? a, asInt? b with
  | some x, some y => if y < 0 then throw .ValueError else pure (.int (x <<< y.toNat))
  | _, _ => throw .TypeError

/-- `a >> b` (floor; negative count: ValueError) -/
def rshift (a b : V) : PyM V :=
  match asInt? a, asInt? b with
  | some x, some y => if y < 0 then throw .ValueError else pure (.int (x >>> y.toNat))
  | _, _ => throw .TypeError

/-- `a + b`: numbers, and concatenation of two sequences of the same kind -/
def add (a b : V) : PyM V :=
  match a, b with
  | .bytes x, .bytes y => pure (.bytes (x ++ y))
  | .str x, .str y => pure (.str (x ++ y))
  | .list x, .list y => pure (.list (x ++ y))
  | .tuple x, .tuple y => pure (.tuple (x ++ y))
  | _, _ =>
    match asInt? a, asInt? b with
    | some x, some y => pure (.int (x + y))
    | _, _ => throw .TypeError

/-- `a - b` -/
def sub (a b : V) : PyM V :=
  match asInt? a, asInt? b with
  | some x, some y => pure (.int (x - y))
  | _, _ => throw .TypeError

/-- `a * b` on numbers (sequence repetition is not modelled) -/
def mul (a b : V) : PyM V :=
  match asInt? a, asInt? b with
  | some x, some y => pure (.int (x * y))
  | _, _ => throw .unsupported

/-- `a // b` (floor division) -/
def floordiv (a b : V) : PyM V :=
  match asInt? a, asInt? b with
  | some x, some y => if y = 0 then throw .unsupported else pure (.int (x.fdiv y))
  | _, _ => throw .TypeError

/-- `a % b` on numbers (sign of the divisor) -/
def mod (a b : V) : PyM V :=
  match asInt? a, asInt? b with
  | some x, some y => if y = 0 then throw .unsupported else pure (.int (x.fmod y))
  | _, _ => throw .unsupported

/-- `-a` -/
def neg (a : V) : PyM V :=
  match asInt? a with
  | some x => pure (.int (-x))
  | Option.none => throw .TypeError

/-! ### truth, comparison -/

/-- `bool(v)` as a Lean Bool.  Instances of classes are not modelled (`__bool__` / `__len__`). -/
def truthy : V → PyM Bool
  | .none => pure false
  | .int i => pure (i != 0)
  | .bool b => pure b
  | .bytes b => pure (!b.isEmpty)
  | .str s => pure (s != "")
  | .list xs => pure (!xs.isEmpty)
  | .tuple xs => pure (!xs.isEmpty)
  | .dict ks _ => pure (!ks.isEmpty)
  -- an instance of a plain data class (no `__bool__` / `__len__`: checked by the translator where it builds one) is
  -- true; a `Frame` has `__len__` (serialises the frame): not modelled
  | .obj c _ _ => if c = "Frame" then throw .unsupported else pure true
  | .map ks _ => pure (!ks.isEmpty)
  | .float .. => throw .unsupported

def bool (v : V) : PyM V := do pure (.bool (← truthy v))

def not (v : V) : PyM V := do pure (.bool (!(← truthy v)))

/-- `a == b` on scalars, bytes and strings; values of different kinds are unequal; comparing
containers is not modelled -/
def eqB (a b : V) : PyM Bool :=
  match a, b with
  | .none, .none => pure true
  | .bytes x, .bytes y => pure (x == y)
  | .str x, .str y => pure (x == y)
  | .list _, _ => throw .unsupported
  | .tuple _, _ => throw .unsupported
  | .dict .., _ => throw .unsupported
  | .obj .., _ => throw .unsupported
  | .map .., _ => throw .unsupported
  | .float .., _ => throw .unsupported
  | _, .map .. => throw .unsupported
  | _, .float .. => throw .unsupported
  | _, .list _ => throw .unsupported
  | _, .tuple _ => throw .unsupported
  | _, .dict .. => throw .unsupported
  | _, .obj .. => throw .unsupported
  | _, _ =>
    match asInt? a, asInt? b with
    | some x, some y => pure (x == y)
    | _, _ => pure false

def eq (a b : V) : PyM V := do pure (.bool (← eqB a b))
def ne (a b : V) : PyM V := do pure (.bool (!(← eqB a b)))

def cmpInt (f : Int → Int → Bool) (a b : V) : PyM V :=
  match asInt? a, asInt? b with
  | some x, some y => pure (.bool (f x y))
  | _, _ =>
    match a, b with
    | .bytes _, .bytes _ => throw .unsupported
    | .str _, .str _ => throw .unsupported
    | .list _, .list _ => throw .unsupported
    | .tuple _, .tuple _ => throw .unsupported
    | .float .., _ => throw .unsupported
    | _, .float .. => throw .unsupported
    | _, _ => throw .TypeError

/-- `math.isnan` on the bit pattern of a wire float (binary32 / binary64): exponent all ones, mantissa non-zero -/
def floatIsNaN (w bits : Nat) : PyM Bool :=
  if w = 4 then pure (decide (bits % 2147483648 > 2139095040))
  else if w = 8 then pure (decide (bits % 9223372036854775808 > 9218868437227405312))
  else throw .unsupported

/-- `x > 0` on the bit pattern of a wire float: sign clear, not zero, not NaN (+inf and denormals count) -/
def floatGtZero (w bits : Nat) : PyM Bool := do
  let nan ← floatIsNaN w bits
  if w = 4 then pure (decide (bits < 2147483648) && bits != 0 && !nan)
  else pure (decide (bits < 9223372036854775808) && bits != 0 && !nan)

def lt := cmpInt (fun x y => decide (x < y))
def le := cmpInt (fun x y => decide (x ≤ y))
/-- `a > b`; of a wire float only `x > 0` is defined -/
def gt (a b : V) : PyM V :=
  match a, b with
  | .float w bits, .int 0 => do pure (.bool (← floatGtZero w bits))
  | _, _ => cmpInt (fun x y => decide (x > y)) a b
def ge := cmpInt (fun x y => decide (x ≥ y))

/-- `a is None` -/
def isNone : V → V
  | .none => .bool true
  | _ => .bool false

def isNotNone : V → V
  | .none => .bool false
  | _ => .bool true

/-! ### sequences -/

def byteV (b : UInt8) : V := .int (Int.ofNat b.toNat)

/-- the elements a `for` loop / comprehension / `reduce` sees -/
def iter : V → PyM (List V)
  | .bytes b => pure (b.map byteV)
  | .list xs => pure xs
  | .tuple xs => pure xs
  | .str s => pure (s.toList.map fun c => .str (String.singleton c))
  | .dict ks _ => pure (ks.map .str)
  | .map ks _ => pure ks
  | _ => throw .TypeError

def len : V → PyM V
  | .bytes b => pure (.int b.length)
  | .list xs => pure (.int xs.length)
  | .tuple xs => pure (.int xs.length)
  | .str s => pure (.int s.length)
  | .dict ks _ => pure (.int ks.length)
  | .map ks _ => pure (.int ks.length)
  | _ => throw .TypeError

/-- position of index `i` (negative: from the end) in a sequence of length `n` -/
def normIndex (n : Nat) (i : Int) : Option Nat :=
  if 0 ≤ i then (if i < n then some i.toNat else Option.none)
  else (if 0 ≤ i + n then some (i + n).toNat else Option.none)

def lookup (ks : List String) (vs : List V) (k : String) : Option V :=
  match ks, vs with
  | k' :: ks, v :: vs => if k' = k then some v else lookup ks vs k
  | _, _ => Option.none

/-- `v[i]` -/
def index (v i : V) : PyM V :=
  match v with
  | .dict ks vs =>
    match i with
    | .str k => match lookup ks vs k with | some x => pure x | Option.none => throw .KeyError
    | _ => throw .KeyError
  | .bytes b =>
    match i with
    | .int _ | .bool _ =>
      match normIndex b.length ((asInt? i).getD 0) with
      | some k => pure (byteV (b.getD k 0))
      | Option.none => throw .IndexError
    | _ => throw .TypeError
  | .list xs | .tuple xs =>
    match i with
    | .int _ | .bool _ =>
      match normIndex xs.length ((asInt? i).getD 0) with
      | some k => pure (xs.getD k .none)
      | Option.none => throw .IndexError
    | _ => throw .TypeError
  | .str s =>
    match i with
    | .int _ | .bool _ =>
      match normIndex s.length ((asInt? i).getD 0) with
      | some k => pure (.str (String.singleton (s.toList.getD k ' ')))
      | Option.none => throw .IndexError
    | _ => throw .TypeError
  | _ => throw .TypeError

/-- a slice bound: `None` (omitted) → the default, negative → from the end, then clamped to `0..n` -/
def bound (n : Nat) (dflt : Nat) : V → PyM Nat
  | .none => pure dflt
  | b =>
    match asInt? b with
    | some i =>
      if 0 ≤ i then pure (min i.toNat n)
      else pure (i + n).toNat      -- `toNat` clamps at 0
    | Option.none => throw .TypeError

def sliceList {α : Type} (xs : List α) (lo hi : Nat) : List α := (xs.take hi).drop lo

/-- `v[lo:hi]` (step 1; lenient) -/
def slice (v lo hi : V) : PyM V :=
  match v with
  | .bytes b => do let l ← bound b.length 0 lo; let h ← bound b.length b.length hi; pure (.bytes (sliceList b l h))
  | .list xs => do let l ← bound xs.length 0 lo; let h ← bound xs.length xs.length hi; pure (.list (sliceList xs l h))
  | .tuple xs => do let l ← bound xs.length 0 lo; let h ← bound xs.length xs.length hi; pure (.tuple (sliceList xs l h))
  | .str s => do
      let l ← bound s.length 0 lo; let h ← bound s.length s.length hi
      pure (.str (String.ofList (sliceList s.toList l h)))
  | _ => throw .TypeError

/-- `x in c` -/
def contains (x c : V) : PyM V :=
  match c with
  | .bytes b =>
    match x with
    | .int _ | .bool _ =>
      let i := (asInt? x).getD 0
      if 0 ≤ i ∧ i < 256 then pure (.bool (b.any fun y => y.toNat == i.toNat)) else throw .ValueError
    | .bytes _ => throw .unsupported
    | _ => throw .TypeError
  | .list xs | .tuple xs =>
    xs.foldlM (fun (acc : V) y => match acc with
      | .bool true => pure acc
      | _ => eq x y) (.bool false)
  | .dict ks _ =>
    match x with
    | .str k => pure (.bool (ks.contains k))
    | _ => pure (.bool false)
  | .str _ => throw .unsupported
  | _ => throw .TypeError

def notContains (x c : V) : PyM V := do not (← contains x c)

/-- `range(stop)` / `range(start, stop)` as the list of its elements -/
def range (start stop : V) : PyM V :=
  match start, stop with
  | .int a, .int b => pure (.list ((List.range (b - a).toNat).map fun (k : Nat) => .int (a + Int.ofNat k)))
  | _, _ => throw .TypeError

/-- `range(start, stop, step)` with a positive step -/
def rangeStep (start stop step : V) : PyM V :=
  match start, stop, step with
  | .int a, .int b, .int s =>
    if s = 0 then throw .ValueError
    else if s < 0 then throw .unsupported
    else pure (.list ((List.range (((b - a) + s - 1).fdiv s).toNat).map fun (k : Nat) => .int (a + Int.ofNat k * s)))
  | _, _, _ => throw .TypeError

/-- `reversed(seq)` as the list of its elements -/
def reversed : V → PyM V
  | .list xs => pure (.list xs.reverse)
  | .tuple xs => pure (.list xs.reverse)
  | .bytes b => pure (.list (b.map byteV).reverse)
  | .str _ => throw .unsupported
  | _ => throw .TypeError

/-- `[f(x) for x in it if …]`: `f` answers `none` for a filtered-out element -/
def listComp (it : V) (f : V → PyM (Option V)) : PyM V := do
  let xs ← iter it
  let ys ← xs.foldlM (fun (acc : List V) x => do
    match ← f x with
    | some y => pure (y :: acc)
    | Option.none => pure acc) []
  pure (.list ys.reverse)

/-- `any(f(x) for x in it)`: stops at the first true element -/
def anyGen (it : V) (f : V → PyM V) : PyM V := do
  let xs ← iter it
  let r ← xs.foldlM (fun (acc : Bool) x => if acc then pure true else do truthy (← f x)) false
  pure (.bool r)

/-- `all(f(x) for x in it)`: stops at the first false element -/
def allGen (it : V) (f : V → PyM V) : PyM V := do
  let xs ← iter it
  let r ← xs.foldlM (fun (acc : Bool) x => if acc then do truthy (← f x) else pure false) true
  pure (.bool r)

/-- `functools.reduce(f, it)`: TypeError on an empty iterable -/
def reduce (f : V → V → PyM V) (it : V) : PyM V := do
  match ← iter it with
  | [] => throw .TypeError
  | x :: xs => xs.foldlM f x

/-- `functools.reduce(f, it, init)` -/
def reduceInit (f : V → V → PyM V) (it : V) (init : V) : PyM V := do
  let xs ← iter it
  xs.foldlM f init

/-! ### bytes and ints -/

def decodeLE : List UInt8 → Nat
  | [] => 0
  | b :: r => b.toNat + 256 * decodeLE r

def encodeLE (n : Nat) : Nat → List UInt8
  | 0 => []
  | k + 1 => (n % 256).toUInt8 :: encodeLE (n / 256) k

/-- `int.from_bytes(b, byteorder=…)` (unsigned); an iterable of ints as first argument is not modelled -/
def int_from_bytes (b order : V) : PyM V :=
  match b, order with
  | .bytes b, .str o =>
    if o = "little" then pure (.int (decodeLE b))
    else if o = "big" then pure (.int (decodeLE b.reverse))
    else throw .ValueError
  | .list _, _ => throw .unsupported
  | .tuple _, _ => throw .unsupported
  | _, _ => throw .TypeError

/-- the attribute lookup `n.to_bytes`: Python evaluates it BEFORE the arguments of the call (so a receiver
without that method raises AttributeError even when an argument would raise too); only ints have it -/
def attr_to_bytes (n : V) : PyM Unit :=
  match asInt? n with
  | some _ => pure ()
  | Option.none => throw .AttributeError

/-- `n.to_bytes(length=…, byteorder=…)` for non-negative-or-not ints `n`, `l` (unsigned conversion) -/
def toBytesCore (n l : Int) (o : String) : PyM V :=
  if l < 0 then throw .ValueError
  else if n < 0 then throw .OverflowError
  else if n.toNat ≥ 256 ^ l.toNat then throw .OverflowError
  else if o = "little" then pure (.bytes (encodeLE n.toNat l.toNat))
  else if o = "big" then pure (.bytes (encodeLE n.toNat l.toNat).reverse)
  else throw .ValueError

/-- `n.to_bytes(length=…, byteorder=…)` (unsigned): negative length ValueError; negative number or
one that does not fit OverflowError; `bool` is an `int` (receiver and length); a receiver that is
not an int has no such method (AttributeError) -/
def int_to_bytes (n length order : V) : PyM V :=
  match n, length, order with
  | .int n, .int l, .str o =>
    if l < 0 then throw .ValueError
    else if n < 0 then throw .OverflowError
    else if n.toNat ≥ 256 ^ l.toNat then throw .OverflowError
    else if o = "little" then pure (.bytes (encodeLE n.toNat l.toNat))
    else if o = "big" then pure (.bytes (encodeLE n.toNat l.toNat).reverse)
    else throw .ValueError
  | _, _, _ =>
    match asInt? n with
    | Option.none => throw .AttributeError
    | some n =>
      match asInt? length, order with
      | some l, .str o => toBytesCore n l o
      | _, _ => throw .TypeError

/-- one element of `bytearray([...])` / `bytes([...])` -/
def byteOfV (v : V) : PyM UInt8 :=
  match v with
  | .int _ | .bool _ =>
    let i := (asInt? v).getD 0
    if 0 ≤ i ∧ i < 256 then pure i.toNat.toUInt8 else throw .ValueError
  | _ => throw .TypeError

/-- `bytearray(x)` / `bytes(x)`: from an iterable of ints (evaluated in order), or a copy of bytes -/
def bytearray (v : V) : PyM V :=
  match v with
  | .bytes b => pure (.bytes b)
  | .list xs | .tuple xs => do
      let bs ← xs.foldlM (fun (acc : List UInt8) x => do pure ((← byteOfV x) :: acc)) []
      pure (.bytes bs.reverse)
  | .int n => if n < 0 then throw .ValueError else pure (.bytes (List.replicate n.toNat 0))
  | _ => throw .TypeError

/-! ### dicts, objects, tuples -/

/-- `d.get(k, default)` -/
def dict_get (d k dflt : V) : PyM V :=
  match d, k with
  | .dict ks vs, .str k => pure ((lookup ks vs k).getD dflt)
  | .dict .., _ => pure dflt
  | _, _ => throw .unsupported

/-- `Cls(k1=v1, …)` of a plain data class -/
def mkobj (cls : String) (kvs : List (String × V)) : V := .obj cls (kvs.map (·.1)) (kvs.map (·.2))

/-- `NamedTupleCls(*args)` with `n` fields -/
def namedtuple (n : Nat) (args : V) : PyM V := do
  let xs ← iter args
  if xs.length = n then pure (.tuple xs) else throw .TypeError

def unpackN (n : Nat) (v : V) : PyM (List V) := do
  let xs ← iter v
  if xs.length = n then pure xs else throw .ValueError

/-- `a, b = v` -/
def unpack2 (v : V) : PyM (V × V) := do
  match ← unpackN 2 v with
  | [a, b] => pure (a, b)
  | _ => throw .ValueError

def unpack3 (v : V) : PyM (V × V × V) := do
  match ← unpackN 3 v with
  | [a, b, c] => pure (a, b, c)
  | _ => throw .ValueError

def unpack4 (v : V) : PyM (V × V × V × V) := do
  match ← unpackN 4 v with
  | [a, b, c, d] => pure (a, b, c, d)
  | _ => throw .ValueError

def unpack5 (v : V) : PyM (V × V × V × V × V) := do
  match ← unpackN 5 v with
  | [a, b, c, d, e] => pure (a, b, c, d, e)
  | _ => throw .ValueError

/-- `EnumCls(x)` of an IntEnum with the given member values: the member (an int) or ValueError -/
def enum_call (values : List Int) (x : V) : PyM V :=
  match x with
  | .int i => if values.contains i then pure (.int i) else throw .ValueError
  | .bool _ => throw .unsupported
  | _ => throw .ValueError

/-- `struct.Struct(fmt).unpack_from(buffer)`; only the header format `<BH4B` is modelled -/
def struct_unpack_from (fmt : String) (buf : V) : PyM V :=
  if fmt = "<BH4B" then
    match buf with
    | .bytes (a :: l0 :: l1 :: b :: c :: d :: e :: _) =>
      pure (.tuple [byteV a, .int (Int.ofNat (l0.toNat + 256 * l1.toNat)), byteV b, byteV c, byteV d, byteV e])
    | .bytes _ => throw .StructError
    | _ => throw .TypeError
  else throw .unsupported

/-- `Frame.create(frame_type=…, **kwargs)` (TRUSTED primitive: handler lookup and dynamic import are
not translated): UnknownFrameError for a type that is not a member of `FrameType`, otherwise the
frame object, recorded as its constructor arguments -/
def frame_create (frameTypes : List Int) (kvs : List (String × V)) : PyM V :=
  match lookup (kvs.map (·.1)) (kvs.map (·.2)) "frame_type" with
  | some (.int t) => if frameTypes.contains t then pure (mkobj "Frame" kvs) else throw .UnknownFrameError
  | some _ => throw .UnknownFrameError
  | Option.none => throw .TypeError

/-! ### control: try / except, loops -/

/-- `try: body  except <classes>: handler` -/
def tryExcept {α : Type} (body : PyM α) (cs : List Catch) (handler : PyM α) : PyM α :=
  match body with
  | .ok a => .ok a
  | .error e => if catches cs e then handler else .error e

/-- `for x in it: body` where `st` are the local variables the body assigns -/
def forLoop {σ : Type} (it : V) (st : σ) (body : V → σ → PyM σ) : PyM σ := do
  let xs ← iter it
  xs.foldlM (fun s x => body x s) st

/-- result of one iteration of a `while` loop -/
inductive Step (σ ρ : Type)
  | next (s : σ)      -- condition true, body ran to its end (or `continue`)
  | done (s : σ)      -- condition false: leave the loop
  | ret (r : ρ)       -- `return` inside the body

/-- `while …` as fuelled recursion: `iter` evaluates the condition and, if true, the body;
`after` is the code that follows the loop -/
def whileLoop {σ ρ : Type} : Nat → σ → (σ → PyM (Step σ ρ)) → (σ → PyM ρ) → PyM ρ
  | 0, _, _, _ => throw .outOfFuel
  | fuel + 1, st, iter, after =>
    match iter st with
    | .error e => .error e
    | .ok (.next s) => whileLoop fuel s iter after
    | .ok (.done s) => after s
    | .ok (.ret r) => pure r

/-! ### the frame reader's coroutines: state = bytes still to arrive (then EOF) -/

def IOM (α : Type) : Type := List UInt8 → PyM α × List UInt8

def IOM.pure {α : Type} (a : α) : IOM α := fun s => (.ok a, s)

def IOM.bind {α β : Type} (x : IOM α) (f : α → IOM β) : IOM β := fun s =>
  match x s with
  | (.ok a, s') => f a s'
  | (.error e, s') => (.error e, s')

instance : Monad IOM where
  pure := IOM.pure
  bind := IOM.bind

def IOM.lift {α : Type} (x : PyM α) : IOM α := fun s => (x, s)

instance : MonadLift PyM IOM := ⟨IOM.lift⟩

def IOM.throw {α : Type} (e : PyErr) : IOM α := fun s => (.error e, s)

instance : MonadExcept PyErr IOM where
  throw := IOM.throw
  tryCatch x h := fun s => match x s with
    | (.ok a, s') => (.ok a, s')
    | (.error e, s') => h e s'

/-- `await reader.read(1)`: the next byte, or `b""` at EOF.  (`read(n)` for other `n` depends on
the chunking and is not modelled.) -/
def reader_read (n : V) : IOM V := fun s =>
  match n with
  | .int 1 =>
    match s with
    | [] => (.ok (.bytes []), [])
    | b :: r => (.ok (.bytes [b]), r)
  | _ => (.error .unsupported, s)

/-- `await reader.readexactly(n)`: `n` bytes, or IncompleteReadError at EOF — what had arrived is
dropped (asyncio.StreamReader's contract, DESIGN section 3) -/
def reader_readexactly (n : V) : IOM V := fun s =>
  match n with
  | .int k =>
    if k < 0 then (.error .ValueError, s)
    else if s.length < k.toNat then (.error .IncompleteReadError, [])
    else (.ok (.bytes (s.take k.toNat)), s.drop k.toNat)
  | _ => (.error .unsupported, s)

def tryExceptIO {α : Type} (body : IOM α) (cs : List Catch) (handler : IOM α) : IOM α := fun s =>
  match body s with
  | (.ok a, s') => (.ok a, s')
  | (.error e, s') => if catches cs e then handler s' else (.error e, s')

def forLoopIO {σ : Type} (it : V) (st : σ) (body : V → σ → IOM σ) : IOM σ := do
  let xs ← IOM.lift (iter it)
  xs.foldlM (fun s x => body x s) st

def whileLoopIO {σ ρ : Type} : Nat → σ → (σ → IOM (Step σ ρ)) → (σ → IOM ρ) → IOM ρ
  | 0, _, _, _ => IOM.throw .outOfFuel
  | fuel + 1, st, iter, after => fun s =>
    match iter st s with
    | (.error e, s') => (.error e, s')
    | (.ok (.next st'), s') => whileLoopIO fuel st' iter after s'
    | (.ok (.done st'), s') => after st' s'
    | (.ok (.ret r), s') => (.ok r, s')

end PlumVerif.Py

import PlumVerif.Model.Frame
import PlumVerif.Model.Requests
import PlumVerif.Model.NetVersion
/-
The frame OBJECT of pyplumio/frames/__init__.py as a state machine.

State: `PyFrame δ` (class, recipient, sender, econet type, econet version, the cached
`_message : Option bytes`, the cached `_data : Option δ`).  Operations: the `data` / `message`
getters (decode / encode lazily and cache), the `data` / `message` setters (store one, clear
the other), `bytes`, `len()`, `==`.  The machine is generic in the kind's codec
(`create_message`, `decode_message`); `codecOf` instantiates it for the kinds modelled so far:
all requests (nine payload builders, the others ↦ empty message; `decode_message` ↦ `{}`),
DeviceAvailableResponse and ProgramVersionResponse (Net / Version codecs) and the responses
that inherit both methods from `Response`.

Also: `FrameWriter.write` / `close` of pyplumio/stream.py as a tiny transport-event model.
-/
namespace PlumVerif

/-- exceptions escaping a frame operation -/
inductive ObjErr
  | build (e : Req.BuildErr)   -- raised by create_message (FrameDataError / ValueError / OverflowError)
  | struct                     -- struct.error: a header value outside its field, a number the codec cannot pack
  | decode                     -- decode_message raised (short / malformed message)
  | type                       -- TypeError family: a dict value of the wrong Python type
deriving Repr, DecidableEq

/-- `create_message` / `decode_message` of one frame class; `create` sees the header's sender
(ProgramVersionStructure packs `self.frame.sender`) -/
structure FrameCodec (δ : Type) where
  create : Int → δ → Except ObjErr (List Byte)
  decode : List Byte → Except ObjErr δ
  /-- the empty dict `{}` -/
  empty : δ

namespace Obj
variable {δ : Type}

inductive Op (δ : Type)
  | getData
  | getMessage
  | setData (d : δ)
  | setMessage (m : List Byte)
  | bytes
  | len
deriving Repr

inductive Out (δ : Type)
  | data (d : δ)
  | message (m : List Byte)
  | bytes (b : List Byte)
  | len (n : Nat)
  | done
  | raised (e : ObjErr)
deriving Repr, DecidableEq

def Op.isGetter : Op δ → Bool
  | .setData _ => false
  | .setMessage _ => false
  | _ => true

/-- `Frame(recipient, sender, econet_type, econet_version, message, data)` of class `cls` -/
def construct (cls : Nat) (rcpt sender etype ever : Int) (message : Option (List Byte)) (data : Option δ) :
    PyFrame δ := ⟨cls, rcpt, sender, etype, ever, message, data⟩

/-- the `message` property: the cached message, else `create_message(_data or {})`, cached.
An exception leaves the state unchanged. -/
def ensureMessage (c : FrameCodec δ) (x : PyFrame δ) : Except ObjErr (PyFrame δ × List Byte) :=
  match x.message with
  | some m => .ok (x, m)
  | none =>
    match c.create x.sender (x.data.getD c.empty) with
    | .ok m => .ok ({ x with message := some m }, m)
    | .error e => .error e

/-- the `data` property: the cached data, else `decode_message(_message)` (or `{}` without a
message), cached -/
def ensureData (c : FrameCodec δ) (x : PyFrame δ) : Except ObjErr (PyFrame δ × δ) :=
  match x.data with
  | some d => .ok (x, d)
  | none =>
    match x.message with
    | none => .ok ({ x with data := some c.empty }, c.empty)
    | some m =>
      match c.decode m with
      | .ok d => .ok ({ x with data := some d }, d)
      | .error e => .error e

def byteField (v : Int) : Option Byte := if 0 ≤ v ∧ v < 256 then some v.toNat.toUInt8 else none

/-- the header values as wire fields; `none` = `struct.pack_into("<BH4B", …)` raises -/
def toFields (x : PyFrame δ) (m : List Byte) : Option Fields :=
  match byteField x.rcpt, byteField x.sender, byteField x.etype, byteField x.ever with
  | some rc, some sd, some et, some ev =>
    if x.cls < 256 ∧ m.length + 10 < 65536 then some ⟨x.cls.toUInt8, rc, sd, et, ev, m⟩ else none
  | _, _, _, _ => none

def step (c : FrameCodec δ) (x : PyFrame δ) : Op δ → PyFrame δ × Out δ
  | .getData =>
    match ensureData c x with
    | .ok (x', d) => (x', .data d)
    | .error e => (x, .raised e)
  | .getMessage =>
    match ensureMessage c x with
    | .ok (x', m) => (x', .message m)
    | .error e => (x, .raised e)
  | .setData d => ({ x with data := some d, message := none }, .done)
  | .setMessage m => ({ x with message := some m, data := none }, .done)
  | .bytes =>
    -- header → length → message (cached); then the header is packed, kind, message, BCC, end
    match ensureMessage c x with
    | .ok (x', m) =>
      match toFields x' m with
      | some f => (x', .bytes (encode f))
      | none => (x', .raised .struct)
    | .error e => (x, .raised e)
  | .len =>
    match ensureMessage c x with
    | .ok (x', m) => (x', .len (m.length + 10))
    | .error e => (x, .raised e)

/-- run a sequence of operations on one object, collecting what each returned -/
def run (c : FrameCodec δ) (x : PyFrame δ) : List (Op δ) → PyFrame δ × List (Out δ)
  | [] => (x, [])
  | op :: ops =>
    let (x', o) := step c x op
    let (x'', os) := run c x' ops
    (x'', o :: os)

/-- the payload a frame in state `x` stands for: its cached message, else the encoding of its data -/
def payloadOf (c : FrameCodec δ) (x : PyFrame δ) : Except ObjErr (List Byte) :=
  match x.message with
  | some m => .ok m
  | none => c.create x.sender (x.data.getD c.empty)

/-- the payload defined by the LAST content-defining operation of `ops` (the encoder image of
the last data set, or the last message set); the construction arguments if there is none -/
def lastPayload (c : FrameCodec δ) (x : PyFrame δ) : List (Op δ) → Except ObjErr (List Byte)
  | [] => payloadOf c x
  | .setData d :: ops => lastPayload c { x with data := some d, message := none } ops
  | .setMessage m :: ops => lastPayload c { x with message := some m, data := none } ops
  | _ :: ops => lastPayload c x ops

/-- what `bytes` returns for a header and a payload -/
def bytesOut (x : PyFrame δ) : Except ObjErr (List Byte) → Out δ
  | .ok m =>
    match toFields x m with
    | some f => .bytes (encode f)
    | none => .raised .struct
  | .error e => .raised e

/-! #### header fields are plain attributes: they can be re-assigned between serialisations -/

inductive HdrField
  | rcpt | sender | etype | ever
deriving Repr, DecidableEq

/-- `frame.recipient = v` etc.: stores the value, touches neither cache -/
def setHdr (x : PyFrame δ) : HdrField → Int → PyFrame δ
  | .rcpt, v => { x with rcpt := v }
  | .sender, v => { x with sender := v }
  | .etype, v => { x with etype := v }
  | .ever, v => { x with ever := v }

/-- operations on one frame object including attribute assignment of the four header fields -/
inductive HOp (δ : Type)
  | op (o : Op δ)
  | hdr (f : HdrField) (v : Int)
deriving Repr

def stepH (c : FrameCodec δ) (x : PyFrame δ) : HOp δ → PyFrame δ × Out δ
  | .op o => step c x o
  | .hdr f v => (setHdr x f v, .done)

def runH (c : FrameCodec δ) (x : PyFrame δ) : List (HOp δ) → PyFrame δ × List (Out δ)
  | [] => (x, [])
  | o :: ops =>
    let r := stepH c x o
    let rs := runH c r.1 ops
    (rs.1, r.2 :: rs.2)

/-- the header after the assignments of `ops` (the last assignment of a field wins) -/
def hdrAfter (x : PyFrame δ) : List (HOp δ) → PyFrame δ
  | [] => x
  | .op _ :: ops => hdrAfter x ops
  | .hdr f v :: ops => hdrAfter (setHdr x f v) ops

/-- the content operations of a sequence -/
def contentOps : List (HOp δ) → List (Op δ)
  | [] => []
  | .op o :: ops => o :: contentOps ops
  | .hdr _ _ :: ops => contentOps ops

/-- the codec does not look at the header's sender (true of every kind but the program-version
response, whose payload carries the sender's address) -/
def senderFree (c : FrameCodec δ) : Prop := ∀ s s' d, c.create s d = c.create s' d

end Obj

/-! ### the data dicts and codecs of the modelled kinds -/

/-- values of a frame's data dict -/
inductive DVal
  | int (v : Int)
  | none
  | str (s : String)
  | sched (s : List (List Bool))
  | net (n : NetInfo)
  | ver (v : VersionInfo)
deriving Repr, DecidableEq

/-- a data dict: key/value pairs (the harness sends them sorted by key, so list equality is
dict equality) -/
abbrev Dict := List (String × DVal)

namespace Dict

def get (d : Dict) (k : String) : Option DVal := (d.find? (·.1 == k)).map (·.2)

/-- `data[k]` / `data.get(k)` used as an integer: absent ↦ `none`; a value of another type
makes the builder raise a TypeError -/
def int? (d : Dict) (k : String) : Except ObjErr (Option Int) :=
  match d.get k with
  | Option.none => .ok Option.none
  | some (.int v) => .ok (some v)
  | some _ => .error .type

/-- the thermostat offset: absent, Python `None`, or an integer -/
def offset? (d : Dict) : Except ObjErr (Option (Option Int)) :=
  match d.get "offset" with
  | Option.none => .ok Option.none
  | some .none => .ok (some Option.none)
  | some (.int v) => .ok (some (some v))
  | some _ => .error .type

end Dict

def liftBuild : Except Req.BuildErr (List Byte) → Except ObjErr (List Byte)
  | .ok m => .ok m
  | .error e => .error (.build e)

/-- the default `NetworkInfo()` / `VersionInfo()` used when the key is absent; see `defaultVersion` for the version -/
def defaultNet : NetInfo :=
  ⟨⟨⟨0, 0, 0, 0⟩, ⟨255, 255, 255, 0⟩, ⟨0, 0, 0, 0⟩, true⟩,
   ⟨⟨0, 0, 0, 0⟩, ⟨255, 255, 255, 0⟩, ⟨0, 0, 0, 0⟩, true, [], 1, 100⟩, true⟩

/-- `VersionInfo()`: the software numbers are those of the installed package (a parameter) -/
def defaultVersion (sw : Nat × Nat × Nat) : VersionInfo :=
  ⟨sw.1, sw.2.1, sw.2.2, [0xff, 0xff], 5, [0x7a, 0x00], [0, 0, 0]⟩

/-- `create_message` per frame-type code (protocol numbering, pinned by `C02.frame_codes_pinned`) -/
def createFor (swVersion : Nat × Nat × Nat) (code : Nat) (sender : Int) (d : Dict) : Except ObjErr (List Byte) :=
  if code = 49 ∨ code = 50 ∨ code = 92 then do
    liftBuild (Req.rangePayload (← d.int? "count") (← d.int? "start"))
  else if code = 61 then do
    liftBuild (Req.alertsPayload (← d.int? "start") (← d.int? "count"))
  else if code = 51 then do
    liftBuild (Req.setEcomaxPayload (← d.int? "index") (← d.int? "value"))
  else if code = 52 then do
    liftBuild (Req.setMixerPayload (← d.int? "device_index") (← d.int? "index") (← d.int? "value"))
  else if code = 93 then do
    liftBuild (Req.setThermostatPayload (← d.int? "index") (← d.int? "value") (← d.offset?) (← d.int? "size"))
  else if code = 59 then do
    liftBuild (Req.controlPayload (← d.int? "value"))
  else if code = 55 then do
    let t ← match d.get "type" with
      | Option.none => pure Option.none
      | some (.str s) => pure (some s)
      | some _ => .error .type
    let s ← match d.get "schedule" with
      | Option.none => pure Option.none
      | some (.sched s) => pure (some s)
      | some _ => .error .type
    liftBuild (Req.schedulePayload t (← d.int? "switch") (← d.int? "parameter") s)
  else if code = 176 then
    match d.get "network" with
    | Option.none => match Net.encode defaultNet with | some m => .ok m | Option.none => .error .struct
    | some (.net n) => match Net.encode n with | some m => .ok m | Option.none => .error .struct
    | some _ => .error .type
  else if code = 192 then
    let enc : VersionInfo → Except ObjErr (List Byte) := fun v =>
      if 0 ≤ sender then
        match Version.encode v sender.toNat with | some m => .ok m | Option.none => .error .struct
      else .error .struct
    match d.get "version" with
    | Option.none => enc (defaultVersion swVersion)
    | some (.ver v) => enc v
    | some _ => .error .type
  else .ok []

/-- `decode_message` per frame-type code -/
def decodeFor (code : Nat) (m : List Byte) : Except ObjErr Dict :=
  if code = 176 then
    match Net.decode m with
    | some n => .ok [("network", .net n)]
    | Option.none => .error .decode
  else if code = 192 then
    match Version.decode m with
    | some v => .ok [("version", .ver v)]
    | Option.none => .error .decode
  else .ok []

/-- responses that inherit `create_message` and `decode_message` from `Response` -/
def plainResponses : List Nat := [179, 180, 187, 221]

/-- kinds whose object behaviour is modelled: every request, the two encodable responses, the
plain responses -/
def objectKind (code : Nat) : Bool :=
  Gen.frameTypes.any (fun p => p.2 == code && p.1.startsWith "REQUEST_") || code == 176 || code == 192
    || plainResponses.contains code

def codecOf (sw : Nat × Nat × Nat) (code : Nat) : FrameCodec Dict := ⟨createFor sw code, decodeFor code, []⟩

/-! ### FrameWriter -/
namespace Writer

/-- what the stream writer / transport sees -/
inductive Ev
  | write (b : List Byte)
  | drain
  | close
  | waitClosed
deriving Repr, DecidableEq

/-- exceptions a transport call can raise, at the granularity `close` distinguishes -/
inductive Exc
  | os        -- OSError family
  | timeout   -- asyncio.TimeoutError
  | other
deriving Repr, DecidableEq

inductive Res
  | ok
  | raised (e : Exc)
  | frameError (e : ObjErr)   -- `frame.bytes` raised: nothing reaches the writer
deriving Repr, DecidableEq

/-- `FrameWriter.write(frame)`: `writer.write(frame.bytes)` then `await writer.drain()`;
`drain` is the transport's answer (`none` = returns) -/
def write (frameBytes : Except ObjErr (List Byte)) (drain : Option Exc) : List Ev × Res :=
  match frameBytes with
  | .error e => ([], .frameError e)
  | .ok b =>
    match drain with
    | none => ([.write b, .drain], .ok)
    | some e => ([.write b, .drain], .raised e)

/-- `FrameWriter.close()`: `writer.close()`, `await wait_closed()`; OSError and TimeoutError
are logged and swallowed, anything else propagates -/
def close (closeExc waitExc : Option Exc) : List Ev × Res :=
  let swallow : Exc → Res := fun e => match e with | .other => .raised .other | _ => .ok
  match closeExc with
  | some e => ([.close], swallow e)
  | none =>
    match waitExc with
    | some e => ([.close, .waitClosed], swallow e)
    | none => ([.close, .waitClosed], .ok)

/-- a session: frames written one after the other while every drain succeeds -/
def writeAll : List (List Byte) → List Ev
  | [] => []
  | b :: r => (write (.ok b) none).1 ++ writeAll r

def written : List Ev → List Byte
  | [] => []
  | .write b :: r => b ++ written r
  | _ :: r => written r

end Writer

end PlumVerif

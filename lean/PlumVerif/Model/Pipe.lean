import PlumVerif.Model.Pool
import PlumVerif.Model.Fanout
/-
C09 (composition) — the receive pipeline as ONE machine:

    producer ──arrive──▶ read queue ──take──▶ consumers ──finish──▶ get_device_entry(sender) ─▶ device.handle_frame
                                                            │                                        │ replies
    transport ◀──write── producer ◀── write queue ◀─────────┴────────────────────────────────────────┘

`pool` is the pool machine of Model/Pool.lean unchanged (read queue, consumers, accounting).  On
top of it: the device map `self.data` (address ↦ device object; `get_device_entry` = look the
address up or create and publish — atomic here: that concurrent callers all end up with ONE object
per address is C10's theorem about the lock, `C10.per_address_single_device`), for every delivered
frame WHICH device object got it, the write queue the replies go to, and the producer's write
cycle (`write`: the oldest queued frame goes to the transport).  `cr a` = address `a` has a device
class; for an address without one `get_device_entry` raises (contained by the consumer).

Device objects are numbered by creation order (position in the map), addresses as `Nat`.
-/
namespace PlumVerif.Pipe
open PlumVerif PlumVerif.Pool

structure St where
  pool : Pool.St
  devOf : Fanout.Reg               -- (address, device object) in creation order: `AsyncProtocol.data`
  deliveredTo : List (Nat × Nat)   -- (frame id, device object that handled it), most recent first
  wqueue : List Fields             -- write queue, head = oldest
  written : List Fields            -- frames the producer wrote to the transport, most recent first
deriving Repr, DecidableEq

def init (n : Nat) : St := ⟨Pool.init n, [], [], [], []⟩

inductive Mv
  | pool (m : Pool.Mv)   -- arrive (the producer enqueues a received frame) / take / finish
  | write                -- one producer cycle: the oldest frame of the write queue is written
deriving Repr, DecidableEq

/-- `get_device_entry(sender)`: the entry of the address, created and published if there is none;
`none` = the address has no device class (raises) -/
def entry (cr : Nat → Bool) (devs : Fanout.Reg) (a : Nat) : Fanout.Reg × Option Nat :=
  if cr a then ((Fanout.bindOne devs a).1, some (Fanout.bindOne devs a).2) else (devs, none)

def step (cfg : Cfg) (cr : Nat → Bool) (s : St) : Mv → St
  | .write =>
    match s.wqueue with
    | [] => s
    | r :: q => { s with wqueue := q, written := r :: s.written }
  | .pool (.finish f) =>
    if f ∈ s.pool.inHand then
      let p' := Pool.step true cfg s.pool (.finish f)
      match (entry cr s.devOf f.sender.toNat).2, handle cfg f with
      | some d, .done rs =>
        { pool := p', devOf := (entry cr s.devOf f.sender.toNat).1, deliveredTo := (f.id, d) :: s.deliveredTo,
          wqueue := s.wqueue ++ rs.reverse, written := s.written }
      | some _, .raised => { s with pool := p', devOf := (entry cr s.devOf f.sender.toNat).1 }
      | none, .done rs => { s with pool := p', wqueue := s.wqueue ++ rs.reverse }   -- excluded by `Good`
      | none, .raised => { s with pool := p' }
    else s
  | .pool m => { s with pool := Pool.step true cfg s.pool m }

def run (cfg : Cfg) (cr : Nat → Bool) (s : St) : List Mv → St
  | [] => s
  | m :: ms => run cfg cr (step cfg cr s m) ms

/-- the pool moves of a schedule -/
def poolMoves : List Mv → List Pool.Mv
  | [] => []
  | .pool m :: ms => m :: poolMoves ms
  | .write :: ms => poolMoves ms

/-- the input bit `raises` of a frame is consistent with the device classes: a frame from an address
without a device class cannot be handled (get_device_entry raises) -/
def Good (cfg : Cfg) (cr : Nat → Bool) (f : Frame) : Prop := cr f.sender.toNat = false → handle cfg f = .raised

/-! ### replay of a harness run (batches, FIFO to quiescence, then the write queue drained) -/

def lift (ms : List Pool.Mv) : List Mv := ms.map .pool

/-- one batch as in `Pool.batch` / `Pool.holdBatch`: the same pool moves, on the composed machine -/
def batch (cfg : Cfg) (cr : Nat → Bool) (s : St) (held : Bool) (fs : List Frame) : St :=
  run cfg cr s (lift (if held then Pool.holdBatch true cfg s.pool fs else Pool.batch true cfg s.pool fs).2)

def drainWrites (cfg : Cfg) (cr : Nat → Bool) (s : St) : St := run cfg cr s (List.replicate s.wqueue.length .write)

/-- final state of a harness run: the batches, one more FIFO drain (class loading completed), all writes -/
def replay (cfg : Cfg) (cr : Nat → Bool) (n : Nat) (batches : List (Bool × List Frame)) : St :=
  let s := batches.foldl (fun s b => batch cfg cr s b.1 b.2) (init n)
  drainWrites cfg cr (batch cfg cr s false [])

end PlumVerif.Pipe
